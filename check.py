#!/venv/bin/python
"""Entry point:  check.py <Cxx> [--tier quick|thorough] [--replay path]

Static analysis only: parses /repo/src/skmatter (never imports or runs it) and
decides the structural obligations of one property.  Exit 0 = all obligations
discharged (known findings printed), 1 = VIOLATION, 2 = ANALYSIS-ERROR.
"""
import importlib
import json
import os
import sys
import time
import traceback

sys.path.insert(0, os.path.dirname(os.path.abspath(__file__)))
sys.setrecursionlimit(20000)


class _QuietPipe:
    """stdout that survives a reader closing the pipe early (`check.py C01 | head -1`): the verdict
    is the exit code, which must not turn into a traceback because a line could not be printed"""

    def __init__(self, f):
        self._f = f
        self._dead = False

    def write(self, s):
        if self._dead:
            return len(s)
        try:
            return self._f.write(s)
        except BrokenPipeError:
            self._dead = True
            return len(s)

    def flush(self):
        if self._dead:
            return
        try:
            self._f.flush()
        except BrokenPipeError:
            self._dead = True

    def __getattr__(self, k):
        return getattr(self._f, k)


sys.stdout = _QuietPipe(sys.stdout)


def main(argv):
    if len(argv) < 2:
        print(__doc__)
        return 2
    prop = argv[1]
    tier = os.environ.get("VERIF_TIER", "quick")
    replay = None
    i = 2
    while i < len(argv):
        if argv[i] == "--tier":
            tier = argv[i + 1]
            i += 2
        elif argv[i] == "--replay":
            replay = argv[i + 1]
            i += 2
        else:
            i += 1
    seed = int(os.environ.get("VERIF_SEED", "0") or 0)
    t0 = time.time()
    from sa import harness
    from sa.model import AnalysisError, AnchorError

    try:
        spec = importlib.import_module(f"sa.specs.{prop}")
        ctx = harness.Ctx(prop, tier)
        spec.check(ctx)
        if tier == "thorough" and hasattr(spec, "thorough"):
            spec.thorough(ctx)
        if tier == "thorough" and not replay:
            from sa import twins

            files = []
            with open(os.path.join(harness.VERIF, "properties.jsonl")) as fh:
                for line in fh:
                    p = json.loads(line)
                    if p["id"] == prop:
                        files = [f[len("src/skmatter/"):] for f in p["anchors"]["files"] if f.startswith("src/skmatter/")]
            limit = int(os.environ.get("VERIF_TWINS_PER_FILE", {"C09": "8", "C13": "25", "C01": "45", "C08": "50"}.get(prop, "80")))
            res = twins.battery(prop, files, ctx.P.root, limit_per_file=limit)
            ctx.extra_coverage = {"twins": res}
            print(f"[{prop}] twin battery: {res['broken_total']} broken twins -> {res['broken_killed']} reported as VIOLATION, {res['broken_analysis_error']} as ANALYSIS-ERROR, {res['broken_survived']} silent (equivalent or outside the claimed clauses); {res['benign_total']} benign twins -> {len(res['benign_false_alarms'])} false alarms")
            for fa in res["benign_false_alarms"]:
                ctx.error("TWIN-BENIGN", f"{fa['file']}: {fa['twin']}", f"behaviour-preserving twin made the check report {fa['verdict']}: {fa['keys']}", fa["file"])
        if replay:
            with open(replay) as fh:
                r = json.load(fh)
            hits = [o for o in ctx.obligations if o.key() == r["key"]]
            for o in hits:
                print(f"REPLAY {o.key()} -> {o.status}: {o.detail[:800]}")
            bad = [o for o in hits if o.status == "violation"]
            if bad:
                print(f"VIOLATION property={prop} replay={replay}")
                return 1
            return 0 if hits else 2
        return harness.finish(ctx, prop, tier, t0, spec.__doc__ or "", getattr(spec, "FLOOR", 1), seed)
    except (AnchorError, AnalysisError) as e:
        print(f"ANALYSIS-ERROR property={prop} anchor/analysis: {e}")
        return 2
    except Exception:
        print(f"ANALYSIS-ERROR property={prop} checker raised:")
        traceback.print_exc(file=sys.stdout)
        return 2


if __name__ == "__main__":
    rc = main(sys.argv)
    sys.stdout.flush()
    os._exit(rc)
