"""Tiny positive examples for zero-expected rules: each must be recognised by the
corresponding rule on every run (otherwise the rule passes vacuously)."""
import numpy as np


def mutates_argument(a):
    a *= 2.0
    return a


class WritesHyperParameter:
    def __init__(self, tol=1.0):
        self.tol = tol

    def fit(self, X):
        self.tol = X.shape[0]
        return self


def wrap_floor_half(d, cell):
    return d - np.floor(d / cell + 0.5) * cell


def wrap_floor(d, cell):
    return d - np.floor(d / cell) * cell
