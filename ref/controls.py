"""Tiny positive examples for zero-expected rules: each must be recognised by the
corresponding rule on every run (otherwise the rule passes vacuously)."""
import numpy as np


def mutates_argument(a):
    a *= 2.0
    return a


class WritesHyperParameter:
    def __init__(self, tol=1.0):
        self.tol = tol

    def fit(self, X):
        self.tol = X.shape[0]
        return self


def wrap_floor_half(d, cell):
    return d - np.floor(d / cell + 0.5) * cell


def wrap_floor(d, cell):
    return d - np.floor(d / cell) * cell


def pair_differences_rows(X, Y):
    # (control) all pairwise differences, X-major: row i * len(Y) + j holds X[i] - Y[j]
    return np.concatenate([x - Y for x in X])


def pair_differences_stacked(X, Y):
    # (control) the same table built column block by column block
    return np.stack([X - y for y in Y], axis=1).reshape(-1, X.shape[1])


def pair_differences_other_order(X, Y):
    # (control) Y-major order: row j * len(X) + i holds X[i] - Y[j] - NOT the same table
    return np.concatenate([X - y for y in Y])


def stack_columns_c(X, Z):
    # (control) np.c_ joins column blocks like np.column_stack / np.hstack
    return np.c_[X, Z]
