"""Reference model of DirectionalConvexHull.  Parsed, never executed.
Hull space layout: column 0 = target y, columns 1.. = the low-dimensional features."""
import numpy as np
from scipy.spatial import ConvexHull


def vertical_distance(equations, points):
    # facet n.p + b = 0 ; vertical (along y = column 0) offset of p from the facet: (p.n + b) / n_y
    return (points @ equations[:, :-1].T + equations[:, -1:].T) / equations[:, :1].T


def hull_distance(equations, points, tolerance):
    d = vertical_distance(equations, points)
    below = np.any(d < -tolerance, axis=1)
    out = np.zeros(len(points))
    # on / above the lower hull: distance to the hull surface = smallest facet offset
    out[~below] = np.min(d[~below], axis=1)
    # below: the closest facet among those the point is below (non-positive offsets)
    neg = d.copy()
    neg[d > 0] = -np.inf
    out[below] = np.max(neg[below], axis=1)
    return out


# ---- equivalent spellings (confirmed by hand) ---------------------------------------------------------------
def vertical_distance_plane_value(equations, points):
    # the same offset written as "y of the point minus y of the facet at the point's other coordinates":
    # y_facet = -(p_rest . n_rest + b) / n_y, and p_y - y_facet = (p.n + b) / n_y
    plane_values = -(points[:, 1:] @ equations[:, 1:-1].T + equations[:, -1]) / equations[:, 0]
    return points[:, :1] - plane_values


def vertical_distance_homogeneous(equations, points):
    # the same offset with the points in homogeneous coordinates: (p, 1) . (n, b) = p.n + b
    homogeneous = np.column_stack((points, np.ones(len(points))))
    return (homogeneous @ equations.T) / equations[:, 0]


def hull_distance_of(d, n_points, tolerance):
    # hull_distance for a given matrix of vertical offsets
    below = np.any(d < -tolerance, axis=1)
    out = np.zeros(n_points)
    out[~below] = np.min(d[~below], axis=1)
    neg = d.copy()
    neg[d > 0] = -np.inf
    out[below] = np.max(neg[below], axis=1)
    return out


def hull_distance_plane_value(equations, points, tolerance):
    return hull_distance_of(vertical_distance_plane_value(equations, points), len(points), tolerance)


def hull_distance_homogeneous(equations, points, tolerance):
    return hull_distance_of(vertical_distance_homogeneous(equations, points), len(points), tolerance)


def hull_distance_pointwise(equations, points, tolerance):
    # point by point: a point below some facet (offset < -tolerance) has at least one non-positive offset, and the
    # largest of those is what the masked maximum selects
    d = vertical_distance(equations, points)
    below = np.any(d < -tolerance, axis=1)
    out = [np.max(row[row <= 0]) if b else np.min(row) for row, b in zip(d, below)]
    return np.array(out, dtype=float)


def dch_fit(X, y, low_dim_idx):
    high_dim_idx = np.setdiff1d(np.arange(X.shape[1]), low_dim_idx)
    data = np.zeros((X.shape[0], len(low_dim_idx) + 1))
    data[:, :1] = y
    data[:, 1:] = X[:, low_dim_idx]
    hull = ConvexHull(data, incremental=True)
    lower = np.where(hull.equations[:, 0] < 0)[0]
    equations = hull.equations[lower]
    selected = np.unique(hull.simplices[lower].flatten())
    return high_dim_idx, equations, selected, data[selected], data[selected, 1:], X[:, high_dim_idx][selected]


def dch_score_samples(X, y, low_dim_idx, equations, tolerance):
    pts = np.hstack((y.reshape(-1, 1), X[:, low_dim_idx]))
    return hull_distance(equations, pts, tolerance).reshape(y.shape)


def dch_score_samples_plane_value(X, y, low_dim_idx, equations, tolerance):
    pts = np.hstack((y.reshape(-1, 1), X[:, low_dim_idx]))
    return hull_distance_plane_value(equations, pts, tolerance).reshape(y.shape)


def dch_score_samples_pointwise(X, y, low_dim_idx, equations, tolerance):
    pts = np.hstack((y.reshape(-1, 1), X[:, low_dim_idx]))
    return hull_distance_pointwise(equations, pts, tolerance).reshape(y.shape)


def dch_score_samples_homogeneous(X, y, low_dim_idx, equations, tolerance):
    pts = np.hstack((y.reshape(-1, 1), X[:, low_dim_idx]))
    return hull_distance_homogeneous(equations, pts, tolerance).reshape(y.shape)
