"""Reference model of skmatter.metrics._pairwise.  Parsed, never executed."""
import numpy as np
from sklearn.metrics.pairwise import _euclidean_distances


def minimum_image(d, cell):
    # nearest periodic image of a displacement in a rectangular cell
    return d - np.round(d / cell) * cell


def displacements(X, Y):
    # all X[i] - Y[j], row-major in (i, j)
    return np.concatenate([x - Y for x in X])


def periodic_euclidean(X, Y, cell, squared):
    if cell is None:
        return _euclidean_distances(X, Y, squared=squared)
    d = minimum_image(displacements(X, Y), cell)
    dist = np.linalg.norm(d, axis=1).reshape(X.shape[0], Y.shape[0])
    if squared:
        dist = dist**2
    return dist


def mahalanobis(X, Y, cov_inv, cell, squared):
    # d^T S d for every precision matrix S of the stack, every pair (i, j)
    if len(cov_inv.shape) == 2:
        cov_inv = cov_inv[np.newaxis, :, :]
    d = displacements(X, Y)
    if cell is not None:
        d = minimum_image(d, cell)
    q = np.array([np.sum(d * (S @ d.T).T, axis=-1) for S in cov_inv]).reshape((cov_inv.shape[0], X.shape[0], Y.shape[0]))
    if not squared:
        q = q**0.5
    return q
