"""Reference model of PCovR / KernelPCovR (documented formulas, simplest numpy
form).  Parsed by the checker, never executed."""
import numpy as np
from sklearn.utils.extmath import stable_cumsum
from scipy import linalg
from sklearn.utils.extmath import randomized_svd, svd_flip
from skmatter.utils import pcovr_covariance, pcovr_kernel


# ---- modified Gram matrix / covariance ----------------------------------------------
def modified_gram(mixing, X, Yhat):
    # K~ = a X X^T + (1 - a) Yhat Yhat^T
    return mixing * (X @ X.T) + (1 - mixing) * (Yhat @ Yhat.T)


def modified_gram_precomputed(mixing, K, Yhat):
    # K~ = a K + (1 - a) Yhat Yhat^T
    return mixing * K + (1 - mixing) * (Yhat @ Yhat.T)


def inverse_sqrt_covariance(X, rcond):
    # (X^T X)^(-1/2) on the range of X^T X (eigenvalues above rcond)
    v, U = np.linalg.eigh(X.T @ X)
    v = np.flip(v)
    U = np.flip(U, axis=1)[:, v > rcond]
    v = np.sqrt(v[v > rcond])
    return U @ np.diagflat(1.0 / v) @ U.T


def inverse_sqrt_covariance_lowrank(X, rcond, rank, iterated_power, random_state):
    # the same on the span of the `rank` leading right singular vectors of X (randomized SVD):
    # singular values s with s^2 = eigenvalue of X^T X, kept where the eigenvalue exceeds rcond
    _, s, Vt = randomized_svd(X, n_components=rank, n_iter=iterated_power, flip_sign=True, random_state=random_state)
    keep = (s**2) > rcond
    V = Vt.T[:, keep]
    s = s[keep]
    return V @ np.diagflat(1.0 / s) @ V.T


def modified_covariance(mixing, X, Yhat, rcond):
    # C~ = a X^T X + (1 - a) C^(-1/2) X^T Yhat Yhat^T X C^(-1/2)
    C_isqrt = inverse_sqrt_covariance(X, rcond)
    CY = C_isqrt @ (X.T @ Yhat)
    return mixing * (X.T @ X) + (1 - mixing) * (CY @ CY.T)


# ---- decomposition ------------------------------------------------------------------------
def leading_components(mat, k):
    # economy SVD with deterministic signs, leading k of U, S, Vt together
    U, S, Vt = linalg.svd(mat, full_matrices=False)
    U, Vt = svd_flip(U, Vt)
    return U[:, :k], S[:k], Vt[:k]


def components_for_fraction(S, fraction):
    # a fractional n_components asks for the smallest k whose leading eigenvalues of the decomposed
    # (modified covariance / Gram) matrix carry more than that fraction of their total; those
    # eigenvalues are the explained variances up to the common factor 1 / (n - 1)
    ratio = S / S.sum()
    return np.searchsorted(stable_cumsum(ratio), fraction, side="right") + 1


def resolved_components(mat, fraction):
    U, S, Vt = linalg.svd(mat, full_matrices=False)
    return components_for_fraction(S, fraction)


def kernel_resolved_components(mat, fraction, tol):
    U, S, Vt = linalg.svd(mat, full_matrices=False)
    S[S < tol] = 0.0
    return components_for_fraction(S, fraction)


def kernel_leading_components(mat, k, tol):
    # KernelPCovR: singular triplets below the tolerance are zeroed (directions outside the
    # numerical range of the modified kernel carry no latent coordinate), then signs are fixed
    U, S, Vt = linalg.svd(mat, full_matrices=False)
    small = S < tol
    U[:, small] = 0.0
    Vt[small] = 0.0
    S[small] = 0.0
    U, Vt = svd_flip(U, Vt)
    return U[:, :k], S[:k], Vt[:k]


# ---- projectors ---------------------------------------------------------------------------------
def feature_space_projectors(X, Y, S, Vt, iCsqrt, tol):
    # P_XT = C^(-1/2) V L^(1/2);  P_TX = L^(-1/2) V^T C^(1/2);  P_TY = L^(-1/2) V^T C^(-1/2) X^T Y
    Csqrt = np.linalg.lstsq(iCsqrt, np.eye(len(iCsqrt)), rcond=None)[0]
    S_sqrt = np.diagflat([np.sqrt(s) if s > tol else 0.0 for s in S])
    S_sqrt_inv = np.diagflat([1.0 / np.sqrt(s) if s > tol else 0.0 for s in S])
    pxt = iCsqrt @ Vt.T @ S_sqrt
    ptx = S_sqrt_inv @ Vt @ Csqrt
    pty = S_sqrt_inv @ Vt @ iCsqrt @ X.T @ Y
    return pxt, ptx, pty


def sample_space_projectors(X, Y, Yhat, W, S, Vt, mixing, tol):
    # P_XT = (a X^T + (1-a) W Yhat^T) V L^(-1/2);  P_TX = L^(-1/2) V^T X;  P_TY = L^(-1/2) V^T Y
    S_sqrt_inv = np.diagflat([1.0 / np.sqrt(s) if s > tol else 0.0 for s in S])
    P = mixing * X.T + (1.0 - mixing) * (W @ Yhat.T)
    T = Vt.T @ S_sqrt_inv
    return P @ T, T.T @ X, T.T @ Y


def spectrum_attributes(S, n_samples):
    # singular values, explained variance and its ratio from the same (sorted) spectrum
    ev = S / (n_samples - 1)
    return np.sqrt(S), ev, ev / ev.sum()


# ---- public API -----------------------------------------------------------------------------------
def pcovr_transform(X, mean, pxt):
    return (X - mean) @ pxt


def pcovr_predict_X(X, pxt, pty):
    return X @ (pxt @ pty)


def pcovr_predict_T(T, pty):
    return T @ pty


def pcovr_inverse_transform(T, ptx):
    return T @ ptx


def pcovr_score(X, Y, T, ptx, pty):
    x = T @ ptx
    y = T @ pty
    return -(np.linalg.norm(X - x) ** 2.0 / np.linalg.norm(X) ** 2.0 + np.linalg.norm(Y - y) ** 2.0 / np.linalg.norm(Y) ** 2.0)


# ---- KernelPCovR -------------------------------------------------------------------------------------
def kpcovr_projectors(K, Yhat, W, S, Vt, mixing, tol):
    # P_KT = (a I + (1-a) W Yhat^T) U L^(-1/2)   with U = Vt^T;  P_TK = pinv(K P_KT)
    U = Vt.T
    P = mixing * np.eye(K.shape[0]) + (1.0 - mixing) * (W @ Yhat.T)
    S_inv = np.array([1.0 / s if s > tol else 0.0 for s in S])
    pkt = P @ U @ np.sqrt(np.diagflat(S_inv))
    T = K @ pkt
    ptt = np.linalg.lstsq(T, np.eye(T.shape[0]), rcond=tol)[0]
    return pkt, ptt


def kpcovr_score(Y, K_NN, K_VN, K_VV, pkt, pky, tol):
    # -(Lkpca + Lkrr);  Lkrr = |Y - K_VN P_KY|^2 / |Y|^2
    # Lkpca = tr(K_VV - 2 K_VN w + w^T K_NN w) / tr(K_VV),  w = T_N (T_N^T T_N)^-1 T_V^T
    y = K_VN @ pky
    Lkrr = np.linalg.norm(Y - y) ** 2 / np.linalg.norm(Y) ** 2
    t_n = K_NN @ pkt
    t_v = K_VN @ pkt
    w = t_n @ np.linalg.lstsq(t_n.T @ t_n, np.eye(t_n.shape[1]), rcond=tol)[0] @ t_v.T
    Lkpca = np.trace(K_VV - 2 * K_VN @ w + w.T @ K_NN @ w) / np.trace(K_VV)
    return -(Lkpca + Lkrr)


def centered_test_test_kernel(K_VV, K_VN, weights, K_fit_all, scale):
    # test-test kernel of features centred by the (weighted) training mean and
    # divided by the normaliser's scale
    cols = np.average(K_VN, weights=weights, axis=1)
    return (K_VV - cols[:, np.newaxis] - cols[np.newaxis, :] + K_fit_all) / scale


def leading_components_arpack(mat, k, tol, v0):
    # ARPACK returns the k largest singular triplets in ASCENDING order: all three
    # factors are reversed together before the sign fix
    from scipy.sparse.linalg import svds

    U, S, Vt = svds(mat, k=k, tol=tol, v0=v0)
    S = S[::-1]
    U, Vt = svd_flip(U[:, ::-1], Vt[::-1])
    return U, S, Vt


def leading_components_randomized(mat, k, n_iter, random_state):
    from sklearn.utils.extmath import randomized_svd

    return randomized_svd(mat, n_components=k, n_iter=n_iter, flip_sign=True, random_state=random_state)


def _zero_small(U, S, Vt, tol):
    # KernelPCovR: triplets below the tolerance carry no latent coordinate
    small = S < tol
    U[:, small] = 0.0
    Vt[small] = 0.0
    S[small] = 0.0
    return U, S, Vt


def kernel_components_arpack(mat, k, tol, v0):
    U, S, Vt = leading_components_arpack(mat, k, tol, v0)
    return _zero_small(U, S, Vt, tol)


def kernel_components_randomized(mat, k, n_iter, random_state, tol):
    U, S, Vt = leading_components_randomized(mat, k, n_iter, random_state)
    return _zero_small(U, S, Vt, tol)
