"""Reference model of skmatter.preprocessing (documented behaviour, simplest
numpy form).  Parsed by the checker, never executed."""
import numpy as np


# ---- StandardFlexibleScaler ----------------------------------------------------------
def scaler_fit(X, sample_weight, with_mean, with_std, column_wise, weighted):
    # weighted mean and (population) variance about the weighted mean, with the
    # weights normalised to one; column-wise scale = sqrt(var), otherwise
    # sqrt(sum of the column variances); flags switch off exactly their statistic
    if weighted:
        w = sample_weight / np.sum(sample_weight)
    else:
        w = None
    if with_mean:
        mean = np.average(X, weights=w, axis=0)
    else:
        mean = np.zeros(X.shape[1])
    scale = 1.0
    if with_std:
        m = np.average(X, weights=w, axis=0)
        var = np.average((X - m) ** 2, weights=w, axis=0)
        if column_wise:
            scale = np.sqrt(var)
        else:
            scale = np.sqrt(var.sum())
    return mean, scale


def scaler_transform(X, mean, scale):
    return (X - mean) / scale


def scaler_inverse_transform(Xt, mean, scale):
    return Xt * scale + mean


# ---- KernelNormalizer ---------------------------------------------------------------------
def kernel_normalizer_fit(K, sample_weight, with_center, with_trace, weighted):
    # r = weighted column means of the training kernel, a = weighted mean of r,
    # c = weighted row means; scale = trace of the centred training kernel / n
    if weighted:
        w = sample_weight / np.sum(sample_weight)
    else:
        w = None
    if with_center:
        rows = np.average(K, weights=w, axis=0)
        all_ = np.average(rows, weights=w)
        cols = np.average(K, weights=w, axis=1)[:, np.newaxis]
    else:
        rows = np.zeros(K.shape[1])
        all_ = 0.0
        cols = np.zeros((K.shape[0], 1))
    if with_trace:
        scale = np.trace(K - rows - cols + all_) / K.shape[0]
    else:
        scale = 1.0
    return w, rows, all_, scale


def kernel_normalizer_transform(K, w, rows, all_, scale, with_center):
    # (K - 1 r^T - c 1^T + a) / scale with c the (weighted) means of each row of K
    # over the training axis
    if with_center:
        cols = np.average(K, weights=w, axis=1)[:, np.newaxis]
    else:
        cols = np.zeros((K.shape[0], 1))
    return (K - rows - cols + all_) / scale


# ---- SparseKernelCenterer ----------------------------------------------------------------------
def sparse_centerer_fit(Knm, Kmm, sample_weight, with_center, with_trace, rcond, weighted):
    if weighted:
        w = sample_weight / np.sum(sample_weight)
    else:
        w = None
    if with_center:
        rows = np.average(Knm, weights=w, axis=0)
    else:
        rows = np.zeros(Knm.shape[1])
    if with_trace:
        Kc = Knm - rows
        scale = np.sqrt(np.trace(Kc @ np.linalg.pinv(Kmm, rcond) @ Kc.T) / Knm.shape[0])
    else:
        scale = 1.0
    return rows, scale


def sparse_centerer_transform(Knm, rows, scale):
    return (Knm - rows) / scale


def zero_variance_columnwise(var, mean, atol, rtol):
    # a column whose variance is below atol + |mean| rtol cannot be standardised
    return np.any(var < atol + abs(mean) * rtol)


def zero_variance_total(var, mean, atol, rtol):
    return var.sum() < abs(np.average(mean)) * rtol + atol


def zero_variance_guard(X, sample_weight, column_wise, weighted, atol, rtol):
    # the statistic that is about to be square-rooted (weighted population variance about the
    # weighted mean, per column or summed) is below atol + |mean| rtol
    if weighted:
        w = sample_weight / np.sum(sample_weight)
    else:
        w = None
    mean = np.average(X, weights=w, axis=0)
    var = np.average((X - mean) ** 2, weights=w, axis=0)
    if column_wise:
        return zero_variance_columnwise(var, mean, atol, rtol)
    return zero_variance_total(var, mean, atol, rtol)
