"""Reference model of QuickShift (documented algorithm).  Parsed, never executed."""
import numpy as np


def gabriel_graph(d2):
    # i ~ j iff no third point k lies inside the ball with diameter ij:
    # d2(i,k) + d2(j,k) < d2(i,j) for some k removes the edge (both directions); no self loops
    n = d2.shape[0]
    g = np.full((n, n), True)
    for i in range(n):
        g[i, i] = False
        for j in range(i, n):
            if np.sum(d2[i] + d2[j] < d2[i, j]):
                g[i, j] = False
                g[j, i] = False
    return g


def qs_next(idx, nearest, probs, d2, cutoff):
    # nearest strictly higher-weight point within the cut-off of idx; if none, the
    # nearest neighbour of idx when that one has higher weight; else idx itself
    n = len(probs)
    dmin = np.inf
    nxt = idx
    if probs[nearest] > probs[idx]:
        nxt = nearest
    for j in range(n):
        if probs[j] > probs[idx] and d2[idx, j] < min(dmin, cutoff):
            nxt = j
            dmin = d2[idx, j]
    return nxt


def gs_next(idx, probs, d2, gabriel, shell):
    # neighbourhood = points within `shell` steps on the Gabriel graph; move to the
    # nearest strictly higher-weight member
    n = len(probs)
    neighs = np.copy(gabriel[idx])
    for _ in range(1, shell):
        more = np.full(n, False)
        for j in range(n):
            if neighs[j]:
                more |= gabriel[j]
        neighs |= more
    nxt = idx
    dmin = np.inf
    for j in range(n):
        if probs[j] > probs[idx] and d2[idx, j] < dmin and neighs[j]:
            nxt = j
            dmin = d2[idx, j]
    return nxt


def centres(X, root):
    idx = np.concatenate(np.argwhere(root == np.arange(root.shape[0])))
    return idx, X[idx]


def ascent_labels(n, step):
    # every unlabelled point follows the ascent map until it reaches a fixed point or
    # an already labelled point; the whole path receives that point's ROOT
    root = np.full(n, -1, dtype=int)
    for i in range(n):
        if root[i] != -1:
            continue
        path = []
        path.append(i)
        current = path[-1]
        while current != root[current]:
            root[current] = step(current)
            if root[root[current]] != -1:
                break
            path.append(root[current])
            current = path[-1]
        root[path] = root[root[current]]
    return root
