"""Reference model of QuickShift (documented algorithm).  Parsed, never executed."""
import numpy as np


def gabriel_graph(d2):
    # i ~ j iff no third point k lies inside the ball with diameter ij:
    # d2(i,k) + d2(j,k) < d2(i,j) for some k removes the edge (both directions); no self loops
    n = d2.shape[0]
    g = np.full((n, n), True)
    for i in range(n):
        g[i, i] = False
        for j in range(i, n):
            if np.sum(d2[i] + d2[j] < d2[i, j]):
                g[i, j] = False
                g[j, i] = False
    return g


def qs_next(idx, nearest, probs, d2, cutoff):
    # nearest strictly higher-weight point within the cut-off of idx; if none, the
    # nearest neighbour of idx when that one has higher weight; else idx itself
    n = len(probs)
    dmin = np.inf
    nxt = idx
    if probs[nearest] > probs[idx]:
        nxt = nearest
    for j in range(n):
        if probs[j] > probs[idx] and d2[idx, j] < min(dmin, cutoff):
            nxt = j
            dmin = d2[idx, j]
    return nxt


def gs_next(idx, probs, d2, gabriel, shell):
    # neighbourhood = points within `shell` steps on the Gabriel graph; move to the
    # nearest strictly higher-weight member
    n = len(probs)
    neighs = np.copy(gabriel[idx])
    for _ in range(1, shell):
        more = np.full(n, False)
        for j in range(n):
            if neighs[j]:
                more |= gabriel[j]
        neighs |= more
    nxt = idx
    dmin = np.inf
    for j in range(n):
        if probs[j] > probs[idx] and d2[idx, j] < dmin and neighs[j]:
            nxt = j
            dmin = d2[idx, j]
    return nxt


def centres(X, root):
    idx = np.concatenate(np.argwhere(root == np.arange(root.shape[0])))
    return idx, X[idx]


def ascent_labels(n, step):
    # every unlabelled point follows the ascent map until it reaches a fixed point or
    # an already labelled point; the whole path receives that point's ROOT
    root = np.full(n, -1, dtype=int)
    for i in range(n):
        if root[i] != -1:
            continue
        path = []
        path.append(i)
        current = path[-1]
        while current != root[current]:
            root[current] = step(current)
            if root[root[current]] != -1:
                break
            path.append(root[current])
            current = path[-1]
        root[path] = root[root[current]]
    return root


# ---- equivalent spellings of the algorithms above -------------------------------------------------
# Each function below computes exactly what its namesake computes (same comparisons, same tie
# rules); they exist because a loop nest can be restructured in ways whose equivalence needs an
# inductive argument that the normal form cannot make.  Agreement with any spelling discharges
# the obligation.
def gabriel_graph_diag_first(d2):
    # diagonal cleared once, only the pairs j > i tested, `any` for a non-zero count
    n = d2.shape[0]
    g = np.full((n, n), True)
    np.fill_diagonal(g, False)
    for i in range(n):
        d_i = d2[i]
        for j in range(i + 1, n):
            if np.any(d_i + d2[j] < d_i[j]):
                g[i, j] = g[j, i] = False
    return g


def gabriel_graph_assigned(d2):
    # starts from "no edge"; every pair j >= i is assigned its verdict directly, the diagonal cleared last
    n = d2.shape[0]
    g = np.zeros((n, n), dtype=bool)
    for i in range(n):
        for j in range(i, n):
            g[i, j] = g[j, i] = np.sum(d2[i] + d2[j] < d2[i, j]) == 0
        g[i, i] = False
    return g


def gabriel_graph_rowwise(d2):
    # all partners j >= i of one point at a time
    n = d2.shape[0]
    g = np.full((n, n), True)
    for i in range(n):
        inside = d2[i] + d2[i:] < d2[i, i:, np.newaxis]
        blocked = inside.any(axis=1)
        g[i, i:] &= ~blocked
        g[i:, i] &= ~blocked
        g[i, i] = False
    return g


def gabriel_graph_by_witness(d2):
    # loop over the third point k, all pairs at once; pairs are tested with i < j only
    n = d2.shape[0]
    blocked = np.full((n, n), False)
    for k in range(n):
        to_k = d2[:, k]
        blocked |= np.add.outer(to_k, to_k) < d2
    blocked = np.triu(blocked, k=1)
    g = ~(blocked | blocked.T)
    np.fill_diagonal(g, False)
    return g


def qs_next_vectorised(idx, nearest, probs, d2, cutoff):
    # the closest higher-weight point (first index on ties) if it lies inside the cut-off; otherwise the nearest
    # neighbour when that one has higher weight; else idx itself
    higher = np.asarray(probs) > probs[idx]
    dist_higher = np.where(higher, d2[idx], np.inf)
    closest = int(np.argmin(dist_higher))
    if dist_higher[closest] < cutoff:
        return closest
    return nearest if higher[nearest] else idx


def qs_next_sorted_scan(idx, nearest, probs, d2, cutoff):
    # candidates visited by increasing distance (ties by increasing index): the first one of higher
    # weight inside the cut-off is the nearest such point
    dists = d2[idx]
    for j in np.argsort(dists, kind="stable"):
        if not dists[j] < cutoff:
            break
        if probs[j] > probs[idx]:
            return j
    if probs[nearest] > probs[idx]:
        return nearest
    return idx


def gs_next_frontier(idx, probs, d2, gabriel, shell):
    # breadth-first growth of the shells: only the points reached last are expanded
    n = len(probs)
    neighs = np.copy(gabriel[idx])
    frontier = np.flatnonzero(neighs)
    for _ in range(1, shell):
        if frontier.size == 0:
            break
        more = np.full(n, False)
        for j in frontier:
            more |= gabriel[j]
        frontier = np.flatnonzero(more & ~neighs)
        neighs |= more
    nxt = idx
    dmin = np.inf
    for j in range(n):
        if probs[j] > probs[idx] and d2[idx, j] < dmin and neighs[j]:
            nxt = j
            dmin = d2[idx, j]
    return nxt


def ascent_labels_carried(n, step):
    # the same path following with the next point carried in a local
    root = np.full(n, -1, dtype=int)
    for i in range(n):
        if root[i] != -1:
            continue
        path = [i]
        current = i
        while current != root[current]:
            nxt = step(current)
            root[current] = nxt
            if root[nxt] != -1:
                break
            path.append(nxt)
            current = nxt
        root[path] = root[nxt]
    return root


def ascent_labels_pointer_jumping(n, step):
    # successor of every point first, then roots by repeated squaring of the successor map
    successor = np.empty(n, dtype=int)
    for i in range(n):
        successor[i] = step(i)
    root = successor
    while not np.array_equal(root[root], root):
        root = root[root]
    return root


def ascent_labels_until_labelled(n, step):
    # the same walk with one loop condition: go on while the current point has no entry yet; a fixed point is
    # its own successor, so it has its entry (itself) when the walk arrives at it, like an already labelled point
    root = np.full(n, -1, dtype=int)
    for i in range(n):
        path = []
        current = i
        while root[current] == -1:
            path.append(current)
            root[current] = step(current)
            current = root[current]
        root[path] = root[current]
    return root
