"""Reference model of the reconstruction measures (roles of train / test, source /
target, scaler and estimator state).  Parsed, never executed."""
import numpy as np
from skmatter.linear_model import OrthogonalRegression


def scaled_split(X, Y, train_idx, test_idx, scaler):
    # each space is standardised with statistics of ITS OWN training part
    X_train, X_test, Y_train, Y_test = X[train_idx], X[test_idx], Y[train_idx], Y[test_idx]
    scaler.fit(X_train)
    Xs_train = scaler.transform(X_train)
    Xs_test = scaler.transform(X_test)
    scaler.fit(Y_train)
    Ys_train = scaler.transform(Y_train)
    Ys_test = scaler.transform(Y_test)
    return Xs_train, Xs_test, Ys_train, Ys_test


def pointwise_gre(X, Y, train_idx, test_idx, scaler, estimator):
    # residual of predicting the scaled test targets from the scaled test sources
    # with the estimator fitted on the scaled training pair
    Xs_train, Xs_test, Ys_train, Ys_test = scaled_split(X, Y, train_idx, test_idx, scaler)
    estimator.fit(Xs_train, Ys_train)
    return np.linalg.norm(Ys_test - estimator.predict(Xs_test), axis=1)


def pointwise_grd(X, Y, train_idx, test_idx, scaler, estimator):
    # linear prediction vs. the prediction of the best orthogonal map onto the
    # linear prediction of the training set (zero padded to the common width)
    Xs_train, Xs_test, Ys_train, Ys_test = scaled_split(X, Y, train_idx, test_idx, scaler)
    pred_test = estimator.fit(Xs_train, Ys_train).predict(Xs_test)
    ortho = OrthogonalRegression(use_orthogonal_projector=False).fit(Xs_train, estimator.predict(Xs_train)).predict(Xs_test)
    pred_test = np.pad(pred_test, [(0, 0), (0, ortho.shape[1] - Ys_test.shape[1])])
    return np.linalg.norm(pred_test - ortho, axis=1)


def pointwise_lre(X, Y, n_local_points, train_idx, test_idx, scaler, estimator):
    # for every test point: the k nearest TRAINING neighbours (in scaled source
    # space), locally centred fit, prediction re-offset by the local target mean
    Xs_train, Xs_test, Ys_train, Ys_test = scaled_split(X, Y, train_idx, test_idx, scaler)
    sq = np.sum(Xs_train**2, axis=1) + np.sum(Xs_test**2, axis=1)[:, np.newaxis] - 2 * Xs_test @ Xs_train.T

    def one(i):
        nb = np.argsort(sq[i])[:n_local_points]
        xm = np.mean(Xs_train[nb], axis=0)
        ym = np.mean(Ys_train[nb], axis=0)
        estimator.fit(Xs_train[nb] - xm, Ys_train[nb] - ym)
        pred = ym + estimator.predict(Xs_test[i, :][np.newaxis, :] - xm)
        return np.linalg.norm(Ys_test[i, :][np.newaxis, :] - pred)

    return np.array([one(i) for i in range(Xs_test.shape[0])])


def root_mean_square(pointwise):
    return np.linalg.norm(pointwise) / np.sqrt(len(pointwise))


def default_alphas():
    # documented default of the reconstruction measures: relative singular-value cut-offs
    return np.geomspace(1e-9, 0.9, 20)
