"""Reference model of Ridge2FoldCV and OrthogonalRegression (documented
behaviour).  Parsed by the checker, never executed."""
import numpy as np
from scipy.linalg import orthogonal_procrustes


def numerical_rank_cutoff(X):
    return max(X.shape) * np.spacing(X.real.dtype.type(1))


def fold_prediction(X_other, U, s, Vt, y_this, n, alpha, method):
    # regularised least squares fitted on one fold (economy SVD U s Vt of its X,
    # numerical rank n), evaluated on the other fold
    if method == "tikhonov":
        f = s[:n] / (s[:n] ** 2 + alpha)
        return X_other @ Vt.T[:, :n] @ np.diagflat(f) @ (U.T[:n] @ y_this)
    else:
        m = min(n, sum(s > alpha))
        return X_other @ Vt.T[:, :m] @ np.diagflat(1 / s[:m]) @ (U.T[:m] @ y_this)


def two_fold_cv_values(X, y, idx1, idx2, alphas, alpha_type, method, score_fn):
    X1, X2, y1, y2 = X[idx1], X[idx2], y[idx1], y[idx2]
    U1, s1, Vt1 = np.linalg.svd(X1, full_matrices=False)
    U2, s2, Vt2 = np.linalg.svd(X2, full_matrices=False)
    rcond = numerical_rank_cutoff(X)
    n1 = sum(s1 > rcond)
    n2 = sum(s2 > rcond)
    scaled = np.copy(alphas)
    if alpha_type == "relative":
        scaled = scaled * max(np.max(s1), np.max(s2))
    values = [
        (
            score_fn(y_true=y2, y_pred=fold_prediction(X2, U1, s1, Vt1, y1, n1, alpha, method))
            + score_fn(y_true=y1, y_pred=fold_prediction(X1, U2, s2, Vt2, y2, n2, alpha, method))
        )
        / 2
        for alpha in scaled
    ]
    return values, scaled


def final_coefficients(X, y, alpha, method):
    # regularised solution on the full data, directions below the numerical rank excluded
    U, s, Vt = np.linalg.svd(X, full_matrices=False)
    n = sum(s > numerical_rank_cutoff(X))
    if method == "tikhonov":
        f = s[:n] / (s[:n] ** 2 + alpha)
        return (Vt.T[:, :n] @ np.diagflat(f) @ (U.T[:n] @ y)).T
    else:
        m = min(n, sum(s > alpha))
        return (Vt.T[:, :m] @ np.diagflat(1 / s[:m]) @ (U.T[:m] @ y)).T


def select_alpha(alphas, scaled, values):
    best = np.argmax(values)
    return alphas[best], scaled[best], np.max(values)


# ---- OrthogonalRegression ---------------------------------------------------------------
def orthogonal_projector_coef(X, y, linear_coef):
    # rotate between the reduced spaces spanned by the linear fit: coef = (U Omega Vt)^T,
    # Omega = procrustes(X U, y Vt^T)
    U, _, Vt = np.linalg.svd(linear_coef, full_matrices=False)
    omega = orthogonal_procrustes(X @ U, y @ Vt.T)[0]
    return (U @ omega @ Vt).T


def padded_coef(X, y, width):
    Xp = np.pad(X, [(0, 0), (0, width - X.shape[1])])
    yp = np.pad(y, [(0, 0), (0, width - y.shape[1])])
    return orthogonal_procrustes(Xp, yp)[0].T


def padded_predict(X, coef, width):
    Xp = np.pad(X, [(0, 0), (0, width - X.shape[1])])
    return Xp @ coef.T
