"""Reference model of the prediction rigidities (closed forms).  Parsed, never executed."""
import numpy as np


def preamble(X_train, alpha):
    # global scale, per-structure mean features, regularised covariance, its pseudo-inverse
    X_atom = np.vstack(X_train)
    sfactor = np.sqrt(np.mean(X_atom**2, axis=0).sum())
    X_struc = []
    for X_i in X_train:
        X_struc.append(np.mean(X_i / sfactor, axis=0))
    X_struc = np.vstack(X_struc)
    A = X_struc.T @ X_struc + alpha * np.eye(X_struc.shape[1])
    rank_diff = X_struc.shape[1] - np.linalg.matrix_rank(A)
    return sfactor, np.linalg.pinv(A), rank_diff


def split_points(X_test):
    lens = []
    for X in X_test:
        lens.append(len(X))
    return np.cumsum([0] + lens)


def lpr(X_train, X_test, alpha):
    sfactor, Ainv, rank_diff = preamble(X_train, alpha)
    cuts = split_points(X_test)
    n_struct = len(X_test)
    X_all = np.vstack(X_test)
    out = np.zeros(X_all.shape[0])
    for a in range(X_all.shape[0]):
        x = X_all[a].reshape(1, -1) / sfactor
        out[a] = 1 / (x @ Ainv @ x.T)
    res = []
    for i in range(n_struct):
        res.append(out[cuts[i] : cuts[i + 1]])
    return res, rank_diff


def cpr(X_train, X_test, alpha, comp_dims):
    sfactor, Ainv, rank_diff = preamble(X_train, alpha)
    cuts = split_points(X_test)
    X_struc_test = []
    for X_i in X_test:
        X_struc_test.append(np.mean(X_i / sfactor, axis=0))
    X_struc_test = np.vstack(X_struc_test)
    n_struct = len(X_test)
    n_comp = len(comp_dims)
    comp_cuts = np.cumsum([0] + comp_dims.tolist())
    X_all = np.vstack(X_test)
    CPR = np.zeros((n_struct, n_comp))
    LCPR_all = np.zeros((X_all.shape[0], n_comp))
    for c in range(n_comp):
        pos = np.arange(comp_dims.sum())
        mask = ((pos >= comp_cuts[c]) & (pos < comp_cuts[c + 1])).astype(float)
        for a in range(X_all.shape[0]):
            x = (X_all[a].reshape(1, -1) / sfactor) * mask
            LCPR_all[a, c] = 1 / (x @ Ainv @ x.T)
        for s in range(len(X_struc_test)):
            xs = X_struc_test[s].reshape(1, -1) * mask
            CPR[s, c] = 1 / (xs @ Ainv @ xs.T)
    LCPR = []
    for i in range(n_struct):
        LCPR.append(LCPR_all[cuts[i] : cuts[i + 1]])
    return CPR, LCPR, rank_diff
