"""Reference model of the greedy selectors (documented behaviour written in the
simplest numpy form).  Parsed by the checker, never executed.  ``axis`` is the
selection axis: 1 = features (columns), 0 = samples (rows)."""
import numpy as np
import scipy
from scipy.linalg import eigh
from scipy.sparse.linalg import eigsh
from skmatter.utils import pcovr_covariance, pcovr_kernel


# ---- farthest point sampling ------------------------------------------------
def fps_norms(X, axis):
    # squared Euclidean norm of every candidate
    if axis == 1:
        return (X**2).sum(axis=0)
    else:
        return (X**2).sum(axis=1)


def fps_update(X, norms, hausdorff, hausdorff_at_select, last, axis):
    # the distance at which `last` was selected is recorded BEFORE the table is
    # updated; then d(j, last) = |x_j|^2 + |x_last|^2 - 2 <x_j, x_last> and the
    # running minimum is taken
    hausdorff_at_select[last] = hausdorff[last]
    if axis == 1:
        d = norms + norms[last] - 2 * (X[:, last] @ X)
    else:
        d = norms + norms[last] - 2 * (X[last] @ X.T)
    return hausdorff_at_select, np.minimum(hausdorff, d)


def voronoi_first_table(X, norms, first, full_fraction):
    # the table after the initial pick: every sample is active (nothing selected before), so the
    # table holds the distance of every sample to the pick, on either side of the switching point
    # (the pruned side sets the pick's own entry to an exact zero)
    d = norms + norms[first] - 2 * (X[first] @ X.T)
    if X.shape[0] / X.shape[0] > full_fraction:
        new = d
    else:
        new = d.copy()
        new[first] = 0
    return np.minimum(np.full(X.shape[0], np.inf), new)


def pcov_fps_update(M, norms, hausdorff, hausdorff_at_select, last, axis):
    # same with the PCovR-modified covariance (features) / Gram matrix (samples) M
    hausdorff_at_select[last] = hausdorff[last]
    if axis == 1:
        d = norms + norms[last] - 2 * M[:, last]
    else:
        d = norms + norms[last] - 2 * M[last]
    return hausdorff_at_select, np.minimum(hausdorff, d)


# ---- GreedySelector bookkeeping -----------------------------------------------
def resolve_n_to_select(n_to_select, n_candidates, kind):
    # None -> half of the candidates, int -> as is, float -> fraction
    if kind == "none":
        return n_candidates // 2
    elif kind == "int":
        return n_to_select
    else:
        return int(n_candidates * n_to_select)


def init_buffers(X, y, n, axis, with_y):
    # zero result buffers with the selection axis of extent n
    if axis == 1:
        X_selected = np.zeros((X.shape[0], n), float)
    else:
        X_selected = np.zeros((n, X.shape[1]), float)
    selected_idx = np.zeros(n, int)
    if with_y:
        y_selected = np.zeros((n, y.shape[1]), float)
        return X_selected, selected_idx, y_selected
    return X_selected, selected_idx


def record_selection(X, y, X_selected, y_selected, selected_idx, n_selected, last, axis, with_y):
    # slot n_selected of every result buffer receives the data of `last`;
    # the counter is advanced afterwards
    if axis == 1:
        X_selected[:, n_selected] = X[:, last]
    else:
        X_selected[n_selected] = X[last]
        if with_y:
            y_selected[n_selected] = y[last]
    selected_idx[n_selected] = last
    return X_selected, y_selected, selected_idx, n_selected + 1


def prefix_init(X, y, first, second, n, axis, with_y):
    # a search initialised with the picks (first, second) has recorded them exactly as two
    # selection steps would: data, targets, indices and the counter
    if with_y:
        X_selected, selected_idx, y_selected = init_buffers(X, y, n, axis, with_y)
    else:
        X_selected, selected_idx = init_buffers(X, y, n, axis, with_y)
        y_selected = None
    X_selected, y_selected, selected_idx, k = record_selection(X, y, X_selected, y_selected, selected_idx, 0, first, axis, with_y)
    return record_selection(X, y, X_selected, y_selected, selected_idx, k, second, axis, with_y)


def continue_buffers(X_selected, y_selected, selected_idx, n_selected, n, axis, with_y):
    # warm start: extend every buffer to extent n on the selection axis, keeping the prefix
    if axis == 1:
        X_selected = np.pad(X_selected, [(0, 0), (0, n - n_selected)])
    else:
        X_selected = np.pad(X_selected, [(0, n - n_selected), (0, 0)])
    if with_y:
        if axis == 1:
            y_selected = np.pad(y_selected, [(0, 0), (0, n - n_selected)])
        else:
            y_selected = np.pad(y_selected, [(0, n - n_selected), (0, 0)])
    new_idx = np.zeros(n, int)
    new_idx[:n_selected] = selected_idx
    return X_selected, y_selected, new_idx


def best_new_selection(scores, selected_idx, n_selected, threshold, threshold_type, first_score):
    # candidates already selected are excluded; the best remaining candidate is
    # returned unless its (absolute / relative-to-first) score is below the threshold
    scores = np.array(scores, dtype=float)
    scores[selected_idx[:n_selected]] = -np.inf
    best = np.argmax(scores)
    if threshold is not None:
        if first_score is None:
            first_score = scores[best]
        if threshold_type == "absolute":
            if scores[best] < threshold:
                return None
        if threshold_type == "relative":
            if scores[best] / first_score < threshold:
                return None
    return best


def support_mask(X, selected_idx, axis):
    mask = np.full(X.shape[axis], False)
    mask[selected_idx] = True
    return mask


# ---- CUR / PCov-CUR ----------------------------------------------------------------
def cur_pi(X, k, axis, random_state):
    # leverage score: sum over the top-k singular vectors of the squared entries;
    # left vectors score samples (rows), right vectors score features (columns)
    if axis == 0:
        U, _, _ = scipy.sparse.linalg.svds(X, k=k, return_singular_vectors="u", random_state=random_state)
        return (U[:, :k] ** 2.0).sum(axis=1)
    else:
        _, _, Vt = scipy.sparse.linalg.svds(X, k=k, return_singular_vectors="vh", random_state=random_state)
        return (Vt**2.0).sum(axis=0)


def pcov_cur_pi(X, y, mixing, k, axis, small):
    # top-k eigenvectors (descending eigenvalue) of the PCovR-modified Gram matrix
    # (samples) / covariance (features) of the residuals
    if axis == 0:
        M = pcovr_kernel(mixing, X, y)
    else:
        M = pcovr_covariance(mixing, X, y, rcond=1e-12, rank=None)
    if small:
        v, U = eigsh(M, k=k, tol=1e-12)
    else:
        v, U = eigh(M)
    U = U[:, np.flip(np.argsort(v))]
    return (U[:, :k] ** 2.0).sum(axis=1)


def project_out_column(x, j):
    # x - c_hat c_hat^T x  with c_hat the normalised column j
    c = x[:, [j]]
    c = c / np.linalg.norm(c, axis=0)
    return x - c @ (c.T @ x)


def cur_orthogonalize(X_current, last, axis):
    # the residual loses the span of the selected column (features) / row (samples)
    if axis == 1:
        return project_out_column(X_current, last)
    else:
        return project_out_column(X_current.T, last).T


def y_feature_residual(y, X_selected, tol):
    # y minus its least-squares fit on the selected columns
    return y - X_selected @ np.linalg.pinv(X_selected.T @ X_selected, rcond=tol) @ X_selected.T @ y


def y_sample_residual(y_all, X_all, y_selected, X_selected, n_selected, tol):
    # y minus the prediction of the least-squares model fitted on the selected samples only
    W = np.linalg.lstsq(X_selected[:n_selected], y_selected[:n_selected], rcond=tol)[0]
    return y_all - X_all @ W


def cur_step(X_current, y_current, pi, n_selected_after, last, recompute_every):
    # after a selection was recorded: orthogonalise (unless recompute_every == 0),
    # refresh the scores every `recompute_every` selections, exclude the pick
    if recompute_every != 0:
        X_current, y_current = orthogonalize(X_current, y_current, last)
        if n_selected_after % recompute_every == 0:
            pi = compute_pi(X_current, y_current)
    pi[last] = 0.0
    return X_current, y_current, pi


def cur_warm(X_current, y_current, pi, recompute_every):
    # warm start: scores are refreshed unless they are never refreshed
    if recompute_every != 0:
        pi = compute_pi(X_current, y_current)
    return pi


def cur_warm_residual(X_current, y_current, selected_idx, axis, tolerance):
    # warm start: every previously selected item whose residual (the item itself, taken along
    # the selection axis) is still above the tolerance is projected out again
    for c in selected_idx:
        if np.linalg.norm(np.take(X_current, [c], axis=axis)) > tolerance:
            X_current, y_current = orthogonalize(X_current, y_current, c)
    return X_current, y_current


def compute_pi(X_current, y_current):
    """uninterpreted in the cadence obligations (the checker substitutes the same
    symbol for this function and for the class's _compute_pi)"""


def orthogonalize(X_current, y_current, last):
    """uninterpreted in the cadence obligations"""


# ---- Voronoi FPS ---------------------------------------------------------------------
def voronoi_active(X, norms, hausdorff, X_selected, selected_idx, n_selected, vlocation, dSL, last):
    # a point x with Voronoi centre c can only get closer to the new point `last`
    # if d(c, last) < 4 d(x, c)  (triangle inequality), i.e. 1/4 d(c,last) < hausdorff[x]
    dSL[:n_selected] = (norms[selected_idx[:n_selected]] + norms[last] - 2 * (X_selected[:n_selected] @ X[last])) * 0.25
    return dSL, np.where(dSL[vlocation] < hausdorff)[0]


def voronoi_update_active_only(X, norms, hausdorff, hausdorff_at_select, vlocation, active, n_selected, last, full_fraction):
    # equivalent spelling of voronoi_update: on the pruned arm only the recomputed (active) entries and the new
    # centre can be lowered, so only those are compared and written
    hausdorff_at_select[last] = hausdorff[last]
    if len(active) / X.shape[0] > full_fraction:
        new_dist = norms + norms[last] - 2 * (X[last] @ X.T)
        updated = np.where(new_dist < hausdorff)[0]
        hausdorff = np.minimum(hausdorff, new_dist)
    else:
        new_dist = hausdorff.copy()
        new_dist[active] = norms[active] + norms[last] - 2 * (X[last] @ X[active].T)
        new_dist[last] = 0
        recomputed = new_dist[active]
        closer = recomputed < hausdorff[active]
        updated = active[closer]
        hausdorff[updated] = recomputed[closer]
        hausdorff[last] = np.minimum(hausdorff[last], new_dist[last])
    if len(updated) > 0:
        vlocation[updated] = n_selected
    vlocation[last] = n_selected
    return hausdorff_at_select, hausdorff, vlocation


def voronoi_update(X, norms, hausdorff, hausdorff_at_select, vlocation, active, n_selected, last, full_fraction):
    # record the selection distance, compute distances to `last` either for all
    # points or only for the active ones (all others keep their current minimum),
    # take the running minimum and move the updated points to the new cell
    hausdorff_at_select[last] = hausdorff[last]
    if len(active) / X.shape[0] > full_fraction:
        new_dist = norms + norms[last] - 2 * (X[last] @ X.T)
    else:
        new_dist = hausdorff.copy()
        new_dist[active] = norms[active] + norms[last] - 2 * (X[last] @ X[active].T)
        new_dist[last] = 0
    updated = np.where(new_dist < hausdorff)[0]
    hausdorff = np.minimum(hausdorff, new_dist)
    if len(updated) > 0:
        vlocation[updated] = n_selected
    vlocation[last] = n_selected
    return hausdorff_at_select, hausdorff, vlocation


def voronoi_first_table_active_only(X, norms, first, full_fraction):
    # the first step written with the active-only update: every sample is active
    n = X.shape[0]
    return voronoi_update_active_only(X, norms, np.full(n, np.inf), np.full(n, np.inf), np.full(n, 1), np.arange(n), 0, first, full_fraction)[1]
