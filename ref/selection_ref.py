"""Reference model of the greedy selectors (documented behaviour written in the
simplest numpy form).  Parsed by the checker, never executed.  ``axis`` is the
selection axis: 1 = features (columns), 0 = samples (rows)."""
import numpy as np


# ---- farthest point sampling ------------------------------------------------
def fps_norms(X, axis):
    # squared Euclidean norm of every candidate
    if axis == 1:
        return (X**2).sum(axis=0)
    else:
        return (X**2).sum(axis=1)


def fps_update(X, norms, hausdorff, hausdorff_at_select, last, axis):
    # the distance at which `last` was selected is recorded BEFORE the table is
    # updated; then d(j, last) = |x_j|^2 + |x_last|^2 - 2 <x_j, x_last> and the
    # running minimum is taken
    hausdorff_at_select[last] = hausdorff[last]
    if axis == 1:
        d = norms + norms[last] - 2 * (X[:, last] @ X)
    else:
        d = norms + norms[last] - 2 * (X[last] @ X.T)
    return hausdorff_at_select, np.minimum(hausdorff, d)


def pcov_fps_update(M, norms, hausdorff, hausdorff_at_select, last, axis):
    # same with the PCovR-modified covariance (features) / Gram matrix (samples) M
    hausdorff_at_select[last] = hausdorff[last]
    if axis == 1:
        d = norms + norms[last] - 2 * M[:, last]
    else:
        d = norms + norms[last] - 2 * M[last]
    return hausdorff_at_select, np.minimum(hausdorff, d)
