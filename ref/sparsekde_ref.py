"""Reference model of SparseKDE (documented / intended formulas).  Parsed, never executed."""
import numpy as np
from scipy.special import logsumexp as LSE
from skmatter.metrics._pairwise import pairwise_mahalanobis_distances


def minimum_image(d, cell):
    return d - np.round(d / cell) * cell


def local_population(cell, grid_j, grid_i, weight_j, sigma_squared):
    # Gaussian localisation weights of all grid points around grid_i and their sum
    d = grid_j - grid_i
    if cell is not None:
        d = minimum_image(d, cell)
    wl = np.exp(-0.5 / sigma_squared * np.sum(d**2, axis=1)) * weight_j
    return wl, np.sum(wl)


def covariance(X, w, cell):
    # weighted covariance about the weighted mean (circular mean on a periodic cell:
    # angles x 2 pi / cell, mean direction converted back to a length), with the
    # 1 - sum(p^2) finite-sample correction
    p = w / np.sum(w)
    if cell is None:
        xm = np.average(X, axis=0, weights=p)
    else:
        s = np.average(np.sin(X * (2 * np.pi) / cell), axis=0, weights=p)
        c = np.average(np.cos(X * (2 * np.pi) / cell), axis=0, weights=p)
        xm = np.arctan2(s, c) * cell / (2 * np.pi)
    d = X - xm
    if cell is not None:
        d = minimum_image(d, cell)
    cov = (d * p.reshape(-1, 1)).T.dot(d)
    return cov / (1 - sum(p**2))


def assign(metric, grid, descriptors, weights):
    # every descriptor goes to its nearest grid point; counts, weights and member
    # lists are accumulated under that same label
    ngrid = len(grid)
    npoints = np.zeros(ngrid, dtype=int)
    gweight = np.zeros(ngrid, dtype=float)
    members = {i: [] for i in range(ngrid)}
    labels = []
    for i, point in enumerate(descriptors):
        labels.append(np.argmin(metric(point.reshape(1, -1), grid)))
        npoints[labels[-1]] += 1
        gweight[labels[-1]] += weights[i]
        members[labels[-1]].append(i)
    return labels, npoints, gweight, members


def bandwidth_from_localization(X, wlocal, flocal_i, nsamples, cell, cov_fn, effdim_fn, oas_fn):
    cov = cov_fn(X, wlocal, cell)
    nlocal = flocal_i * nsamples
    dim = effdim_fn(cov)
    cov = oas_fn(cov, nlocal, X.shape[1])
    h = (4.0 / nlocal / (dim + 2.0)) ** (2.0 / (dim + 4.0)) * cov
    return h, cov


def effdim(cov):
    ev = np.linalg.eigvals(cov)
    ev[ev < 0.0] = 0.0
    ev /= sum(ev)
    ev *= np.log(ev)
    return np.exp(-sum(ev))


def oas(cov, n, D):
    tr = np.trace(cov)
    phi = ((1 - 2 / D) * np.trace(cov**2) + tr**2) / ((n + 1 - 2 / D) * np.trace(cov**2) - tr**2 / D)
    return (1 - phi) * cov + phi * np.eye(D) * tr / D


def log_density(X, grids, grid_weights, descriptors, weights, members, bandwidth_inv, normkernels, cell, kdecut2):
    # log of the mixture: grid-level Gaussian for cells farther than the cut-off in
    # Mahalanobis distance, descriptor-level Gaussians of that cell's bandwidth otherwise
    prob = np.full(len(X), -np.inf)
    d2_all = pairwise_mahalanobis_distances(X, grids, bandwidth_inv, cell, squared=True)
    for i in range(len(X)):
        for j, d2 in enumerate(np.diagonal(d2_all[:, i, :])):
            if d2 > kdecut2:
                lnk = -0.5 * (normkernels[j] + d2) + np.log(grid_weights[j])
                prob[i] = LSE([prob[i], lnk])
            else:
                nb = members[j][np.any(descriptors[members[j]] != X[i], axis=1)]
                if nb.size == 0:
                    continue
                d2s = pairwise_mahalanobis_distances(descriptors[nb], X[i][np.newaxis, ...], bandwidth_inv[j], cell, squared=True).reshape(-1)
                lnks = -0.5 * (normkernels[j] + d2s) + np.log(weights[nb])
                prob[i] = LSE(np.concatenate([[prob[i]], lnks]))
    prob -= np.log(np.sum(grid_weights))
    return prob


# ---- localisation -------------------------------------------------------------------------------
def population(cell, grid, centre, weights, sigma2):
    """uninterpreted in the localisation obligations (the checker substitutes the same symbol
    for this function and for the module's _local_population)"""


def norm_kernels(bandwidth, ndim):
    # log normalisation of each Gaussian: D log(2 pi) + log det H_j
    return np.array([ndim * np.log(2 * np.pi) + np.linalg.slogdet(h)[1] for h in bandwidth])


def nearest_other_grid_distance(dist):
    # distance of every grid point to its nearest OTHER grid point
    np.fill_diagonal(dist, np.inf)
    return np.min(dist, axis=1)


def tune_by_spread(cell, grid, weights, sigma2, flocal, idx, mindist):
    # homogeneous spatial extent: localise at the distance to the nearest other grid point
    sigma2[idx] = mindist[idx]
    wlocal, flocal[idx] = population(cell, grid, grid[idx], weights, sigma2[idx])
    return sigma2, flocal, wlocal


def tune_by_points(cell, grid, weights, sigma2, flocal, idx, delta, tune, fpoints):
    # similar populations: widen in steps of `tune` until the local population reaches the
    # target fraction, then bisect (step tune / 2^j) until it is within delta of it; a target
    # not above the grid point's own weight is raised to that weight + delta
    lim = fpoints
    if lim <= weights[idx]:
        lim = weights[idx] + delta
    while flocal[idx] < lim:
        sigma2[idx] += tune
        wlocal, flocal[idx] = population(cell, grid, grid[idx], weights, sigma2[idx])
    j = 1
    while True:
        if flocal[idx] > lim:
            sigma2[idx] -= tune / 2**j
        else:
            sigma2[idx] += tune / 2**j
        wlocal, flocal[idx] = population(cell, grid, grid[idx], weights, sigma2[idx])
        if abs(flocal[idx] - lim) < delta:
            break
        j += 1
    return sigma2, flocal, wlocal


# ---- equivalent spelling (confirmed by hand) -----------------------------------------------------------------
def tune_by_points_halving(cell, grid, weights, sigma2, flocal, idx, delta, tune, fpoints):
    # the bisection with a running half-step (tune/2, tune/4, ...: halving is exact) and the exit test as the loop
    # condition; the body runs at least once, like `while True ... break`
    lim = fpoints
    if lim <= weights[idx]:
        lim = weights[idx] + delta
    while flocal[idx] < lim:
        sigma2[idx] += tune
        wlocal, flocal[idx] = population(cell, grid, grid[idx], weights, sigma2[idx])
    step = tune
    converged = False
    while not converged:
        step = step / 2
        if flocal[idx] > lim:
            sigma2[idx] -= step
        else:
            sigma2[idx] += step
        wlocal, flocal[idx] = population(cell, grid, grid[idx], weights, sigma2[idx])
        converged = abs(flocal[idx] - lim) < delta
    return sigma2, flocal, wlocal
