"""Library table part 2: numpy / scipy / sklearn functions, array attributes and
methods, external objects."""
from __future__ import annotations

import ast
import re

from . import apitable as A
from .api_numpy import (
    _L,
    axis_of,
    axis_term,
    bind,
    callterm,
    dim_of,
    dims_from_shape_arg,
    fresh_arr,
    kwterms,
    reduce_shape,
    shape_arg_terms,
    shape_terms,
)
from .terms import FRESH, Dim, T, Term, V, const, fresh_id, sym, unk, varr, vbool, vconst, vfloat, vint, vunk

NP = {}


def reg(*names):
    def deco(f):
        for n in names:
            NP[n] = f
        return f

    return deco


def arrv(v):
    if v is None:
        return None
    if v.kind == "maybe":
        v = v.items[0] if v.items else V("unk", v.term, labels=v.labels, orig=v.orig)
    if v.kind in ("arr",):
        return v
    if v.kind in ("list", "tuple", "int", "float", "bool"):
        return A.as_arr(v)
    return v


def shape(v):
    return A.shape_of(v) if v is not None else None


# -- constructors -----------------------------------------------------------


def dtype_base(t):
    """the array whose dtype a value has when it is obtained by dtype-preserving operations only
    (selections, transposes, reshapes, copies, stacking of one list)"""
    while isinstance(t, Term):
        if t.op in ("getitem", "T", "reshape1", "reshape", "copy", "astype_dyn", "bcast") and t.args and isinstance(t.args[0], Term):
            t = t.args[0]
        elif t.op == "stack" and len(t.args) == 2 and isinstance(t.args[1], Term):
            t = t.args[1]
        elif t.op == "dtype" and t.args and isinstance(t.args[0], Term):
            t = t.args[0]
        else:
            break
    return t


def _dyn_cast(interp, name, x, dtv, st, node):
    """np.asarray(v, dtype=A.dtype) / np.array(v, dtype=A.dtype) with A the caller's raw array: v is converted to
    whatever A happens to hold - an integer A truncates a non-integer v.  Returns the cast value or None."""
    if dtv is None:
        return None
    tag = _dtype_tag(dtv)
    if not (isinstance(tag, tuple) and tag and tag[0] == "dtype"):
        return None
    db_, xb_ = dtype_base(tag[1]), dtype_base(x.term)
    if db_ == xb_:
        return None  # the value's own dtype
    interp.event("shape-conflict", node, st, what="precision-loss: a value is converted to the dtype of the caller's raw array (an integer array truncates it)", a=name, b=repr(tag[1])[:60])
    return fresh_arr(T("cast", x.term, tag[1]), shape(x), x.labels, None)


def _is_input_selection(t):
    """(a selection / reshaping of) a symbolic caller array"""
    from . import terms as _terms

    b = dtype_base(t)
    return isinstance(b, Term) and b.op == "sym" and b.args and b.args[0] in _terms.INPUT_SYMS


def _index_like(x):
    """integer-valued by construction (index vectors, counts): a cast to int keeps the values"""
    t = x.term
    return isinstance(t, Term) and t.op in ("arange", "nonzero1", "argsort", "argmax", "argmin", "unique", "setdiff1d", "where", "cumsum", "block_labels", "count", "rng")


def _dtype_tag(dt, fill=None):
    if dt is not None and dt.kind != "none":
        t = dt.term
        s = repr(t)
        if "bool" in s:
            return "bool"
        if "int" in s:
            return "int"
        if re.search(r"float16|float32|half|single|'f[24]'|'<f[24]'", s):
            return "float32"  # a reduced-precision buffer inside a double-precision computation
        if "float" in s:
            return None
        # a dtype taken from caller data (e.g. X.dtype) is kept symbolically: the value may be
        # truncated; the dtype of one of the estimator's own float buffers is the default
        if any(isinstance(o_, tuple) and o_ and o_[0] in ("in", "optin") for o_ in (dt.orig or ())):
            return ("dtype", t)
        from . import terms as _terms

        if isinstance(t, Term) and t.op == "dtype" and isinstance(dtype_base(t), Term) and dtype_base(t).op == "sym" and dtype_base(t).args[0] in _terms.INPUT_SYMS:
            return ("dtype", t)  # the dtype of (a selection / stacking of) symbolic caller data
        return None
    if fill is not None and fill.has_const:
        if isinstance(fill.const, bool):
            return "bool"
        if isinstance(fill.const, int):
            return "int"
    return None


@reg("numpy.zeros", "numpy.ones", "numpy.empty")
def np_zeros(interp, name, args, kw, st, node):
    b = bind(["shape", "dtype"], args, kw)
    dims = dims_from_shape_arg(b["shape"])
    tag = _dtype_tag(b.get("dtype"))
    if tag == "float32":
        interp.event("shape-conflict", node, st, what="precision-loss: reduced-precision buffer", a=name, b="float32")
    base = name.rsplit(".", 1)[1]
    if base == "empty":
        base = "zeros"
    term = T(base, *shape_terms(dims, shape_arg_terms(b["shape"]))) if dims is not None else T(base, b["shape"].term)
    dyn = None
    if tag:
        # (a block of zeros is a block of zeros in every dtype: only what is stored into it later can be truncated)
        term = T("astype", term, tag) if isinstance(tag, str) else (term if base == "zeros" else T("astype_dyn", term, tag[1]))
        if not isinstance(tag, str):
            dyn = ("dyn", tag[1])  # the buffer has the dtype of caller data: what is stored into it may be truncated
            tag = None
    r = fresh_arr(term, dims, frozenset(), tag)
    if dyn is not None:
        r.extra = dyn
    return r


@reg("numpy.full")
def np_full(interp, name, args, kw, st, node):
    b = bind(["shape", "fill_value", "dtype"], args, kw)
    dims = dims_from_shape_arg(b["shape"])
    fill = b["fill_value"]
    tag = _dtype_tag(b.get("dtype"), fill)
    if not isinstance(tag, str):
        tag = None
    term = T("full", fill.term, *shape_terms(dims, shape_arg_terms(b["shape"]))) if dims is not None else T("full", fill.term, b["shape"].term)
    return fresh_arr(term, dims, _L(fill), tag)


@reg("numpy.zeros_like", "numpy.ones_like", "numpy.empty_like", "numpy.full_like")
def np_like(interp, name, args, kw, st, node):
    base = name.rsplit(".", 1)[1][:-5]
    b = bind(["a", "fill_value", "dtype"] if base == "full" else ["a", "dtype"], args, kw)
    a_ = b["a"]
    sh = A.shape_of(a_) if a_.kind == "arr" else None
    if sh is None or any(not d.known() for d in sh):
        return fresh_arr(callterm(base + "_like", args, kw), sh, _L(*args))
    dims = tuple(A.dim_term(d) for d in sh)
    fill = b.get("fill_value")
    tag = _dtype_tag(b.get("dtype"), fill) if b.get("dtype") is not None and b["dtype"].kind != "none" else (a_.extra if isinstance(a_.extra, str) else None)
    if base == "empty":
        base = "zeros"
    term = T("full", fill.term, *dims) if base == "full" else T(base, *dims)
    if isinstance(tag, str):
        term = T("astype", term, tag)
    else:
        tag = None
    r = fresh_arr(term, sh, _L(fill) if fill is not None else frozenset(), tag)
    if (b.get("dtype") is None or b["dtype"].kind == "none") and isinstance(a_.extra, tuple) and a_.extra and a_.extra[0] == "dyn":
        # *_like of a buffer that has the dtype of caller data has that dtype too
        r.extra = a_.extra
        r.term = T("astype_dyn", term, a_.extra[1])
    return r


@reg("numpy.eye", "numpy.identity")
def np_eye(interp, name, args, kw, st, node):
    b = bind(["N", "M", "k", "dtype"] if name.endswith("eye") else ["n", "dtype"], args, kw)
    nv = b.get("N") or b.get("n")
    rest = {k: v for k, v in b.items() if k in ("M", "k") and v is not None and v.kind != "none" and not (k == "k" and v.has_const and v.const == 0)}
    if nv is None or rest:
        return fresh_arr(callterm(name, args, kw), None, _L(*args, *kw.values()))
    for k_ in ("N", "n", "M", "k", "dtype"):
        kw.pop(k_, None)
    d = dim_of(nv)
    if d is None:
        return fresh_arr(T("eye", nv.term), (Dim.unknown("eye"),) * 2, _L(nv))
    return fresh_arr(T("eye", A.dim_term(d)), (d, d), _L(nv))


@reg("numpy.arange")
def np_arange(interp, name, args, kw, st, node):
    if len(args) == 1:
        d = dim_of(args[0])
        if d is not None:
            return fresh_arr(T("arange", A.dim_term(d)), (d,), _L(*args), "int")
    ds = [dim_of(a) for a in args[:2]]
    if len(args) == 2 and all(x is not None for x in ds):
        return fresh_arr(T("arange", A.dim_term(ds[0]), A.dim_term(ds[1])), (ds[1] - ds[0],), _L(*args), "int")
    return fresh_arr(callterm("arange", args, kw), (Dim.unknown("arange"),), _L(*args), "int")


@reg("numpy.geomspace", "numpy.linspace", "numpy.logspace")
def np_geomspace(interp, name, args, kw, st, node):
    b = bind(["start", "stop", "num"], args, kw)
    n = dim_of(b["num"]) if b["num"] is not None else Dim(50)
    return fresh_arr(callterm(name.rsplit(".", 1)[1], args, kw), (n if n is not None else Dim.unknown("num"),), _L(*args))


@reg("numpy.array", "numpy.copy")
def np_array(interp, name, args, kw, st, node):
    x = arrv(args[0])
    dtv_ = kw.get("dtype") if "dtype" in kw else (args[1] if len(args) > 1 and name == "numpy.array" else None)
    dc_ = _dyn_cast(interp, name, x, dtv_, st, node)
    if dc_ is not None:
        return dc_
    tag = _dtype_tag(dtv_)
    if not isinstance(tag, str):
        tag = None
    if tag == "float32":
        interp.event("shape-conflict", node, st, what="precision-loss: conversion to reduced precision", a=name, b="float32")
        return fresh_arr(T("cast", x.term, tag), shape(x), x.labels, tag)
    if name == "numpy.array" and tag is None and args[0].kind == "list" and args[0].items is not None and len(args[0].items) == 0:
        # np.array([]) is an empty *float64* array: usable as a value, not as an index
        return fresh_arr(T("list"), (Dim(0),), frozenset(), "float-empty")
    sh = shape(x)
    interp.event("copy", node, st, source=x)
    if x.kind in ("arr", "int", "float", "bool"):
        return V("arr", x.term, shape=sh, orig=frozenset([FRESH]), labels=x.labels, loc=fresh_id(), extra=tag or (x.extra if isinstance(x.extra, str) else None), dim=x.dim)
    return V("arr", x.term, shape=sh, orig=frozenset([FRESH]), labels=x.labels, loc=fresh_id(), extra=tag)


@reg("numpy.squeeze")
def np_squeeze(interp, name, args, kw, st, node):
    b = bind(["a", "axis"], args, kw)
    x = arrv(b["a"])
    sh = shape(x)
    ax = b.get("axis")
    if sh is None:
        return fresh_arr(T("squeeze", x.term), None, x.labels)
    if ax is not None and ax.kind != "none":
        if not (ax.has_const and isinstance(ax.const, int)):
            return fresh_arr(T("squeeze", x.term, ax.term), None, x.labels)
        k = ax.const % len(sh) if sh else 0
        drop = [k]
    else:
        # axes of extent exactly 1 (an axis of symbolic extent is kept: the generic case)
        drop = [i for i, d in enumerate(sh) if d.is_const() and d.c == 1]
        if any(not d.is_const() for d in sh) and len(sh) >= 2:
            # the rank of the result depends on the data: an axis of extent n disappears too when n == 1
            interp.event("shape-conflict", node, st, what="squeeze() without axis on an array with a data-dependent extent (also drops that axis when it is 1)", a=tuple(sh), b="rank depends on the data")
    if not drop:
        return x
    nsh = tuple(d for i, d in enumerate(sh) if i not in drop)
    return V("arr", T("reshape1", x.term, *shape_terms(nsh)), shape=nsh, orig=x.orig, labels=x.labels, loc=x.loc, extra=x.extra if isinstance(x.extra, str) else None)


@reg("numpy.asarray", "numpy.asarray_chkfinite", "numpy.asanyarray", "numpy.ascontiguousarray", "numpy.real", "numpy.atleast_1d", "sklearn.utils.validation.as_float_array", "sklearn.utils.as_float_array", "numpy.asfortranarray")
def np_asarray(interp, name, args, kw, st, node):
    x = arrv(args[0])
    dtv = kw.get("dtype") if "dtype" in kw else (args[1] if len(args) > 1 and name in ("numpy.asarray", "numpy.asanyarray", "numpy.ascontiguousarray", "numpy.asfortranarray") else None)
    dc_ = _dyn_cast(interp, name, x, dtv, st, node)
    if dc_ is not None:
        return dc_
    tg = _dtype_tag(dtv) if dtv is not None else None
    if tg == "float32":
        interp.event("shape-conflict", node, st, what="precision-loss: conversion to reduced precision", a=name, b="float32")
        return fresh_arr(T("cast", x.term, tg), shape(x), x.labels, tg)
    if x.kind == "arr":
        if dtv is not None and dtv.kind != "none" and name in ("numpy.asarray", "numpy.asanyarray", "numpy.ascontiguousarray", "numpy.asfortranarray"):
            # a conversion with an explicit dtype hands back the very array only if it already has that dtype and a
            # private copy otherwise: a distinct handle on the same storage, so that a write through it leaves the
            # value seen through the original handle undetermined (rebind: 'stale') instead of updated
            return x.replace()
        return x
    if x.kind == "unk":
        return V("arr", x.term, shape=None, orig=x.orig, labels=x.labels, loc=x.loc if x.loc is not None else fresh_id())
    return A.as_arr(x)


@reg("numpy.atleast_2d")
def np_atleast2d(interp, name, args, kw, st, node):
    x = arrv(args[0])
    sh = shape(x)
    if sh is not None and len(sh) == 1:
        return V("arr", T("getitem", x.term, T("tuple", const(None), T("slice", const(None), const(None), const(None)))), shape=(Dim(1),) + tuple(sh), orig=x.orig, labels=x.labels, loc=x.loc)
    return x


# -- elementwise ---------------------------------------------------------------

_UNARY = ["sqrt", "abs", "absolute", "exp", "log", "sin", "cos", "tan", "round", "rint", "around", "floor", "ceil", "trunc", "isnan", "isfinite", "isinf", "square", "sign", "negative", "conj", "log10", "log2", "tanh", "fabs", "spacing", "logical_not", "nan_to_num", "reciprocal"]


def _unary(interp, name, args, kw, st, node):
    x = arrv(args[0])
    wh_ = kw.get("where")
    if wh_ is not None and not (wh_.has_const and wh_.const is True) and wh_.kind != "none":
        # ufunc(x, out=buf, where=m): the entries of buf where m holds are overwritten, the others keep what buf held
        kw2 = {k: v for k, v in kw.items() if k not in ("where", "out")}
        out_ = kw.get("out") or (args[1] if len(args) > 1 else None)
        val = _unary(interp, name, [args[0]], kw2, st, node)
        prev = out_.term if out_ is not None and out_.kind != "none" else T("uninitialised")
        res_ = fresh_arr(T("where3", wh_.term, val.term, prev), shape(val), val.labels | wh_.labels)
        return _handle_out(interp, res_, out_, st, node)
    src = merged_leading(interp, x) if (len(args) == 1 and not [k for k in kw if k != "out"]) else None
    if src is not None:
        # elementwise maps commute with merging the leading axes
        inner = _unary(interp, name, [src], {}, st, node)
        res_ = reshape_to(interp, inner, [A.int_of_dim(d) for d in x.shape], st, node)
        return _handle_out(interp, res_, kw.get("out"), st, node) if kw.get("out") is not None else res_
    base = name.rsplit(".", 1)[1]
    base = {"absolute": "abs", "around": "round", "fabs": "abs", "rint": "round"}.get(base, base)
    if x.has_const and isinstance(x.const, (int, float)) and base == "sqrt" and x.const >= 0:
        import math

        r = math.sqrt(x.const)
        if r == int(r):
            return vconst(float(r))
    if base == "square":
        term = T("pow", x.term, const(2))
    elif base == "negative":
        term = T("neg", x.term)
    elif base == "reciprocal":
        term = T("div", const(1), x.term)
    else:
        term = T(base, x.term) if len(args) == 1 and not [k for k in kw if k != "out"] else T(base, x.term, *[a.term for a in args[1:]], *[T("kw", k, v.term) for k, v in sorted(kw.items()) if k != "out"])
    sh = shape(x)
    dtype = "bool" if base in ("isnan", "isfinite", "isinf", "logical_not") else None
    if base == "spacing" and isinstance(x.term, Term) and x.term.op == "mcall" and len(x.term.args) >= 3 and x.term.args[1] == "type" and isinstance(x.term.args[0], Term) and x.term.args[0].op == "dtype" and len(x.term.args[2]) == 1 and x.term.args[2][0] in (1, const(1)):
        # np.spacing(X.dtype.type(1)): the machine epsilon of X's floating-point type, np.finfo(X.dtype).eps
        return V("float", T("eps", x.term.args[0]), shape=(), labels=x.labels)
    if base == "spacing" and x.kind == "unk":
        return V("float", term, shape=(), labels=x.labels)
    if x.kind == "arr" or sh not in ((), None):
        res = fresh_arr(term, sh, x.labels, dtype)
    elif x.kind in ("int", "float", "bool"):
        res = V("float" if dtype is None else "bool", term, shape=(), labels=x.labels)
    else:
        res = V(x.kind if x.kind == "unk" else "float", term, shape=sh, labels=x.labels)
    return _handle_out(interp, res, kw.get("out") or (args[1] if len(args) > 1 and base not in ("round",) else None), st, node)


for _n in _UNARY:
    NP["numpy." + _n] = _unary

_BINARY = {"add": "add", "subtract": "sub", "multiply": "mul", "divide": "div", "true_divide": "div", "power": "pow", "matmul": "matmul", "mod": "mod", "floor_divide": "floordiv", "logical_and": "bitand", "logical_or": "bitor"}


def _handle_out(interp, res, out, st, node):
    if out is None or out.kind == "none":
        return res
    cond_buf = None
    if out.kind == "maybe" and out.items and out.items[0].kind == "arr":
        cond_buf = (out.items[0], out.term.args[0] if isinstance(out.term, Term) and out.term.op == "phi" and out.term.args else unk("cond"))
    elif out.kind in ("unk", "maybe") and isinstance(out.term, Term) and out.term.op == "phi" and len(out.term.args) == 3 and hasattr(interp, "vtab"):
        c_, a_, b_ = out.term.args
        none_ = const(None)
        if b_ == none_ and isinstance(a_, Term) and interp.vtab.get(a_) is not None and interp.vtab.get(a_).kind == "arr":
            cond_buf = (interp.vtab.get(a_), c_)
        elif a_ == none_ and isinstance(b_, Term) and interp.vtab.get(b_) is not None and interp.vtab.get(b_).kind == "arr":
            cond_buf = (interp.vtab.get(b_), T("not", c_))
    if cond_buf is not None:
        # out=(buf if cond else None): the buffer is overwritten on the paths where cond holds
        base, cond = cond_buf
        interp.event("mutate", node, st, how="out=", target=base, value=res, targetsrc="out")
        newb = res.replace(term=T("phi", cond, res.term, base.term), orig=base.orig, loc=base.loc, kind="arr", shape=base.shape)
        interp.rebind(base, newb, st)
        return res
    interp.event("mutate", node, st, how="out=", target=out, value=res, targetsrc="out")
    new = res.replace(orig=out.orig, loc=out.loc, kind="arr")
    interp.rebind(out, new, st)
    return new


def _binary(interp, name, args, kw, st, node):
    base = name.rsplit(".", 1)[1]
    a, b = arrv(args[0]), arrv(args[1])
    res = A.binop(interp, _BINARY[base], a, b, st, node)
    out = kw.get("out") or (args[2] if len(args) > 2 else None)
    wh = kw.get("where")
    if wh is not None and wh.kind != "none" and not (wh.has_const and wh.const is True):
        prev = out.term if out is not None and out.kind != "none" else T("uninitialised")
        res = res.replace(term=T("where3", wh.term, res.term, prev), labels=res.labels | wh.labels)
    return _handle_out(interp, res, out, st, node)


for _n in _BINARY:
    NP["numpy." + _n] = _binary


_COMPARE_UFUNCS = {"less": ast.Lt, "less_equal": ast.LtE, "greater": ast.Gt, "greater_equal": ast.GtE, "equal": ast.Eq, "not_equal": ast.NotEq}


def _compare_ufunc(interp, name, args, kw, st, node):
    base = name.rsplit(".", 1)[1]
    a, b = arrv(args[0]), arrv(args[1])
    res = A.compare(interp, _COMPARE_UFUNCS[base](), a, b, st, node)
    out = kw.get("out") or (args[2] if len(args) > 2 else None)
    if res.kind != "arr" and out is not None and out.kind == "arr":
        res = A.as_arr(res)
    return _handle_out(interp, res, out, st, node)


for _n in _COMPARE_UFUNCS:
    NP["numpy." + _n] = _compare_ufunc


@reg("numpy.minimum", "numpy.maximum", "numpy.arctan2", "numpy.hypot", "numpy.fmin", "numpy.fmax")
def np_minimum(interp, name, args, kw, st, node):
    base = name.rsplit(".", 1)[1]
    a, b = arrv(args[0]), arrv(args[1])
    sh = A.broadcast(interp, shape(a), shape(b), st, node, what=base)
    if base in ("minimum", "maximum", "fmin", "fmax"):
        ts = sorted([a.term, b.term], key=repr)
        term = T("e" + base[-3:] if base.startswith("f") else "e" + base[:3], *ts)
    else:
        term = T(base, a.term, b.term)
    res = fresh_arr(term, sh, a.labels | b.labels) if (a.kind == "arr" or b.kind == "arr") else V("float", term, shape=(), labels=a.labels | b.labels)
    out = kw.get("out") or (args[2] if len(args) > 2 else None)
    return _handle_out(interp, res, out, st, node)


@reg("numpy.dot")
def np_dot(interp, name, args, kw, st, node):
    a, b = arrv(args[0]), arrv(args[1])
    sa, sb = shape(a), shape(b)
    if sa == () or sb == ():
        return A.binop(interp, "mul", a, b, st, node)
    return A.binop(interp, "matmul", a, b, st, node)


@reg("numpy.inner")
def np_inner(interp, name, args, kw, st, node):
    # contraction over the last axis of both operands: A @ B.T for matrices, the dot product for vectors
    a, b = arrv(args[0]), arrv(args[1])
    sa, sb = shape(a), shape(b)
    if sa == () or sb == ():
        return A.binop(interp, "mul", a, b, st, node)
    if sa is not None and sb is not None and len(sb) == 2:
        return A.binop(interp, "matmul", a, transpose(interp, b), st, node)
    if sa is not None and sb is not None and len(sb) == 1:
        return A.binop(interp, "matmul", a, b, st, node)
    return fresh_arr(callterm(name, args, kw), None, _L(*args, *kw.values()))


@reg("numpy.ix_")
def np_ix(interp, name, args, kw, st, node):
    # open mesh of index vectors: A[np.ix_(r, c)] selects rows r, then columns c
    return V("tuple", T("ix_", *[a.term for a in args]), items=None, labels=_L(*args), extra=("ix_", list(args)))


@reg("numpy.outer")
def np_outer(interp, name, args, kw, st, node):
    a, b = arrv(args[0]), arrv(args[1])
    sa, sb = shape(a), shape(b)
    sh = (sa[0], sb[0]) if sa and sb and len(sa) == 1 and len(sb) == 1 else None
    return fresh_arr(T("outer", a.term, b.term), sh, a.labels | b.labels)


@reg("numpy.add.outer", "numpy.subtract.outer", "numpy.multiply.outer")
def np_ufunc_outer(interp, name, args, kw, st, node):
    # ufunc.outer(u, v) is u[:, None] (op) v[None, :]
    a, b = arrv(args[0]), arrv(args[1])
    sa, sb = shape(a), shape(b)
    if sa is None or sb is None or len(sa) != 1 or len(sb) != 1:
        return fresh_arr(callterm(name, args, kw), None, a.labels | b.labels)
    none = V("none", const(None))
    full = V("slice", T("slice", const(None), const(None), const(None)), items=[none, none, none])
    col = A.subscript(interp, a, interp.mk_tuple([full, none]), st, node)
    row = A.subscript(interp, b, interp.mk_tuple([none, full]), st, node)
    op = {"add": "add", "subtract": "sub", "multiply": "mul"}[name.split(".")[1]]
    return A.binop(interp, op, col, row, st, node)


@reg("numpy.tensordot")
def np_tensordot(interp, name, args, kw, st, node):
    b = bind(["a", "b", "axes"], args, kw)
    x, y, ax = arrv(b["a"]), arrv(b["b"]), b.get("axes")
    sx, sy = shape(x), shape(y)
    if sx is not None and sy is not None and len(sx) == 2 and len(sy) == 2 and ax is not None:
        pair = None
        if ax.has_const and ax.const == 1:
            pair = (1, 0)
        elif ax.kind in ("tuple", "list") and ax.items is not None and len(ax.items) == 2 and all(i.has_const and isinstance(i.const, int) for i in ax.items):
            pair = (ax.items[0].const % 2, ax.items[1].const % 2)
        if pair is not None:
            # contraction of one axis of each matrix: a (transposed) matrix product
            xa = x if pair[0] == 1 else transpose(interp, x)
            yb = y if pair[1] == 0 else transpose(interp, y)
            return A.binop(interp, "matmul", xa, yb, st, node)
    if sx is not None and sy is not None and len(sx) == 3 and len(sy) == 2 and ax is not None and ax.kind in ("tuple", "list") and ax.items is not None and len(ax.items) == 2:
        # a stack of matrices contracted over its last axis: S[k] @ B (B transposed first when its
        # second axis is the contracted one); the result axes are (stack, row, free axis of B)
        def one(v_):
            if v_.has_const and isinstance(v_.const, int):
                return v_.const
            if v_.kind in ("list", "tuple") and v_.items is not None and len(v_.items) == 1 and v_.items[0].has_const and isinstance(v_.items[0].const, int):
                return v_.items[0].const
            return None
        ia, ib = one(ax.items[0]), one(ax.items[1])
        if ia is not None and ib is not None and ia % 3 == 2:
            yb = y if ib % 2 == 0 else transpose(interp, y)
            return A.binop(interp, "matmul", x, yb, st, node)
    return fresh_arr(callterm(name, args, kw), None, _L(*args, *kw.values()))


@reg("numpy.swapaxes")
def np_swapaxes(interp, name, args, kw, st, node):
    b = bind(["a", "axis1", "axis2"], args, kw)
    x = arrv(b["a"])
    sh = shape(x)
    a1, a2 = b.get("axis1"), b.get("axis2")
    if sh is not None and a1 is not None and a2 is not None and a1.has_const and a2.has_const and isinstance(a1.const, int) and isinstance(a2.const, int):
        perm = list(range(len(sh)))
        i, j = a1.const % len(sh), a2.const % len(sh)
        perm[i], perm[j] = perm[j], perm[i]
        return transpose(interp, x, interp.mk_tuple([vconst(p_) for p_ in perm]))
    return fresh_arr(callterm(name, args, kw), None, _L(*args, *kw.values()))


@reg("numpy.moveaxis")
def np_moveaxis(interp, name, args, kw, st, node):
    """np.moveaxis(a, s, d) with constant single axes: the permutation that takes axis s to position d (a view)"""
    b = bind(["a", "source", "destination"], args, kw)
    x = arrv(b["a"])
    sh = shape(x)
    s_, d_ = b.get("source"), b.get("destination")
    if sh is not None and s_ is not None and d_ is not None and s_.has_const and d_.has_const and isinstance(s_.const, int) and isinstance(d_.const, int) and not isinstance(s_.const, bool):
        n_ = len(sh)
        si, di = s_.const % n_, d_.const % n_
        perm = [k_ for k_ in range(n_) if k_ != si]
        perm.insert(di, si)
        if perm == list(range(n_)):
            return x
        return transpose(interp, x, interp.mk_tuple([vconst(p_) for p_ in perm]))
    return fresh_arr(callterm(name, args, kw), None, _L(*args, *kw.values()))


@reg("numpy.isin", "numpy.in1d")
def np_isin(interp, name, args, kw, st, node):
    b = bind(["element", "test_elements", "assume_unique", "invert"], args, kw)
    x, y = arrv(b["element"]), arrv(b["test_elements"])
    inv = b.get("invert")
    flag = bool(inv is not None and inv.has_const and inv.const)
    t = T("isin", x.term, y.term)
    if flag:
        t = T("invert", t)
        d = _complement_extent(x, b["test_elements"])
        if d is not None:
            if not hasattr(interp, "_isin_extent"):
                interp._isin_extent = {}
            interp._isin_extent[t] = d  # number of True entries (used by flatnonzero)
    return fresh_arr(t, shape(x), x.labels | y.labels, "bool")


@reg("numpy.expand_dims")
def np_expand_dims(interp, name, args, kw, st, node):
    b = bind(["a", "axis"], args, kw)
    x = arrv(b["a"])
    sh = shape(x)
    ax = b.get("axis")
    if sh is None or ax is None or not (ax.has_const and isinstance(ax.const, int)):
        return fresh_arr(callterm(name, args, kw), None, x.labels)
    k = ax.const if ax.const >= 0 else ax.const + len(sh) + 1
    nsh = tuple(sh[:k]) + (Dim(1),) + tuple(sh[k:])
    return V("arr", T("reshape1", x.term, *shape_terms(nsh)), shape=nsh, orig=x.orig, labels=x.labels, loc=x.loc, extra=x.extra if isinstance(x.extra, str) else None)


def _pair_expand(interp, x, which, other_n, st, node):
    """rows of x (n, D) repeated to pair with `other_n` partners: the broadcast of x[:, None, :] (which == 0)
    or x[None, :, :] (which == 1) to (n0, n1, D), with the two leading axes merged"""
    sh = shape(x)
    n, d = sh
    if which == 0:
        unit, full = (n, Dim(1), d), (n, other_n, d)
    else:
        unit, full = (Dim(1), n, d), (other_n, n, d)
    inner_t = T("bcast", T("reshape1", x.term, *shape_terms(unit)), *shape_terms(full))
    inner = V("arr", inner_t, shape=full, orig=frozenset([FRESH]), labels=x.labels, loc=fresh_id())
    interp.vtab[inner_t] = inner
    return reshape_to(interp, inner, [A.int_of_dim(full[0].mul(full[1])), A.int_of_dim(d)], st, node)


@reg("numpy.repeat")
def np_repeat(interp, name, args, kw, st, node):
    b = bind(["a", "repeats", "axis"], args, kw)
    x, r, ax = arrv(b["a"]), b["repeats"], b.get("axis")
    sh = shape(x)
    rd = dim_of(r) if r is not None else None
    if sh is not None and len(sh) == 2 and rd is not None and rd.known() and ax is not None and ax.has_const and ax.const == 0 and all(d.known() for d in sh):
        return _pair_expand(interp, x, 0, rd, st, node)  # every row repeated consecutively
    if sh is not None and len(sh) == 1 and isinstance(x.term, Term) and x.term.op == "arange" and len(x.term.args) == 1 and r is not None and r.kind == "arr" and shape(r) is not None and len(shape(r)) == 1 and shape(r)[0] == sh[0] and (ax is None or ax.kind == "none"):
        # np.repeat(np.arange(n), L): position p carries the index of the block of lengths L it lies in
        lt_ = r.term
        while isinstance(lt_, Term) and lt_.op in ("astype", "astype_dyn"):
            lt_ = lt_.args[0]
        tot = call_external(interp, "numpy.sum", [r.replace(term=lt_)], {}, st, node)
        td = dim_of(tot)
        if td is not None and td.known():
            return fresh_arr(T("block_labels", lt_), (td,), x.labels | r.labels, "int")
    return fresh_arr(callterm(name, args, kw), None, _L(*args, *kw.values()))


@reg("numpy.tile")
def np_tile(interp, name, args, kw, st, node):
    b = bind(["A", "reps"], args, kw)
    x, reps = arrv(b["A"]), b["reps"]
    sh = shape(x)
    if sh is not None and len(sh) == 2 and all(d.known() for d in sh) and reps is not None and reps.kind in ("tuple", "list") and reps.items is not None and len(reps.items) == 2 and reps.items[1].has_const and reps.items[1].const == 1:
        rd = dim_of(reps.items[0])
        if rd is not None and rd.known():
            return _pair_expand(interp, x, 1, rd, st, node)  # the whole block repeated
    return fresh_arr(callterm(name, args, kw), None, _L(*args, *kw.values()))


@reg("numpy.split", "numpy.array_split")
def np_split(interp, name, args, kw, st, node):
    """np.split(A, cuts) with cuts = cumsum([0] + L)[1:-1] or cumsum(L)[:-1] and sum(L) == len(A):
    the consecutive row blocks of lengths L"""
    from . import loops as _loops

    b = bind(["ary", "indices_or_sections", "axis"], args, kw)
    x, cuts = arrv(b["ary"]), b["indices_or_sections"]
    ax = b.get("axis")
    labels = _L(*args, *kw.values())
    L = None
    if cuts is not None and isinstance(cuts.term, Term) and cuts.term.op == "getitem" and (ax is None or ax.kind == "none" or (ax.has_const and ax.const == 0)):
        base_t, sl = cuts.term.args
        none = const(None)
        if sl == T("slice", const(1), const(-1), none):
            L = _loops._cum_lengths(base_t)
        elif sl == T("slice", none, const(-1), none) and base_t.op == "cumsum" and len(base_t.args) == 1:
            L = base_t.args[0]
    sh = shape(x)
    if L is not None and sh is not None and len(sh) >= 1:
        # the lengths must add up to the number of rows: rows of vstack(Xs) split by [len(X) for X in Xs]
        tot = sh[0]
        ok = False
        if len(tot.lin) == 1 and tot.c == 0 and isinstance(tot.lin[0][0], tuple) and tot.lin[0][0][0] == "t" and tot.lin[0][0][1].op == "totalrows":
            src = tot.lin[0][0][1].args[0]
            ssh_ = interp.term_shape(src) if hasattr(interp, "term_shape") else None
            over_src = isinstance(L, Term) and L.op == "comp" and len(L.args) == 3 and (L.args[1] == src or (ssh_ is not None and len(ssh_) >= 1 and ssh_[0].known() and L.args[1] == T("range", A.dim_term(Dim(0)), A.dim_term(ssh_[0]))))
            if over_src:
                e = L.args[2]
                want = T("getitem", src, T("lv", L.args[0]))
                if isinstance(e, Term) and e.op == "dim" and len(e.args[0].lin) == 1 and e.args[0].c == 0 and e.args[0].lin[0][0] == ("t", T("rowsof", want)):
                    ok = True
        if ok:
            return V("list", T("blocks", x.term, L), items=None, labels=labels, orig=frozenset([FRESH]), extra=("comp", None, None), loc=fresh_id())
    interp.event("opaque-call", node, st, fn=name)
    return V("list", callterm(name, args, kw), labels=labels, orig=frozenset([FRESH]), loc=fresh_id())


@reg("numpy.linalg.multi_dot")
def np_multidot(interp, name, args, kw, st, node):
    x = args[0]
    if x.items is None:
        return fresh_arr(callterm("multi_dot", args), None, x.labels)
    acc = arrv(x.items[0])
    for y in x.items[1:]:
        acc = A.binop(interp, "matmul", acc, arrv(y), st, node)
    return acc


# -- reductions -------------------------------------------------------------------


def _reduction(opname, dtype=None, index=False):
    def f(interp, name, args, kw, st, node):
        b = bind(["a", "axis", "dtype", "out", "keepdims"] if opname not in ("average",) else ["a", "axis", "weights"], args, kw)
        x = arrv(b["a"])
        sh = shape(x)
        rank = len(sh) if sh is not None else None
        kd_ = kw.get("keepdims")
        if kd_ is not None and kd_.has_const and kd_.const is True and sh is not None and b.get("axis") is not None and b["axis"].has_const and isinstance(b["axis"].const, int):
            # keepdims=True: the plain reduction with the reduced axis re-inserted as a unit axis
            inner_ = f(interp, name, args, {k: v for k, v in kw.items() if k != "keepdims"}, st, node)
            if inner_.kind == "arr" and inner_.shape is not None:
                axk_ = b["axis"].const % len(sh)
                nsh_ = tuple(Dim(1) if i == axk_ else d for i, d in enumerate(sh))
                return V("arr", T("reshape1", inner_.term, *shape_terms(nsh_)), shape=nsh_, orig=frozenset([FRESH]), labels=inner_.labels, loc=fresh_id(), extra=inner_.extra if isinstance(inner_.extra, str) else None)
        whr = kw.get("where")
        if whr is not None and whr.kind != "none" and not (whr.has_const and whr.const is True) and opname in ("amax", "amin", "sum", "any", "all", "prod"):
            # a masked reduction: the entries outside the mask are replaced by `initial` (max / min)
            # or by the neutral element
            init = kw.get("initial")
            neutral = {"sum": const(0), "any": const(False), "all": const(True), "prod": const(1)}.get(opname)
            fill = init.term if (init is not None and init.kind != "none") else neutral
            if fill is not None:
                wv = arrv(whr)
                x = fresh_arr(T("where3", wv.term, x.term, fill), sh, x.labels | wv.labels, x.extra if isinstance(x.extra, str) else None)
                kw = {k: v for k, v in kw.items() if k not in ("where", "initial")}
                b = bind(["a", "axis", "dtype", "out", "keepdims"], [x] + list(args[1:]), kw)
        if rank == 3 and isinstance(x.term, Term) and x.term.op in ("comp", "list") and axis_of(b.get("axis"), rank) in (1, 2) and not any(k in kw for k in ("keepdims", "weights", "out")) and hasattr(interp, "vtab"):
            # a reduction within every matrix of a stack
            kw2 = {k: v for k, v in kw.items() if k != "axis"}
            r = A.lift3_map(interp, [x], lambda els: f(interp, name, [els[0]], dict(kw2, axis=vconst(axis_of(b.get("axis"), rank) - 1)), st, node), st, want_rank=1)
            if r is not None:
                return r
        src = merged_leading(interp, x)
        if src is not None and rank is not None and rank >= 2 and axis_of(b.get("axis"), rank) == rank - 1 and not any(k in kw for k in ("keepdims", "weights", "out", "dtype")):
            # a reduction along the last axis commutes with merging the leading axes
            inner = f(interp, name, [src], {"axis": vconst(len(shape(src)) - 1)}, st, node)
            if inner.kind == "arr" and inner.shape is not None:
                interp.vtab.setdefault(inner.term, inner)
                return reshape_to(interp, inner, [A.int_of_dim(d) for d in sh[:-1]], st, node)
        rsh = reduce_shape(interp, sh, b.get("axis"), b.get("keepdims"), st, node)
        parts = [x.term]
        at = axis_term(b.get("axis"), rank)
        if rank == 1 and at == const(0):
            at = None
        axn0 = axis_of(b.get("axis"), rank)
        if at is not None and sh is not None and isinstance(axn0, int) and 0 <= axn0 < len(sh) and all(d.is_const() and d.c == 1 for i_, d in enumerate(sh) if i_ != axn0) and opname in ("sum", "mean", "amax", "amin", "any", "all", "prod"):
            at = None  # every other axis has extent 1: the reduction along this axis is the total
        if at is not None:
            parts.append(("axis", at))
        kd = b.get("keepdims")
        if kd is not None and kd.has_const and kd.const:
            parts.append(("keepdims", const(True)))
        w = b.get("weights")
        labels = x.labels
        if w is not None and w.kind != "none":
            w = arrv(w)
            parts.append(("weights", w.term))
            labels = labels | w.labels
            # weights must have the length of the reduced axis (1-D) or the full shape
            wsh = shape(w)
            ax = axis_of(b.get("axis"), rank)
            if wsh is not None and sh is not None and len(wsh) == 1 and isinstance(ax, int) and ax < len(sh):
                if A.dims_conflict(interp, wsh[0], sh[ax]):
                    interp.event("shape-conflict", node, st, what="average-weights", a=tuple(sh), b=tuple(wsh))
        ddof = b.get("ddof")
        if ddof is not None and not (ddof.has_const and ddof.const == 0):
            parts.append(("ddof", ddof.term))
        if opname in ("mean", "average") and not (w is not None and w.kind != "none") and sh is not None:
            # the extent averaged over, so that mean = sum / n in the normal form
            axn = axis_of(b.get("axis"), rank)
            ext = None
            if at is None and (b.get("axis") is None or b.get("axis").kind == "none" or rank == 1):
                ext = Dim(1)
                for d in sh:
                    ext = ext.mul(d)
            elif isinstance(axn, int) and axn < len(sh):
                ext = sh[axn]
            if ext is not None and ext.known():
                parts.append(("n", A.dim_term(ext)))
        term = T(opname, *parts)
        is_sq = x.term.op == "pow" and len(x.term.args) == 2 and x.term.args[1] == const(2)
        if opname == "sum" and ((x.term.op == "mul" and len(x.term.args) == 2) or is_sq) and sh is not None and len(sh) == 2 and len(parts) == 2 and axis_of(b.get("axis"), rank) in (0, 1):
            # sum_j P_ij Q_ij = diag(P Q^T)_i   (and along the other axis diag(P^T Q))
            pv, qv = interp.vtab.get(x.term.args[0]), interp.vtab.get(x.term.args[0 if is_sq else 1])
            if pv is not None and qv is not None and shape(pv) == tuple(sh) and shape(qv) == tuple(sh):
                if axis_of(b.get("axis"), rank) == 1:
                    term = T("diagof", T("matmul", pv.term, T("T", qv.term)))
                else:
                    term = T("diagof", T("matmul", T("T", pv.term), qv.term))
        if opname in ("any", "all") and x.term.op in ("lt", "le", "gt", "ge") and at is not None and len(parts) == 2:
            # any(a < c) along an axis, c a scalar bound  ==  min(a) < c   (all: max)
            info = getattr(interp, "cmp_info", {}).get(x.term)
            if info is not None:
                cn, ca, cb = info
                sca, scb = shape(ca), shape(cb)
                arr_first = scb == () and sca is not None and len(sca) >= 1
                arr_second = sca == () and scb is not None and len(scb) >= 1
                if arr_first or arr_second:
                    arr_v, bound = (ca, cb) if arr_first else (cb, ca)
                    # which extreme decides: for `arr < c` any->min, all->max; for `arr > c` the other way
                    less = (cn in ("lt", "le")) == arr_first
                    red = ("amin" if less else "amax") if opname == "any" else ("amax" if less else "amin")
                    rt = T(red, arr_v.term, parts[1])
                    term = T(cn, rt, bound.term) if arr_first else T(cn, bound.term, rt)
        dt = dtype
        if opname in ("sum",) and x.extra == "bool":
            term = T("count", x.term) if at is None else term
        if rsh == () :
            k = "int" if (index or opname == "count" or (opname in ("sum",) and x.extra in ("bool", "int"))) else ("bool" if dt == "bool" else "float")
            v = V(k if k != "float" else "arr", term, shape=(), labels=labels, orig=frozenset([FRESH]), loc=fresh_id())
            if index and sh is not None:
                ax = axis_of(b.get("axis"), rank)
                v.extra = ("index", Dim(0), sh[ax] if isinstance(ax, int) and ax < len(sh) else (sh[0] if len(sh) == 1 else Dim.unknown("flat")))
            if opname in ("sum",) and x.extra == "bool":
                v.extra = ("count", x)
            return v
        return fresh_arr(term, rsh, labels, dt or ("int" if index else None))

    return f


NP["numpy.sum"] = _reduction("sum")
NP["numpy.mean"] = _reduction("mean")
NP["numpy.average"] = _reduction("average")
NP["numpy.max"] = NP["numpy.amax"] = _reduction("amax")
NP["numpy.min"] = NP["numpy.amin"] = _reduction("amin")
NP["numpy.any"] = _reduction("any", "bool")
NP["numpy.all"] = _reduction("all", "bool")
_np_prod_red = _reduction("prod")


def np_prod(interp, name, args, kw, st, node):
    # the product of a tuple / list of extents (np.prod(a.shape[1:])) is an extent
    x = args[0] if args else None
    if x is not None and x.kind in ("tuple", "list") and x.items is not None and not kw and len(args) == 1 and all(i.kind == "int" and (i.dim is not None or (i.has_const and isinstance(i.const, int))) for i in x.items):
        d = Dim(1)
        for i in x.items:
            d = d.mul(i.dim if i.dim is not None else Dim(i.const))
        return A.int_of_dim(d, _L(*x.items))
    return _np_prod_red(interp, name, args, kw, st, node)


NP["numpy.prod"] = np_prod
_red_std, _red_var = _reduction("std"), _reduction("var")


def np_var(interp, name, args, kw, st, node):
    """population variance / standard deviation along axis 0 of a matrix (or of a vector), written out through the mean:
    var(x) = mean((x - mean(x))**2), corrected by n / (n - ddof)"""
    b = bind(["a", "axis"], args, kw)
    x = arrv(b["a"])
    sh = shape(x)
    ax = b.get("axis")
    dd = kw.get("ddof")
    extra = [k for k in kw if k not in ("axis", "ddof") and not (kw[k].kind == "none")]
    ok_axis = sh is not None and ((len(sh) == 1 and (ax is None or ax.kind == "none" or (ax.has_const and ax.const in (0, -1)))) or (len(sh) == 2 and ax is not None and ax.has_const and ax.const == 0))
    if not ok_axis or extra or (dd is not None and not (dd.has_const and isinstance(dd.const, int))):
        return (_red_std if name.endswith("std") else _red_var)(interp, name, args, kw, st, node)
    akw = {"axis": ax} if (ax is not None and ax.kind != "none") else {}
    m = call_external(interp, "numpy.mean", [x], dict(akw), st, node)
    d = A.binop(interp, "sub", x, m, st, node)
    sq = A.binop(interp, "pow", d, vconst(2), st, node)
    v = call_external(interp, "numpy.mean", [sq], dict(akw), st, node)
    k = dd.const if dd is not None else 0
    if k:
        n_ = A.int_of_dim(sh[0])
        v = A.binop(interp, "mul", v, A.binop(interp, "div", n_, A.binop(interp, "sub", n_, vconst(k), st, node), st, node), st, node)
    if name.endswith("std"):
        v = call_external(interp, "numpy.sqrt", [v], {}, st, node)
    return v


NP["numpy.std"] = np_var
NP["numpy.var"] = np_var
NP["numpy.median"] = _reduction("median")
NP["numpy.argmax"] = _reduction("argmax", index=True)
NP["numpy.argmin"] = _reduction("argmin", index=True)
NP["numpy.count_nonzero"] = _reduction("count")
NP["numpy.nanmax"] = _reduction("nanmax")
NP["numpy.nanmin"] = _reduction("nanmin")


@reg("numpy.linalg.norm")
def np_norm(interp, name, args, kw, st, node):
    b = bind(["x", "ord", "axis", "keepdims"], args, kw)
    x = arrv(b["x"])
    sh = shape(x)
    rank = len(sh) if sh is not None else None
    src = merged_leading(interp, x)
    if src is not None and rank is not None and rank >= 2 and axis_of(b.get("axis"), rank) == rank - 1 and (b.get("keepdims") is None or b["keepdims"].kind == "none"):
        # a norm along the last axis commutes with merging the leading axes
        kw2 = {"axis": vconst(len(shape(src)) - 1)}
        if b.get("ord") is not None and b["ord"].kind != "none":
            kw2["ord"] = b["ord"]
        inner = np_norm(interp, name, [src], kw2, st, node)
        if inner.kind == "arr" and inner.shape is not None:
            interp.vtab.setdefault(inner.term, inner)
            return reshape_to(interp, inner, [A.int_of_dim(d) for d in sh[:-1]], st, node)
    rsh = reduce_shape(interp, sh, b.get("axis"), b.get("keepdims"), st, node)
    parts = [x.term]
    at = axis_term(b.get("axis"), rank)
    if rank == 1 and at == const(0):
        at = None
    if at is not None:
        parts.append(("axis", at))
    ord_default = b.get("ord") is not None and b["ord"].has_const and ((rank == 1 and b["ord"].const == 2 and (at is None)) or (rank == 2 and b["ord"].const == "fro" and at is None))
    if b.get("ord") is not None and b["ord"].kind != "none" and not ord_default:
        # (ord=2 of a vector and ord='fro' of a matrix are the defaults, spelled out)
        parts.append(("ord", b["ord"].term))
    term = T("norm", *parts)
    axn_ = axis_of(b.get("axis"), rank)
    if rank == 2 and axn_ in (0, 1) and (b.get("ord") is None or b["ord"].kind == "none") and (b.get("keepdims") is None or b["keepdims"].kind == "none"):
        # row / column norms: sqrt of the diagonal of the Gram matrix (the form sums of squares take)
        term = T("sqrt", T("diagof", T("matmul", x.term, T("T", x.term)) if axn_ == 1 else T("matmul", T("T", x.term), x.term)))
        if sh[1 - axn_].is_const() and sh[1 - axn_].c == 1:
            # a single column / row: its norm along the long axis is the norm of the whole array (one entry)
            term = T("reshape1", T("norm", x.term), A.dim_term(Dim(1)))
    if rsh == ():
        return V("arr", term, shape=(), labels=x.labels, orig=frozenset([FRESH]), loc=fresh_id())
    return fresh_arr(term, rsh, x.labels)


@reg("numpy.trace")
def np_trace(interp, name, args, kw, st, node):
    x = arrv(args[0])
    sh = shape(x)
    if sh is not None and len(sh) == 2 and A.dims_conflict(interp, sh[0], sh[1]):
        interp.event("shape-conflict", node, st, what="trace-nonsquare", a=tuple(sh), b=())
    return V("arr", T("trace", x.term), shape=() if sh is None or len(sh) <= 2 else tuple(sh[2:]), labels=x.labels, orig=frozenset([FRESH]), loc=fresh_id())


@reg("numpy.cumsum", "sklearn.utils.extmath.stable_cumsum")
def np_cumsum(interp, name, args, kw, st, node):
    x = arrv(args[0])
    return fresh_arr(T("cumsum", x.term), shape(x), x.labels, x.extra if isinstance(x.extra, str) else None)


@reg("numpy.argsort", "numpy.sort", "numpy.flip", "numpy.flipud", "numpy.fliplr")
def np_argsort(interp, name, args, kw, st, node):
    base = name.rsplit(".", 1)[1]
    b = bind(["a", "axis"], args, kw)
    x = arrv(b["a"])
    sh = shape(x)
    parts = [x.term]
    at = axis_term(b.get("axis"), len(sh) if sh is not None else None)
    if at is not None and not (sh is not None and len(sh) == 1):
        parts.append(("axis", at))
    if base.startswith("flip") and sh is not None:
        ax = axis_of(b.get("axis"), len(sh))
        if base == "flipud":
            ax = 0
        elif base == "fliplr":
            ax = 1
        if ax is None and len(sh) == 1:
            ax = 0
        if isinstance(ax, int) and ax < len(sh):
            none = T("const", None)
            rev = T("slice", none, none, const(-1))
            full = T("slice", none, none, none)
            it = rev if ax == 0 else T("tuple", *([full] * ax), rev)
            return V("arr", T("getitem", x.term, it), shape=sh, orig=x.orig, labels=x.labels, loc=x.loc, extra=x.extra if isinstance(x.extra, str) else None)
    v = fresh_arr(T(base, *parts), sh, x.labels, "int" if base == "argsort" else (x.extra if isinstance(x.extra, str) else None))
    if base.startswith("flip"):
        v.orig = x.orig  # view
        v.loc = x.loc
    return v


def _complement_extent(rng_v, excl_v):
    """len(setdiff1d(arange(n), idx)) = n - k for k distinct non-negative constant indices (taken to be
    in range: an index beyond the axis is rejected by the callers' own validation)"""
    t = rng_v.term
    sh = shape(rng_v)
    if not (isinstance(t, Term) and t.op == "arange" and len(t.args) == 1 and sh is not None and len(sh) == 1):
        return None
    items = excl_v.items if excl_v.kind in ("list", "tuple") else None
    if items is None or not all(i.has_const and isinstance(i.const, int) and not isinstance(i.const, bool) and i.const >= 0 for i in items):
        return None
    if len({i.const for i in items}) != len(items):
        return None
    d = sh[0] - len(items)
    return d if d.known() else None


@reg("numpy.flatnonzero")
def np_flatnonzero(interp, name, args, kw, st, node):
    x = arrv(args[0])
    ext = Dim.unknown("where")
    if isinstance(x.term, Term) and x.term.op == "invert" and isinstance(x.term.args[0], Term) and x.term.args[0].op == "isin":
        d = getattr(interp, "_isin_extent", {}).get(x.term)
        if d is not None:
            ext = d
    return fresh_arr(T("nonzero1", x.term), (ext,), x.labels, "int")


@reg("numpy.unique", "numpy.setdiff1d", "numpy.intersect1d", "numpy.union1d")
def np_unique(interp, name, args, kw, st, node):
    base = name.rsplit(".", 1)[1]
    ext = Dim.unknown(base)
    if base == "unique":
        flags = [k for k in ("return_index", "return_inverse", "return_counts") if kw.get(k) is not None and kw[k].has_const and kw[k].const]
        if flags:
            x = arrv(args[0])
            sx = shape(x)
            axis_kw = kw.get("axis")
            rows = axis_kw is not None and axis_kw.has_const and axis_kw.const == 0 and sx is not None and len(sx) == 2
            first = fresh_arr(T("unique", x.term, *([("axis", const(0))] if rows else [])), ((ext, sx[1]) if rows else (ext,)), x.labels, x.extra if isinstance(x.extra, str) else None)
            outs = [first]
            for k in flags:
                n_ = (sx[0] if (k == "return_inverse" and sx is not None and sx) else ext)
                outs.append(fresh_arr(T("unique_" + k[7:], x.term, *([("axis", const(0))] if rows else [])), (n_,), x.labels, "int"))
            return interp.mk_tuple(outs)
    if base == "unique" and kw.get("axis") is not None and kw["axis"].has_const and kw["axis"].const == 0 and not [k for k in kw if k != "axis" and not (kw[k].has_const and not kw[k].const)]:
        # the distinct rows (sorted): fewer rows than the input whenever a row repeats
        x = arrv(args[0])
        sx = shape(x)
        if sx is not None and len(sx) == 2:
            return fresh_arr(T("unique", x.term, ("axis", const(0))), (ext, sx[1]), x.labels, x.extra if isinstance(x.extra, str) else None)
    if base == "setdiff1d" and len(args) >= 2:
        d = _complement_extent(arrv(args[0]), args[1])
        if d is not None:
            ext = d
    return fresh_arr(T(base, *[arrv(a).term for a in args]), (ext,), _L(*args), "int")


@reg("numpy.where", "numpy.nonzero")
def np_where(interp, name, args, kw, st, node):
    if len(args) == 1:
        x = arrv(args[0])
        sh = shape(x)
        rank = len(sh) if sh is not None else 1
        items = [fresh_arr(T("where", x.term, const(i)) if rank > 1 else T("nonzero1", x.term), (Dim.unknown("where"),), x.labels, "int") for i in range(rank)]
        return interp.mk_tuple(items)
    c, a, b = [arrv(x) for x in args[:3]]
    if args[2].has_const and isinstance(args[2].const, (int, float)) and not isinstance(args[2].const, bool) and args[2].const == 0 and c.extra == "bool" and a.extra != "bool" and shape(a) not in (None, ()) and shape(c) is not None and len(shape(c)) < len(shape(a)):
        # where(m, x, 0) with a mask broadcast along the leading axes keeps the masked columns of x and zeroes the others:
        # the product of x with the 0/1 mask (masks of the shape of x stay a selection, the form a comprehension vectorises to)
        return A.binop(interp, "mul", a, c, st, node)
    sh = A.broadcast(interp, A.broadcast(interp, shape(c), shape(a), st, node, what="where"), shape(b), st, node, what="where")
    return fresh_arr(T("where3", c.term, a.term, b.term), sh, _L(c, a, b))


@reg("numpy.argwhere")
def np_argwhere(interp, name, args, kw, st, node):
    x = arrv(args[0])
    sh = shape(x)
    # the rank of the mask is part of the term: np.concatenate(np.argwhere(m)) of a 1-D mask is np.flatnonzero(m)
    t = T("argwhere", x.term, ("rank", const(len(sh)))) if sh is not None else T("argwhere", x.term)
    return fresh_arr(t, (Dim.unknown("argwhere"), Dim(len(sh)) if sh is not None else Dim.unknown("r")), x.labels, "int")


@reg("numpy.vdot")
def np_vdot(interp, name, args, kw, st, node):
    """np.vdot(a, b) flattens both operands: for real arrays of one shape the sum of the elementwise products"""
    a, b = arrv(args[0]), arrv(args[1])
    sa_, sb_ = shape(a), shape(b)
    if sa_ is not None and sb_ is not None and len(sa_) == len(sb_) and len(sa_) >= 2 and any(A.dims_conflict(interp, x, y) for x, y in zip(sa_, sb_)):
        # two tables of different shapes (an (n, m) against an (m, n) one) flattened and paired entry by entry in
        # memory order: entry (i, j) of one meets another entry of the other - a sum of mismatched products
        interp.event("shape-conflict", node, st, what="vdot of two matrices of different shapes pairs their entries by flattened position", a=tuple(sa_), b=tuple(sb_))
        return fresh_arr(callterm(name, args, kw), (), _L(*args))
    if sa_ is None or sb_ is None or len(sa_) != len(sb_) or any(A.dims_conflict(interp, x, y) for x, y in zip(sa_, sb_)):
        return fresh_arr(callterm(name, args, kw), (), _L(*args))
    prod = A.binop(interp, "mul", a, b, st, node)
    return call_external(interp, "numpy.sum", [prod], {}, st, node)


@reg("numpy.copyto")
def np_copyto(interp, name, args, kw, st, node):
    """np.copyto(dst, src, where=m): dst[m] = src with m broadcast against dst (a vector mask selects columns of a matrix,
    a column mask m[:, None] selects rows)"""
    b = bind(["dst", "src", "casting", "where"], args, kw)
    dst, src = arrv(b["dst"]), arrv(b["src"])
    wh = b.get("where")
    full = T("slice", const(None), const(None), const(None))
    if wh is None or wh.kind == "none" or (wh.has_const and wh.const is True):
        idx_t = full
    else:
        m = arrv(wh)
        sd, sm = shape(dst), shape(m)
        idx_t = None
        if sd is not None and sm is not None:
            if len(sm) == len(sd) and tuple(sm) == tuple(sd):
                idx_t = m.term
            elif len(sd) == 2 and len(sm) == 1 and sm[0] == sd[1]:
                idx_t = T("tuple", full, m.term)
            elif len(sd) == 2 and len(sm) == 2 and sm[0] == sd[0] and sm[1].is_const() and sm[1].c == 1 and isinstance(m.term, Term) and m.term.op in ("reshape1", "reshape", "getitem") and isinstance(m.term.args[0], Term):
                src_m = interp.vtab.get(m.term.args[0])
                if src_m is not None and shape(src_m) is not None and len(shape(src_m)) == 1:
                    idx_t = src_m.term
        if idx_t is None:
            interp.event("mutate", node, st, how="copyto", target=dst, value=src, targetsrc="dst")
            interp.rebind(dst, dst.replace(term=T("copyto", dst.term, src.term, m.term)), st)
            return vconst(None)
    interp.event("mutate", node, st, how="copyto", target=dst, value=src, targetsrc="dst")
    interp.rebind(dst, dst.replace(term=T("store", dst.term, idx_t, src.term), has_const=False, const_=None, items=None), st)
    return vconst(None)


@reg("numpy.searchsorted")
def np_searchsorted(interp, name, args, kw, st, node):
    b = bind(["a", "v", "side"], args, kw)
    v = arrv(b["v"])
    a_ = arrv(b["a"])
    REV_ = T("slice", const(None), const(None), const(-1))
    side_ = b.get("side")
    sname = side_.const if (side_ is not None and side_.has_const) else "left"
    if isinstance(a_.term, Term) and a_.term.op == "getitem" and a_.term.args[1] == REV_ and isinstance(a_.term.args[0], Term) and a_.term.args[0].op == "svd_S" and shape(v) == () and shape(a_) is not None and len(shape(a_)) == 1 and shape(a_)[0].known() and sname in ("left", "right"):
        # bisection of the ascending (reversed) singular values: the number of entries <= v (side='right') / < v
        # (side='left'), i.e. the extent minus the number of entries above (at or above) v
        s_desc = a_.term.args[0]
        above = T("count", T("gt" if sname == "right" else "ge", s_desc, v.term))
        d = shape(a_)[0] - Dim(0, {("t", above): 1})
        return A.int_of_dim(d, _L(a_, v))
    if shape(v) == () and shape(a_) is not None and len(shape(a_)) == 1 and sname in ("left", "right") and isinstance(a_.term, Term) and a_.term.op == "cumsum":
        # insertion point in running sums (ascending): the number of entries <= v (side='right') / < v (side='left')
        return V("int", T("count", T("le" if sname == "right" else "lt", a_.term, v.term)), shape=(), labels=_L(a_, v))
    return V("arr", callterm("searchsorted", [b["a"], b["v"]], {k: x for k, x in b.items() if k == "side" and x is not None}), shape=shape(v), labels=_L(b["a"], v), orig=frozenset([FRESH]), loc=fresh_id(), extra="int")


# -- shape manipulation ---------------------------------------------------------------


def merged_leading(interp, v):
    """A (shape (p, q, *rest)) if v is reshape(A) merging exactly the two leading axes"""
    if v.kind != "arr" or v.term.op != "reshape" or not v.term.args or v.shape is None:
        return None
    src = interp.vtab.get(v.term.args[0])
    ssh = shape(src) if src is not None else None
    if ssh is None or len(ssh) != len(v.shape) + 1 or len(ssh) < 2:
        return None
    if tuple(ssh[2:]) != tuple(v.shape[1:]) or ssh[0].mul(ssh[1]) != v.shape[0]:
        return None
    return A.as_arr(src)


def reshape_to(interp, x, dims_v, st, node):
    if len(dims_v) == 1 and dims_v[0].kind == "none":
        return x  # ndarray.reshape(None) leaves the shape as it is
    sh = shape(x)
    dims = []
    minus = None
    for i, d in enumerate(dims_v):
        if d.has_const and d.const == -1:
            minus = i
            dims.append(None)
        else:
            dd = dim_of(d)
            dims.append(dd if dd is not None else Dim.unknown("reshape"))
    if minus is not None:
        tot = None
        if sh is not None:
            tot = Dim(1)
            for d in sh:
                tot = tot.mul(d)
            rest = Dim(1)
            for d in dims:
                if d is not None:
                    rest = rest.mul(d)
            if rest.is_const() and rest.c == 1:
                dims[minus] = tot
            elif rest.known() and tot.known():
                # exact division when possible
                q = _divide(tot, rest)
                dims[minus] = q if q is not None else Dim.unknown("reshape-1")
            else:
                dims[minus] = Dim.unknown("reshape-1")
        else:
            dims[minus] = Dim.unknown("reshape-1")
    dims = tuple(dims)
    if sh is not None and sh == dims:
        return x
    inner = merged_leading(interp, x)
    if x.term.op == "reshape" and x.term.args:
        src = interp.vtab.get(x.term.args[0])
        if src is not None and shape(src) is not None and tuple(shape(src)) == dims:
            return src  # reshape back to the shape it came from
    if sh is not None:
        interp.vtab.setdefault(x.term, x)
    # total size check when everything is known
    if sh is not None and minus is None and all(d.known() for d in dims) and all(d.known() for d in sh):
        a = Dim(1)
        for d in sh:
            a = a.mul(d)
        b = Dim(1)
        for d in dims:
            b = b.mul(d)
        if a != b and not any(isinstance(at, tuple) for dd in (a, b) for at, _ in dd.lin if isinstance(at, tuple) and at[0] != "mul"):
            if A.dims_conflict(interp, a, b):
                interp.event("shape-conflict", node, st, what="reshape-size", a=tuple(sh), b=dims)
    # canonical term: reshape that only drops/adds unit axes keeps value numbering simple
    term = T("reshape", x.term, *shape_terms(dims, [d.term for d in dims_v]))
    if sh is not None:
        core_a = tuple(d for d in sh if not (d.is_const() and d.c == 1))
        core_b = tuple(d for d in dims if not (d.is_const() and d.c == 1))
        if core_a == core_b:
            term = T("reshape1", x.term, *shape_terms(dims, [d.term for d in dims_v]))
    return V("arr", term, shape=dims, orig=x.orig, labels=x.labels, loc=x.loc, extra=x.extra if isinstance(x.extra, str) else None)


def _divide(tot, rest):
    """tot / rest for products of dims"""
    def factors(d):
        if d.is_const():
            return [d]
        if len(d.lin) == 1 and d.c == 0:
            (a, k), = d.lin
            if isinstance(a, tuple) and a[0] == "mul" and k == 1:
                return factors(a[1]) + factors(a[2])
        return [d]

    fa, fb = factors(tot), factors(rest)
    for f in fb:
        if f in fa:
            fa.remove(f)
        elif f.is_const() and f.c == 1:
            continue
        else:
            return None
    out = Dim(1)
    for f in fa:
        out = out.mul(f)
    return out


@reg("numpy.reshape")
def np_reshape(interp, name, args, kw, st, node):
    x = arrv(args[0])
    s = args[1] if len(args) > 1 else kw.get("newshape") or kw.get("shape")
    dims_v = s.items if s.kind in ("tuple", "list") and s.items is not None else [s]
    return reshape_to(interp, x, dims_v, st, node)


@reg("numpy.ravel")
def np_ravel(interp, name, args, kw, st, node):
    return reshape_to(interp, arrv(args[0]), [vconst(-1)], st, node)


@reg("numpy.linalg.matrix_transpose", "numpy.matrix_transpose")
def np_matrix_transpose(interp, name, args, kw, st, node):
    """the two trailing axes swapped (NumPy 2 spelling of x.T for a matrix / transpose(x, (0, 2, 1)) for a stack)"""
    x = arrv(args[0] if args else kw.get("x"))
    sh = shape(x)
    if sh is not None and len(sh) == 2:
        return transpose(interp, x, None)
    if sh is not None and len(sh) == 3:
        return transpose(interp, x, interp.mk_tuple([vconst(0), vconst(2), vconst(1)]))
    return fresh_arr(callterm(name, args, kw), None, _L(*args))


@reg("numpy.linalg.vector_norm")
def np_vector_norm(interp, name, args, kw, st, node):
    """NumPy 2 spelling of the vector norm along an axis (default: of all entries)"""
    b = bind(["x", "axis", "keepdims", "ord"], args, kw)
    kw2 = {k: v for k, v in (("axis", b.get("axis")), ("keepdims", b.get("keepdims")), ("ord", b.get("ord"))) if v is not None and v.kind != "none"}
    for k_ in ("x", "axis", "keepdims", "ord"):
        kw.pop(k_, None)
    if "axis" not in kw2 and shape(arrv(b["x"])) is not None and len(shape(arrv(b["x"]))) > 1:
        return fresh_arr(callterm(name, args, kw2), None, _L(*args))  # flattened norm of a matrix: not modelled
    return np_norm(interp, "numpy.linalg.norm", [b["x"]], kw2, st, node)


@reg("numpy.transpose")
def np_transpose(interp, name, args, kw, st, node):
    x = arrv(args[0])
    axes = args[1] if len(args) > 1 else kw.get("axes")
    return transpose(interp, x, axes)


def transpose(interp, x, axes=None):
    sh = shape(x)
    if axes is None or axes.kind == "none":
        if sh is not None and len(sh) < 2:
            return x
        if sh is not None and len(sh) == 2 and isinstance(x.term, Term) and hasattr(interp, "vtab"):
            t_ = x.term
            def known2(p_):
                return p_ is not None and p_.kind == "arr" and shape(p_) is not None and len(shape(p_)) == 2
            if t_.op in ("add", "sub") and len(t_.args) == 2:
                # (A + b)^T = A^T + b^T, operand by operand (a column b becomes a row: a re-labelling of its axis)
                pa, pb = interp.vtab.get(t_.args[0]), interp.vtab.get(t_.args[1])
                if known2(pa) and known2(pb) and shape(pa) != shape(pb):
                    return A.binop(interp, t_.op, transpose(interp, pa), transpose(interp, pb), None, None)
            if t_.op == "neg" and len(t_.args) == 1:
                pa = interp.vtab.get(t_.args[0])
                if known2(pa) and isinstance(pa.term, Term) and pa.term.op in ("add", "sub", "neg", "matmul"):
                    inner = transpose(interp, pa)
                    return fresh_arr(T("neg", inner.term), shape(inner), inner.labels)
            if t_.op == "matmul" and len(t_.args) == 2 and isinstance(t_.args[0], Term) and t_.args[0].op == "dg":
                # (dg(v) @ M)^T = M^T @ dg(v): rows scaled become columns scaled
                pm = interp.vtab.get(t_.args[1])
                if known2(pm):
                    mt = transpose(interp, pm)
                    r = fresh_arr(T("matmul", mt.term, t_.args[0]), shape(mt), x.labels)
                    return r
        if sh is not None and len(sh) == 2 and any(d.is_const() and d.c == 1 for d in sh):
            # transposing a single row / column only re-labels the axes
            from .api_numpy import shape_terms as _st

            nsh = tuple(reversed(sh))
            r_ = V("arr", T("reshape1", x.term, *_st(nsh)), shape=nsh, orig=x.orig, labels=x.labels, loc=x.loc, extra=x.extra if isinstance(x.extra, str) else None)
            if hasattr(interp, "vtab"):
                interp.vtab.setdefault(r_.term, r_)  # (a transpose made inside a transfer function is not an evaluated expression)
            return r_
        r_ = V("arr", T("T", x.term), shape=tuple(reversed(sh)) if sh is not None else None, orig=x.orig, labels=x.labels, loc=x.loc, extra=x.extra if isinstance(x.extra, str) else None)
        if hasattr(interp, "vtab") and sh is not None:
            interp.vtab.setdefault(r_.term, r_)
        return r_
    if axes.items is not None and all(a.has_const for a in axes.items):
        perm = [a.const for a in axes.items]
        nsh = tuple(sh[p] for p in perm) if sh is not None and len(sh) == len(perm) else None
        if perm == list(range(len(perm))):
            return x
        if perm == list(reversed(range(len(perm)))):
            return V("arr", T("T", x.term), shape=nsh, orig=x.orig, labels=x.labels, loc=x.loc)
        if perm == [0, 2, 1] and hasattr(interp, "vtab"):
            # every matrix of the stack transposed
            r = A.lift3_map(interp, [x], lambda els: transpose(interp, els[0]), None)
            if r is not None:
                return r
        return V("arr", T("transpose", x.term, *[const(p) for p in perm]), shape=nsh, orig=x.orig, labels=x.labels, loc=x.loc)
    return V("arr", T("transpose", x.term, axes.term), shape=None, orig=x.orig, labels=x.labels, loc=x.loc)


@reg("numpy.pad")
def np_pad(interp, name, args, kw, st, node):
    b = bind(["array", "pad_width", "mode"], args, kw)
    x = arrv(b["array"])
    pw = b["pad_width"]
    sh = shape(x)
    nsh = None
    wterms = None
    if sh is not None and pw is not None and pw.items is not None:
        items = pw.items
        if len(sh) == 1 and len(items) == 2 and all(i.kind != "tuple" and i.kind != "list" for i in items):
            items = [pw]
        if len(items) == len(sh) and all(i.items is not None and len(i.items) == 2 for i in items):
            nsh = []
            wterms = []
            for d, it in zip(sh, items):
                lo, hi = dim_of(it.items[0]), dim_of(it.items[1])
                if lo is None or hi is None:
                    nsh.append(Dim.unknown("pad"))
                    wterms.append(T("tuple", it.items[0].term, it.items[1].term))
                else:
                    nsh.append(d + lo + hi)
                    wterms.append(T("tuple", A.dim_term(lo), A.dim_term(hi)))
            nsh = tuple(nsh)
    mode = b.get("mode")
    cv = kw.get("constant_values")
    extra_t = []
    if mode is not None and not (mode.has_const and mode.const == "constant"):
        extra_t.append(("mode", mode.term))
    if cv is not None and not (cv.has_const and cv.const in (0, 0.0)):
        extra_t.append(("constant_values", cv.term))
    term = T("pad", x.term, *(wterms if wterms is not None else [pw.term]), *extra_t)
    if nsh is not None and wterms is not None and not extra_t and sh is not None:
        # zero padding at the end of exactly one axis is a concatenation with a zero block
        lows = [t.args[0] for t in wterms]
        highs = [t.args[1] for t in wterms]
        zero = const(0)
        nz = [i for i, h in enumerate(highs) if h != zero]
        if all(lo == zero for lo in lows) and len(nz) <= 1:
            if not nz:
                return x
            ax = nz[0]
            blk = tuple(highs[ax] if i == ax else A.dim_term(d) for i, d in enumerate(sh))
            term = T("stack", const(ax), x.term, T("zeros", *blk))
    return fresh_arr(term, nsh if nsh is not None else (None if sh is None else tuple(Dim.unknown("pad") for _ in sh)), x.labels | (pw.labels if pw is not None else frozenset()))


@reg("numpy.compress")
def np_compress(interp, name, args, kw, st, node):
    """np.compress(m, a, axis=k): the slices of a along axis k where m holds, in order - a[m] / a[:, m]"""
    b = bind(["condition", "a", "axis"], args, kw)
    m, x = arrv(b["condition"]), arrv(b["a"])
    sh = shape(x)
    ax = axis_of(b.get("axis"), None) if b.get("axis") is not None and b["axis"].kind != "none" else None
    if sh is not None and ((ax is None and len(sh) == 1) or ax == 0 or (isinstance(ax, int) and ax == -len(sh))):
        kw.pop("axis", None)
        return A.subscript(interp, x, m, st, node)
    if sh is not None and len(sh) == 2 and ax in (1, -1):
        kw.pop("axis", None)
        return A.subscript(interp, x, interp.mk_tuple([A._full_slice(), m]), st, node)
    return fresh_arr(callterm(name, args, kw), None, _L(*args, *kw.values()))


@reg("numpy.take")
def np_take(interp, name, args, kw, st, node):
    b = bind(["a", "indices", "axis"], args, kw)
    x = arrv(b["a"])
    idx = b["indices"]
    sh = shape(x)
    rank = len(sh) if sh is not None else None
    ax = axis_of(b.get("axis"), rank)
    if (b.get("axis") is None or b["axis"].kind == "none") and rank == 1:
        ax = 0  # take on a vector without an axis
    ish = shape(arrv(idx)) if idx.kind in ("arr", "list", "tuple") else (() if idx.kind in ("int",) else None)
    nsh = None
    if sh is not None and isinstance(ax, int) and ax < len(sh) and ish is not None:
        nsh = tuple(sh[:ax]) + tuple(ish) + tuple(sh[ax + 1:])
    elif sh is not None and isinstance(ax, int) and ax >= len(sh):
        interp.event("shape-conflict", node, st, what="axis-out-of-range", a=tuple(sh), b=(Dim(ax),))
    # canonical: take(a, i, axis=k) == a[(:,)*k + (i,)]
    if isinstance(ax, int):
        sl = T("slice", const(None), const(None), const(None))
        it_t = idx.term
        if idx.kind in ("list", "tuple") and idx.items is not None and len(idx.items) == 1 and A.shape_of(idx.items[0]) == ():
            it_t = T("slice1", idx.items[0].term)  # take(a, [c]): the single element with its axis kept
        it = it_t if ax == 0 else T("tuple", *([sl] * ax), it_t)
        term = T("getitem", x.term, it)
    else:
        term = T("take", x.term, idx.term, b["axis"].term if b.get("axis") is not None else const(None))
    return fresh_arr(term, nsh, x.labels | idx.labels, x.extra if isinstance(x.extra, str) else None)


def _stack(interp, name, args, kw, st, node):
    base = name.rsplit(".", 1)[1]
    seq = args[0]
    axis = kw.get("axis") or (args[1] if len(args) > 1 else None)
    ax = 0
    if base == "hstack":
        ax = 1
    if base == "concatenate" and axis is not None:
        a = axis_of(axis, None)
        ax = a if isinstance(a, int) else "?"
    labels = seq.labels
    if seq.items is not None:
        parts = [arrv(x) for x in seq.items]
        shs = [shape(p) for p in parts]
        if base == "vstack":
            shs = [(Dim(1),) + tuple(s) if s is not None and len(s) == 1 else s for s in shs]
        if base == "hstack" and all(s is not None and len(s) == 1 for s in shs):
            ax = 0
        nsh = None
        if all(s is not None for s in shs) and shs and isinstance(ax, int):
            r = len(shs[0])
            if ax < 0:
                ax += r
            if all(len(s) == r for s in shs) and ax < r:
                tot = Dim(0)
                for s in shs:
                    tot = tot + s[ax]
                ok = True
                for i in range(r):
                    if i == ax:
                        continue
                    for s in shs[1:]:
                        if A.dims_conflict(interp, s[i], shs[0][i]):
                            ok = False
                if not ok:
                    interp.event("shape-conflict", node, st, what=base, a=tuple(shs[0]), b=tuple(shs[-1]))
                nsh = tuple(tot if i == ax else shs[0][i] for i in range(r))
                # a block of extent zero along the joining axis contributes nothing
                keep_ = [p for p, s in zip(parts, shs) if not (s[ax].is_const() and s[ax].c == 0)]
                if keep_ and len(keep_) < len(parts):
                    parts = keep_
                    if len(parts) == 1:
                        return fresh_arr(parts[0].term, nsh, labels, parts[0].extra if isinstance(parts[0].extra, str) else None)
        term = T("stack", const(ax) if isinstance(ax, int) else unk("ax"), *[p.term for p in parts])
        return fresh_arr(term, nsh, labels)
    # symbolic sequence (comprehension or list of unknown length)
    sh = A.shape_of(seq)
    nsh = None
    if isinstance(seq.extra, tuple) and len(seq.extra) == 4 and seq.extra[3] == "arr" and sh is not None and len(sh) == 3 and base in ("concatenate", "vstack") and ax == 0 and all(d.known() for d in sh):
        # the blocks of a 3-D array joined along axis 0: its two leading axes merged
        arr3 = interp.vtab.get(seq.term) or V("arr", seq.term, shape=tuple(sh), orig=frozenset([FRESH]), labels=labels, loc=fresh_id())
        return reshape_to(interp, arr3, [A.int_of_dim(sh[0].mul(sh[1])), A.int_of_dim(sh[2])], st, node)
    if sh is not None and len(sh) >= 2:
        # [ (r, c) blocks ] stacked along axis 0 : rows = n*r
        if base in ("concatenate", "vstack") and ax == 0:
            if len(sh) == 2 and base == "vstack":
                # 1-D rows stacked: the matrix whose rows they are (the form a row-by-row filled buffer has too)
                rows_ = A.as_arr(seq)
                if rows_.kind == "arr" and rows_.shape is not None and len(rows_.shape) == 2:
                    return rows_
                nsh = (sh[0], sh[1])
            elif len(sh) == 2 and base == "concatenate":
                nsh = (sh[0].mul(sh[1]),)
            elif A.is_ragged(sh[1]):
                # blocks of different heights: the total is an opaque integer of the list
                nsh = (Dim(0, {("t", T("totalrows", seq.term)): 1}),) + tuple(sh[2:])
            else:
                nsh = (sh[0].mul(sh[1]),) + tuple(sh[2:])
    elif seq.kind in ("list", "tuple", "unk", "arr"):
        nsh = None
    return fresh_arr(T("stack", const(ax) if isinstance(ax, int) else unk("ax"), seq.term), nsh, labels)


for _n in ("concatenate", "vstack", "hstack"):
    NP["numpy." + _n] = _stack


def _swap_leading_axes(t):
    """the term of a rank-3 broadcast expression with its two leading axes exchanged (None if it is not one)"""
    if not isinstance(t, Term):
        return None
    if t.op == "reshape1" and len(t.args) == 4 and any(isinstance(d_, Term) and d_ == const(1) for d_ in t.args[1:3]):
        return T("reshape1", t.args[0], t.args[2], t.args[1], t.args[3])
    if t.op in ("add", "sub", "mul", "div") and len(t.args) == 2:
        l_, r_ = _swap_leading_axes(t.args[0]), _swap_leading_axes(t.args[1])
        return None if l_ is None or r_ is None else T(t.op, l_, r_)
    if t.op in ("neg", "abs", "sqrt", "square") and len(t.args) == 1:
        x_ = _swap_leading_axes(t.args[0])
        return None if x_ is None else T(t.op, x_)
    return None


@reg("numpy.stack")
def np_stack(interp, name, args, kw, st, node):
    """np.stack of a list of equally shaped matrices built in a loop: the rank-3 array whose leading axis (axis=0)
    or second axis (axis=1) numbers the members"""
    b = bind(["arrays", "axis"], args, kw)
    seq = b["arrays"]
    ax = axis_of(b.get("axis"), None) if b.get("axis") is not None and b["axis"].kind != "none" else 0
    sh = A.shape_of(seq)
    if seq.items is None and sh is not None and len(sh) == 3 and all(d.known() for d in sh) and ax in (0, 1):
        kw.pop("axis", None)
        arr3 = A.as_arr(seq)
        if ax == 0:
            return arr3
        sw = _swap_leading_axes(arr3.term)
        nsh = (sh[1], sh[0], sh[2])
        return fresh_arr(sw if sw is not None else T("transpose", arr3.term, const(1), const(0), const(2)), nsh, arr3.labels)
    return fresh_arr(callterm(name, args, kw), None, _L(*args, *kw.values()))


@reg("numpy.column_stack")
def np_column_stack(interp, name, args, kw, st, node):
    # 1-D arrays become columns, then everything is joined along axis 1
    seq = args[0]
    if seq.items is None:
        sh_ = A.shape_of(seq)
        if sh_ is not None and len(sh_) == 2 and all(d.known() for d in sh_):
            # a list of equally long vectors built in a loop, as columns: the matrix whose rows they are, transposed
            return transpose(interp, A.as_arr(seq), None)
        return fresh_arr(callterm(name, args, kw), None, _L(*args))
    cols = []
    for x in seq.items:
        xv = arrv(x)
        sx = shape(xv)
        if sx is not None and len(sx) == 1:
            xv = reshape_to(interp, xv, [A.int_of_dim(sx[0]), vconst(1)], st, node)
        cols.append(xv)
    return _stack(interp, "numpy.hstack", [(interp.mk_tuple if seq.kind == "tuple" else interp.mk_list)(cols)], {}, st, node)


@reg("numpy.diag", "numpy.diagflat", "numpy.diagonal")
def np_diag(interp, name, args, kw, st, node):
    base = name.rsplit(".", 1)[1]
    x = arrv(args[0])
    sh = shape(x)
    if sh is None:
        return fresh_arr(T("diag?", x.term), None, x.labels)
    if len(sh) == 1 or base == "diagflat":
        n = sh[0] if len(sh) == 1 else Dim.unknown("diagflat")
        return fresh_arr(T("dg", x.term), (n, n), x.labels)
    if len(sh) == 2:
        if A.dims_conflict(interp, sh[0], sh[1]) and False:
            pass
        return V("arr", T("diagof", x.term), shape=(interp.order.dmin(sh[0], sh[1]),), orig=frozenset([FRESH]) if base == "diag" else x.orig, labels=x.labels, loc=fresh_id() if base == "diag" else x.loc)
    return fresh_arr(T("diagof", x.term), tuple(sh[2:]) + (sh[0],), x.labels)


@reg("numpy.diag_indices_from", "numpy.diag_indices")
def np_diag_indices(interp, name, args, kw, st, node):
    return V("diagidx", T("diagidx"), labels=frozenset())


@reg("itertools.count")
def it_count(interp, name, args, kw, st, node):
    b = bind(["start", "step"], args, kw)
    start = b.get("start") if b.get("start") is not None else vconst(0)
    step = b.get("step") if b.get("step") is not None else vconst(1)
    return V("count", T("count", start.term, step.term), items=[start, step], labels=start.labels | step.labels)


@reg("numpy.putmask")
def np_putmask(interp, name, args, kw, st, node):
    # np.putmask(a, mask, v) is a[mask] = v
    b = bind(["a", "mask", "values"], args, kw)
    a_, m_, v_ = arrv(b["a"]), arrv(b["mask"]), b["values"]
    interp.event("mutate", node, st, how="putmask", target=a_, value=v_, targetsrc="arg0")
    new = a_.replace(term=T("store", a_.term, m_.term, v_.term), labels=a_.labels | m_.labels | v_.labels, has_const=False, const_=None, items=None)
    interp.rebind(a_, new, st)
    return vconst(None)


@reg("numpy.put")
def np_put(interp, name, args, kw, st, node):
    b = bind(["a", "ind", "v", "mode"], args, kw)
    a_, ind, v = arrv(b["a"]), b["ind"], b["v"]
    sh = shape(a_)
    interp.event("mutate", node, st, how="put", target=a_, value=v, targetsrc="arg0")
    if sh is not None and len(sh) == 1 and (b.get("mode") is None or b["mode"].kind == "none"):
        # np.put(a, ind, v) on a vector is a[ind] = v
        new = a_.replace(term=T("store", a_.term, arrv(ind).term if ind.kind != "int" else ind.term, v.term), labels=a_.labels | ind.labels | v.labels, has_const=False, const_=None, items=None)
    else:
        new = a_.replace(term=T("put", a_.term, ind.term, v.term), labels=a_.labels | ind.labels | v.labels, has_const=False, const_=None, items=None)
    interp.rebind(a_, new, st)
    return vconst(None)


@reg("numpy.fill_diagonal")
def np_fill_diagonal(interp, name, args, kw, st, node):
    b = bind(["a", "val", "wrap"], args, kw)
    a, v = arrv(b["a"]), b["val"]
    for k_ in ("a", "val"):
        kw.pop(k_, None)
    interp.event("mutate", node, st, how="fill_diagonal", target=a, value=v, targetsrc="arg0")
    new = a.replace(term=T("fill_diagonal", a.term, v.term), labels=a.labels | v.labels)
    interp.rebind(a, new, st)
    return vconst(None)


# -- linear algebra ------------------------------------------------------------------------


def _mat_dims(interp, x):
    sh = shape(x)
    if sh is not None and len(sh) >= 2:
        return sh[-2], sh[-1], tuple(sh[:-2])
    return Dim.unknown("r"), Dim.unknown("c"), ()


@reg("numpy.linalg.svd", "scipy.linalg.svd")
def np_svd(interp, name, args, kw, st, node):
    x = arrv(args[0])
    r, c, batch = _mat_dims(interp, x)
    fm = kw.get("full_matrices") or (args[1] if len(args) > 1 else None)
    full = not (fm is not None and fm.has_const and fm.const is False)
    k = interp.order.dmin(r, c)
    U = fresh_arr(T("svd_U", x.term), batch + (r, r if full else k), x.labels)
    S = fresh_arr(T("svd_S", x.term), batch + (k,), x.labels)
    Vt = fresh_arr(T("svd_Vt", x.term), batch + (c if full else k, c), x.labels)
    return interp.mk_tuple([U, S, Vt])


@reg("scipy.sparse.linalg.svds")
def sp_svds(interp, name, args, kw, st, node):
    b = bind(["A", "k"], args, kw)
    x = arrv(b["A"])
    r, c, _ = _mat_dims(interp, x)
    kv = b.get("k")
    k = dim_of(kv) if kv is not None else Dim(6)
    if k is None:
        k = Dim.unknown("k")
    kt = kv.term if kv is not None else const(6)
    extra = kwterms({kk: v for kk, v in kw.items() if kk not in ("k", "return_singular_vectors", "v0", "random_state", "tol")})
    rsv = kw.get("return_singular_vectors")
    which = rsv.const if rsv is not None and rsv.has_const else True
    labels = x.labels | _L(kv)
    U = fresh_arr(T("svds_U", x.term, kt, extra), (r, k), labels) if which in (True, "u") else vconst(None)
    S = fresh_arr(T("svds_S", x.term, kt, extra), (k,), labels)
    Vt = fresh_arr(T("svds_Vt", x.term, kt, extra), (k, c), labels) if which in (True, "vh") else vconst(None)
    v0_ = kw.get("v0")
    v0sh = shape(v0_) if v0_ is not None and v0_.kind == "arr" else None
    if v0sh is not None and len(v0sh) == 1 and r is not None and c is not None and r.known() and c.known():
        if A.dims_conflict(interp, v0sh[0], interp.order.dmin(r, c)):
            interp.event("shape-conflict", node, st, what="svds: the start vector v0 must have min(A.shape) entries", a=(v0sh[0],), b=(r, c))
    interp.event("rng-sink", node, st, fn="svds", seed=kw.get("random_state"), v0=kw.get("v0"))
    return interp.mk_tuple([U, S, Vt])


@reg("sklearn.utils.extmath.randomized_svd")
def sk_randomized_svd(interp, name, args, kw, st, node):
    b = bind(["M", "n_components"], args, kw)
    x = arrv(b["M"])
    r, c, _ = _mat_dims(interp, x)
    kv = b["n_components"]
    k = dim_of(kv) or Dim.unknown("k")
    labels = x.labels | _L(kv)
    interp.event("rng-sink", node, st, fn="randomized_svd", seed=kw.get("random_state"))
    return interp.mk_tuple([fresh_arr(T("rsvd_U", x.term, kv.term), (r, k), labels), fresh_arr(T("rsvd_S", x.term, kv.term), (k,), labels), fresh_arr(T("rsvd_Vt", x.term, kv.term), (k, c), labels)])


@reg("numpy.linalg.eigh", "scipy.linalg.eigh")
def np_eigh(interp, name, args, kw, st, node):
    x = arrv(args[0])
    r, c, _ = _mat_dims(interp, x)
    if A.dims_conflict(interp, r, c):
        interp.event("shape-conflict", node, st, what="eigh-nonsquare", a=(r, c), b=())
    return interp.mk_tuple([fresh_arr(T("eigh_w", x.term), (r,), x.labels), fresh_arr(T("eigh_v", x.term), (r, r), x.labels)])


@reg("scipy.sparse.linalg.eigsh")
def sp_eigsh(interp, name, args, kw, st, node):
    b = bind(["A", "k"], args, kw)
    x = arrv(b["A"])
    r, c, _ = _mat_dims(interp, x)
    kv = b.get("k")
    k = (dim_of(kv) if kv is not None else Dim(6)) or Dim.unknown("k")
    kt = kv.term if kv is not None else const(6)
    interp.event("rng-sink", node, st, fn="eigsh", seed=None, v0=kw.get("v0"))
    return interp.mk_tuple([fresh_arr(T("eigsh_w", x.term, kt), (k,), x.labels), fresh_arr(T("eigsh_v", x.term, kt), (r, k), x.labels)])


@reg("numpy.linalg.eigvals", "numpy.linalg.eigvalsh")
def np_eigvals(interp, name, args, kw, st, node):
    x = arrv(args[0])
    r, c, _ = _mat_dims(interp, x)
    return fresh_arr(T("eigvals", x.term), (r,), x.labels)


@reg("numpy.linalg.pinv", "scipy.linalg.pinv")
def np_pinv(interp, name, args, kw, st, node):
    x = arrv(args[0])
    r, c, batch = _mat_dims(interp, x)
    rc = kw.get("rcond") or kw.get("rtol") or (args[1] if len(args) > 1 else None)
    term = T("pinv", x.term) if rc is None else T("pinv", x.term, ("rcond", rc.term))
    return fresh_arr(term, batch + (c, r), x.labels)


@reg("numpy.linalg.inv", "scipy.linalg.inv")
def np_inv(interp, name, args, kw, st, node):
    x = arrv(args[0])
    sh = shape(x)
    if sh is not None and len(sh) == 3:
        # a stack of matrices: the inverse of each, i.e. [inv(h) for h in x]
        lid = "C%d" % (interp.cur().loop_depth + 1)
        return fresh_arr(T("comp", lid, T("range", A.dim_term(Dim(0)), A.dim_term(sh[0])), T("inv", T("getitem", x.term, T("lv", lid)))), sh, x.labels)
    return fresh_arr(T("inv", x.term), sh, x.labels)


@reg("scipy.linalg.sqrtm")
def sp_sqrtm(interp, name, args, kw, st, node):
    x = arrv(args[0])
    return fresh_arr(T("sqrtm", x.term), shape(x), x.labels)


@reg("numpy.linalg.lstsq", "scipy.linalg.lstsq")
def np_lstsq(interp, name, args, kw, st, node):
    b = bind(["a", "b", "rcond"], args, kw)
    a, bb = arrv(b["a"]), arrv(b["b"])
    sa, sb = shape(a), shape(bb)
    sh = None
    if sa is not None and sb is not None and len(sa) == 2:
        if A.dims_conflict(interp, sa[0], sb[0]):
            interp.event("shape-conflict", node, st, what="lstsq-rows", a=tuple(sa), b=tuple(sb))
        sh = (sa[1],) + tuple(sb[1:])
    rc = b.get("rcond")
    term = T("lstsq", a.term, bb.term) if rc is None or rc.kind == "none" else T("lstsq", a.term, bb.term, ("rcond", rc.term))
    x = fresh_arr(term, sh, a.labels | bb.labels)
    return interp.mk_tuple([x, vunk("lstsq-res"), vunk("lstsq-rank"), vunk("lstsq-sv")])


@reg("numpy.linalg.matrix_rank")
def np_rank(interp, name, args, kw, st, node):
    x = arrv(args[0])
    return V("int", T("matrix_rank", x.term), shape=(), labels=x.labels)


@reg("numpy.linalg.slogdet")
def np_slogdet(interp, name, args, kw, st, node):
    x = arrv(args[0])
    sh0 = shape(x)
    if sh0 is not None and len(sh0) == 3:
        # a stack of matrices: sign and log-determinant of each
        lid = "C%d" % (interp.cur().loop_depth + 1)
        el = T("getitem", x.term, T("lv", lid))
        rng_ = T("range", A.dim_term(Dim(0)), A.dim_term(sh0[0]))
        return interp.mk_tuple([fresh_arr(T("comp", lid, rng_, T("slogdet_sign", el)), (sh0[0],), x.labels), fresh_arr(T("comp", lid, rng_, T("logdet", el)), (sh0[0],), x.labels)])
    return interp.mk_tuple([V("float", T("slogdet_sign", x.term), shape=(), labels=x.labels), V("float", T("logdet", x.term), shape=(), labels=x.labels)])


@reg("scipy.linalg.orthogonal_procrustes")
def sp_procrustes(interp, name, args, kw, st, node):
    pos = list(args)
    for key in ("A", "B")[len(pos):]:
        if key in kw:
            pos.append(kw.pop(key))
    a, b = arrv(pos[0]), arrv(pos[1])
    sa, sb = shape(a), shape(b)
    sh = None
    if sa is not None and sb is not None and len(sa) == 2 and len(sb) == 2:
        if A.dims_conflict(interp, sa[0], sb[0]) or A.dims_conflict(interp, sa[1], sb[1]):
            interp.event("shape-conflict", node, st, what="procrustes", a=tuple(sa), b=tuple(sb))
        sh = (sa[1], sa[1])
    return interp.mk_tuple([fresh_arr(T("procrustes", a.term, b.term), sh, a.labels | b.labels), V("float", T("procrustes_scale", a.term, b.term), shape=())])


@reg("sklearn.utils.extmath.svd_flip")
def sk_svd_flip(interp, name, args, kw, st, node):
    u, v = arrv(args[0]), arrv(args[1])
    return interp.mk_tuple([fresh_arr(T("svd_flip_u", u.term, v.term), shape(u), u.labels | v.labels), fresh_arr(T("svd_flip_v", u.term, v.term), shape(v), u.labels | v.labels)])


@reg("numpy.logaddexp")
def np_logaddexp(interp, name, args, kw, st, node):
    # log(exp(a) + exp(b)): the log-sum-exp of the two values
    a_, b_ = args[0], args[1]
    sa_, sb_ = shape(arrv(a_)), shape(arrv(b_))
    if sa_ == () and sb_ == ():
        return V("arr", T("lse", T("list", a_.term, b_.term)), shape=(), labels=a_.labels | b_.labels, orig=frozenset([FRESH]), loc=fresh_id())
    return fresh_arr(T("logaddexp", arrv(a_).term, arrv(b_).term), A.broadcast(interp, sa_, sb_, st, node, what="logaddexp"), a_.labels | b_.labels)


@reg("numpy.append")
def np_append(interp, name, args, kw, st, node):
    b = bind(["arr", "values", "axis"], args, kw)
    x, v = arrv(b["arr"]), b["values"]
    if b.get("axis") is None or b["axis"].kind == "none":
        # without an axis both operands are flattened and joined
        vv = arrv(v)
        sv, sx = shape(vv), shape(x)
        tot = None
        if sx is not None and sv is not None and len(sx) <= 1 and len(sv) <= 1:
            tot = ((sx[0] if sx else Dim(1)) + (sv[0] if sv else Dim(1)),)
        vt = T("list", vv.term) if sv == () else vv.term
        xt = T("list", x.term) if sx == () else x.term  # a scalar first operand is a one-element piece
        return fresh_arr(T("stack", const(0), xt, vt), tot or (Dim.unknown("append"),), x.labels | vv.labels)
    return fresh_arr(callterm(name, args, kw), None, _L(*args, *kw.values()))


@reg("scipy.special.logsumexp")
def sp_lse(interp, name, args, kw, st, node):
    x = arrv(args[0])
    return V("arr", T("lse", x.term), shape=(), labels=x.labels, orig=frozenset([FRESH]), loc=fresh_id())


def _float_dtype_of(t):
    """the array whose floating-point type a dtype expression denotes: X.dtype, X.real.dtype,
    np.result_type(X.dtype, <a narrower float type>) - or None"""
    if not isinstance(t, Term):
        return None
    if t.op == "dtype" and len(t.args) == 1:
        return t.args[0]
    if t.op == "call" and t.args and str(t.args[0]).endswith("result_type") and len(t.args) >= 2 and isinstance(t.args[1], tuple) and t.args[1]:
        inner = _float_dtype_of(t.args[1][0])
        rest = [repr(z) for z in t.args[1][1:]]
        if inner is not None and all(("float16" in z or "half" in z) for z in rest):
            return inner
    return None


@reg("numpy.finfo")
def np_finfo(interp, name, args, kw, st, node):
    of = _float_dtype_of(args[0].term) if args else None
    return V("unk", T("finfo", T("dtype", of)) if of is not None else T("finfo"))


@reg("numpy.allclose", "numpy.array_equal", "numpy.isclose")
def np_allclose(interp, name, args, kw, st, node):
    return vbool(callterm(name.rsplit(".", 1)[1], args, kw), _L(*args))


# -- sklearn validation etc ---------------------------------------------------------------------


def _validated(interp, x, copy, st, node, what):
    """check_array-like: returns the array itself (alias) unless copy=True"""
    if x is None or x.kind == "none":
        return x
    xv = arrv(x)
    if xv.kind not in ("arr", "unk"):
        xv = A.as_arr(xv)
    if copy is not None and copy.has_const and copy.const is True:
        interp.event("copy", node, st, source=xv)
        return V("arr", xv.term, shape=shape(xv), orig=frozenset([FRESH]), labels=xv.labels, loc=fresh_id(), extra=xv.extra if isinstance(xv.extra, str) else None)
    if copy is not None and not copy.has_const and copy.kind != "none":
        # copy decided by a caller-supplied flag: opt-in alias
        interp.event("optin-alias", node, st, source=xv, flag=copy)
        return V("arr", xv.term, shape=shape(xv), orig=frozenset([FRESH]) | frozenset(("optin",) + o[1:] if o and o[0] == "in" else o for o in xv.orig), labels=xv.labels, loc=xv.loc)
    if xv.kind == "unk":
        return V("arr", xv.term, shape=None, orig=xv.orig, labels=xv.labels, loc=xv.loc if xv.loc is not None else fresh_id())
    return xv


@reg("sklearn.utils.check_array", "sklearn.utils.validation.check_array")
def sk_check_array(interp, name, args, kw, st, node):
    x = args[0] if args else kw.get("array")
    interp.event("validate", node, st, fn="check_array", source=x, dtype=(repr(kw["dtype"].term) if kw.get("dtype") is not None else None))
    return _validated(interp, x, kw.get("copy"), st, node, "check_array")


@reg("sklearn.utils.check_X_y", "sklearn.utils.validation.check_X_y")
def sk_check_X_y(interp, name, args, kw, st, node):
    b = bind(["X", "y"], args, kw)
    interp.event("validate", node, st, fn="check_X_y", source=b["X"])
    X = _validated(interp, b["X"], kw.get("copy"), st, node, "check_X_y")
    y = _validated(interp, b["y"], kw.get("copy"), st, node, "check_X_y")
    sx, sy = shape(X), shape(y)
    if sx and sy and A.dims_conflict(interp, sx[0], sy[0]):
        interp.event("shape-conflict", node, st, what="check_X_y-rows", a=tuple(sx), b=tuple(sy))
    return interp.mk_tuple([X, y])


@reg("sklearn.metrics.pairwise.check_pairwise_arrays")
def sk_check_pairwise(interp, name, args, kw, st, node):
    b = bind(["X", "Y"], args, kw)
    X = _validated(interp, b["X"], None, st, node, "check_pairwise_arrays")
    Y = b["Y"]
    if Y is None or Y.kind == "none":
        Y = X
    else:
        Y = _validated(interp, Y, None, st, node, "check_pairwise_arrays")
        sx, sy = shape(X), shape(Y)
        if sx and sy and len(sx) == 2 and len(sy) == 2 and A.dims_conflict(interp, sx[1], sy[1]):
            interp.event("shape-conflict", node, st, what="pairwise-features", a=tuple(sx), b=tuple(sy))
    return interp.mk_tuple([X, Y])


@reg("sklearn.utils.validation._check_sample_weight")
def sk_check_sw(interp, name, args, kw, st, node):
    b = bind(["sample_weight", "X"], args, kw)
    sw, X = b["sample_weight"], arrv(b["X"])
    sx = shape(X)
    n = sx[0] if sx else Dim.unknown("n")
    if sw is None or sw.kind == "none":
        return fresh_arr(T("ones", A.dim_term(n)), (n,))
    swv = arrv(sw)
    ssw = shape(swv)
    if ssw is not None and len(ssw) == 1 and A.dims_conflict(interp, ssw[0], n):
        interp.event("shape-conflict", node, st, what="sample_weight-length", a=tuple(ssw), b=(n,))
    return V("arr", swv.term, shape=(n,), orig=swv.orig, labels=swv.labels, loc=swv.loc if swv.loc is not None else fresh_id())


@reg("sklearn.utils.validation.check_is_fitted", "sklearn.utils.check_is_fitted")
def sk_check_is_fitted(interp, name, args, kw, st, node):
    interp.event("check_is_fitted", node, st, obj=args[0] if args else None, attrs=args[1] if len(args) > 1 else kw.get("attributes"))
    return vconst(None)


@reg("sklearn.utils.check_random_state", "sklearn.utils.validation.check_random_state")
def sk_check_random_state(interp, name, args, kw, st, node):
    seed = args[0] if args else vconst(None)
    interp.event("rng-source", node, st, seed=seed)
    return V("ext", T("RandomState", seed.term), extra={"cls": "numpy.random.RandomState", "seed": seed}, labels=seed.labels, orig=frozenset([FRESH]))


@reg("sklearn.utils._arpack._init_arpack_v0")
def sk_arpack_v0(interp, name, args, kw, st, node):
    n = dim_of(args[0]) or Dim.unknown("n")
    rs = args[1] if len(args) > 1 else kw.get("random_state")
    return fresh_arr(T("arpack_v0", A.dim_term(n), rs.term if rs is not None else const(None)), (n,), _L(*args))


@reg("sklearn.utils.safe_mask")
def sk_safe_mask(interp, name, args, kw, st, node):
    return args[1]


@reg("sklearn.utils.indexable")
def sk_indexable(interp, name, args, kw, st, node):
    return interp.mk_list(list(args))


@reg("sklearn.utils.validation._num_samples")
def sk_num_samples(interp, name, args, kw, st, node):
    from .api_numpy import _b_len

    return _b_len(interp, args, kw, st, node)


@reg("sklearn.model_selection.train_test_split")
def sk_train_test_split(interp, name, args, kw, st, node):
    out = []
    labels = _L(*args, *kw.values())
    params = kwterms(kw)
    for i, a in enumerate(args):
        x = arrv(a)
        sh = shape(x)
        rest = tuple(sh[1:]) if sh else ()
        for part, d in (("train", "R"), ("test", "T")):
            out.append(fresh_arr(T("split", part, x.term, params), (Dim.of(d),) + rest, labels | frozenset([part]), x.extra if isinstance(x.extra, str) else None))
    return interp.mk_list(out)


@reg("sklearn.metrics.pairwise.pairwise_kernels")
def sk_pairwise_kernels(interp, name, args, kw, st, node):
    b = bind(["X", "Y", "metric"], args, kw)
    X = arrv(b["X"])
    Y = b.get("Y")
    sx = shape(X)
    n = sx[0] if sx else Dim.unknown("n")
    if Y is None or Y.kind == "none":
        m = n
        yt = X.term
        labels = X.labels
    else:
        Yv = arrv(Y)
        sy = shape(Yv)
        m = sy[0] if sy else Dim.unknown("m")
        yt = Yv.term
        labels = X.labels | Yv.labels
        if sx and sy and len(sx) == 2 and len(sy) == 2 and A.dims_conflict(interp, sx[1], sy[1]):
            interp.event("shape-conflict", node, st, what="kernel-features", a=tuple(sx), b=tuple(sy))
    params = kwterms({k: v for k, v in b.items() if k not in ("X", "Y", "n_jobs", "filter_params") and v is not None})
    metric = b.get("metric")
    if metric is not None and metric.has_const and metric.const == "precomputed":
        return X
    return fresh_arr(T("kernel", X.term, yt, params), (n, m), labels)


@reg("sklearn.metrics.pairwise._euclidean_distances", "sklearn.metrics.pairwise.euclidean_distances", "sklearn.metrics.pairwise_distances")
def sk_euclidean(interp, name, args, kw, st, node):
    b = bind(["X", "Y"], args, kw)
    X, Y = arrv(b["X"]), arrv(b["Y"]) if b.get("Y") is not None and b["Y"].kind != "none" else None
    if Y is None:
        Y = X
    sx, sy = shape(X), shape(Y)
    sq = kw.get("squared")
    term = T("eucl", X.term, Y.term, ("squared", sq.term if sq is not None else const(False)))
    return fresh_arr(term, ((sx[0] if sx else Dim.unknown("n")), (sy[0] if sy else Dim.unknown("m"))), X.labels | Y.labels | _L(sq))


@reg("sklearn.metrics.check_scoring", "sklearn.metrics._scorer.check_scoring")
def sk_check_scoring(interp, name, args, kw, st, node):
    sc = kw.get("scoring") or (args[1] if len(args) > 1 else vconst(None))
    return V("scorer", T("scorer", sc.term), labels=sc.labels, extra=sc)


@reg("sklearn.base.clone", "copy.deepcopy", "copy.copy")
def sk_clone(interp, name, args, kw, st, node):
    x = args[0]
    interp.event("clone", node, st, source=x, fn=name)
    if x.kind == "ext":
        return V("ext", T("clone", x.term), extra=dict(x.extra), labels=x.labels, orig=frozenset([FRESH]))
    if x.kind == "arr":
        return V("arr", x.term, shape=x.shape, orig=frozenset([FRESH]), labels=x.labels, loc=fresh_id())
    return V(x.kind, T("clone", x.term), labels=x.labels, orig=frozenset([FRESH]), extra=x.extra, obj=x.obj, items=x.items)


@reg("warnings.warn")
def w_warn(interp, name, args, kw, st, node):
    interp.event("warn", node, st)
    return vconst(None)


@reg("time.time", "time.perf_counter", "time.monotonic", "time.process_time", "time.time_ns", "time.perf_counter_ns")
def t_time(interp, name, args, kw, st, node):
    interp.event("time-source", node, st)
    return V("float", T("time", fresh_id()), shape=(), labels=frozenset(["time"]))


@reg("tqdm.tqdm", "tqdm.auto.tqdm")
def tq(interp, name, args, kw, st, node):
    return args[0] if args else vunk("tqdm")


@reg("joblib.delayed")
def jl_delayed(interp, name, args, kw, st, node):
    return args[0]


@reg("sklearn.decomposition._pca._infer_dimension")
def sk_infer_dim(interp, name, args, kw, st, node):
    return V("int", callterm("_infer_dimension", args), shape=(), labels=_L(*args))


@reg("scipy.interpolate.interpnd._ndim_coords_from_arrays")
def sp_ndim_coords(interp, name, args, kw, st, node):
    return arrv(args[0])


@reg("numpy.random.seed")
def np_random_seed(interp, name, args, kw, st, node):
    interp.event("global-rng", node, st, fn=name)
    return vconst(None)


def call_external(interp, qual, args, kw, st, node):
    hook = interp.config.get("call_hook")
    if hook is not None:
        r = hook(interp, qual, args, kw, st, node)
        if r is not None:
            return r
    if "**" in kw:
        kw = {k: v for k, v in kw.items() if k != "**"}
    f = NP.get(qual)
    if f is not None:
        try:
            ev0_ = len(interp.events)
            res = f(interp, qual, args, kw, st, node)
            out_ = kw.get("out")
            if out_ is not None and out_.kind == "arr" and isinstance(res, V) and res.kind == "arr" and not any(e_["kind"] == "mutate" and e_.get("how") == "out=" for e_ in interp.events[ev0_:]):
                # out=buffer: the result is written into the caller's buffer, whatever the function
                res = _handle_out(interp, res, out_, st, node)
            consumed = CONSUMED_KW.get(qual)
            if consumed is not None:
                extra = {k: v for k, v in kw.items() if k not in consumed and not (v.kind == "none")}
                if "dtype" in extra and res.kind == "arr":
                    # dtype=float(64) is the working precision; an integer / boolean dtype is a cast
                    tag = _dtype_tag(extra["dtype"])
                    if tag is None or isinstance(tag, str):
                        del extra["dtype"]
                        if tag == "float32":
                            interp.event("shape-conflict", node, st, what="precision-loss: conversion to reduced precision", a=qual, b="float32")
                            res = res.replace(term=T("cast", res.term, tag), extra=tag)
                        elif isinstance(tag, str):
                            res = res.replace(term=T("astype", res.term, tag), extra=tag)
                if extra:
                    res = _with_extra_kw(interp, res, extra)
            return res
        except (IndexError, KeyError, AttributeError, TypeError) as e:
            interp.event("api-error", node, st, fn=qual, err=repr(e))
            return V("unk", callterm(qual, args, kw), labels=_L(*args, *kw.values()))
    if qual.startswith("numpy.random.") or qual.startswith("random."):
        interp.event("global-rng", node, st, fn=qual)
    # external classes
    last = qual.rsplit(".", 1)[-1]
    if last[:1].isupper() or qual in EXT_CLASSES:
        return ext_construct(interp, qual, args, kw, st, node)
    interp.event("opaque-call", node, st, fn=qual)
    labels = _L(*args, *kw.values())
    return V("unk", callterm(qual, args, kw), labels=labels, orig=frozenset([FRESH]))


EXT_CLASSES = {"scipy.interpolate.interp1d"}

# keyword arguments each transfer function takes into account; any other keyword
# argument of these calls changes the value and is therefore kept in the term
CONSUMED_KW = {
    "numpy.linalg.eigh": set(), "scipy.linalg.eigh": set(), "numpy.linalg.eigvals": set(), "numpy.linalg.eigvalsh": set(),
    "numpy.linalg.svd": {"full_matrices"}, "scipy.linalg.svd": {"full_matrices"},
    "numpy.linalg.pinv": {"rcond", "rtol"}, "scipy.linalg.pinv": {"rcond", "rtol"}, "numpy.linalg.inv": set(), "scipy.linalg.inv": set(),
    "numpy.linalg.lstsq": {"rcond"}, "scipy.linalg.lstsq": {"rcond"}, "scipy.sparse.linalg.eigsh": {"k", "v0"},
    "numpy.linalg.matrix_rank": set(), "numpy.linalg.slogdet": set(), "scipy.linalg.orthogonal_procrustes": {"check_finite"}, "scipy.linalg.sqrtm": set(),
    "sklearn.utils.extmath.randomized_svd": {"n_components", "random_state"}, "sklearn.utils.extmath.svd_flip": set(),
    "numpy.argsort": {"axis"}, "numpy.sort": {"axis"}, "numpy.flip": {"axis"}, "numpy.cumsum": set(), "numpy.trace": set(), "numpy.diag": set(), "numpy.diagflat": set(), "numpy.diagonal": set(),
    "numpy.unique": set(), "numpy.setdiff1d": set(), "numpy.where": set(), "numpy.argwhere": set(), "numpy.take": {"axis"}, "numpy.concatenate": {"axis"}, "numpy.vstack": set(), "numpy.hstack": set(),
    "numpy.minimum": {"out"}, "numpy.maximum": {"out"}, "numpy.dot": set(), "numpy.outer": set(), "numpy.linalg.multi_dot": set(), "numpy.transpose": {"axes"}, "numpy.reshape": {"newshape", "shape"},
    "scipy.special.logsumexp": set(), "numpy.searchsorted": {"side"},
}


def _with_extra_kw(interp, res, extra):
    kt = kwterms(extra)
    labels = _L(*extra.values())

    def wrap(v):
        if v.kind in ("tuple", "list") and v.items is not None:
            return (interp.mk_tuple if v.kind == "tuple" else interp.mk_list)([wrap(x) for x in v.items])
        if v.kind in ("arr", "int", "float", "unk", "bool"):
            return v.replace(term=T("with_kw", v.term, kt), labels=v.labels | labels, has_const=False, const_=None)
        return v

    return wrap(res)


EXT_SIGNATURES = {
    "ConvexHull": ["points"], "interp1d": ["x", "y"], "LinearNDInterpolator": ["points", "values"],
}


def ext_construct(interp, qual, args, kw, st, node):
    hook = interp.config.get("call_hook")
    if hook is not None:
        r = hook(interp, "new:" + qual, args, kw, st, node)
        if r is not None:
            return r
    last = qual.rsplit(".", 1)[-1]
    if last == "Parallel":
        pv, bv = kw.get("prefer"), kw.get("backend")
        threads = any(v is not None and v.has_const and v.const in ("threads", "threading") for v in (pv, bv)) or (kw.get("require") is not None and kw["require"].has_const and kw["require"].const == "sharedmem")
        mark = len(interp.events)
        live = set(st.heap.keys())

        def run(interp2, a, k, st2, node2):
            if threads:
                # tasks of a thread pool share every object they capture: a task that fits / writes into such an object
                # races with the other tasks (process workers get private copies)
                shared = [e for e in interp2.events[mark:] if e["kind"] == "mutate-object" or (e["kind"] == "mutate" and not any(o_ == FRESH for o_ in (e["target"].orig or ()))) or (e["kind"] == "setattr" and getattr(e.get("obj"), "id", None) in live)]
                if shared:
                    interp2.event("shape-conflict", node2, st2, what="race: tasks run by a thread pool modify an object they share (" + str(shared[0].get("src"))[:60] + ")", a="Parallel(threads)", b=len(shared))
            return a[0]

        return V("func", T("Parallel"), func=("builtin", run, "Parallel"))
    sig = EXT_SIGNATURES.get(last)
    if sig and kw:
        # leading parameters given by keyword are the positional ones (ConvexHull(points=P) is ConvexHull(P))
        args, kw = list(args), dict(kw)
        while len(args) < len(sig) and sig[len(args)] in kw:
            args.append(kw.pop(sig[len(args)]))
    labels = _L(*args, *kw.values())
    interp.event("ext-new", node, st, cls=qual, args=args, kwargs=kw)
    return V("ext", T("new", last, tuple(a.term for a in args), kwterms(kw)), extra={"cls": qual, "args": list(args), "kwargs": dict(kw)}, labels=labels, orig=frozenset([FRESH]))


def opaque_call(interp, fv, args, kw, st, node):
    labels = fv.labels | _L(*args, *kw.values())
    if fv.kind == "ext":
        # calling an external object (interpolator, ...)
        cls = fv.extra.get("cls", "") if isinstance(fv.extra, dict) else ""
        sh = None
        if cls.endswith("interp1d") or cls.endswith("LinearNDInterpolator"):
            vals = fv.extra.get("kwargs", {}).get("values") or (fv.extra.get("args") or [None, None])[1]
            x = arrv(args[0])
            sx, sv = shape(x), shape(vals) if vals is not None else None
            if sx and sv:
                # interp1d (axis 0): query shape + value shape without the sample axis;
                # LinearNDInterpolator: the last query axis holds the coordinates
                sh = (tuple(sx) if cls.endswith("interp1d") else tuple(sx[:-1])) + tuple(sv[1:])
        return fresh_arr(T("apply", fv.term, tuple(a.term for a in args), kwterms(kw)), sh, labels)
    return V("unk", T("apply", fv.term, tuple(a.term for a in args), kwterms(kw)), labels=labels, orig=frozenset([FRESH]))


def call_scorer(interp, sv, args, kw, st, node):
    """sklearn scorer protocol: scorer(estimator, X, y_true) = score_func(y_true, estimator.predict(X))"""
    est, X, y_true = args[0], args[1], args[2]
    pred = None
    if est.kind == "obj" and est.obj.cls is not None:
        m = est.obj.cls.find_method("predict")
        if m is not None:
            from .interp import Closure

            pred = interp.call_function(Closure(m, self_v=est, cls=m.cls), [X], {}, st, node)
    if pred is None:
        pred = ext_method(interp, est, "predict", [X], {}, st, node)
    sp, sy = shape(pred), shape(y_true)
    if sp is not None and sy is not None:
        if len(sp) == len(sy):
            for a, b in zip(sp, sy):
                if A.dims_conflict(interp, a, b):
                    interp.event("shape-conflict", node, st, what="scorer y_true vs y_pred", a=tuple(sy), b=tuple(sp))
                    break
    interp.event("scorer-call", node, st, y_true=y_true, y_pred=pred, scorer=sv)
    return V("float", T("score", sv.term, ("y_true", y_true.term), ("y_pred", pred.term)), shape=(), labels=y_true.labels | pred.labels)


# ---------------------------------------------------------------------------
# attributes and methods
# ---------------------------------------------------------------------------

ARRAY_METHODS = {"sum", "mean", "min", "max", "any", "all", "reshape", "copy", "astype", "dot", "flatten", "ravel", "tolist", "transpose", "std", "var", "argmax", "argmin", "argsort", "cumsum", "fill", "sort", "conj", "squeeze", "item", "prod", "nonzero", "round", "clip", "diagonal", "trace", "view", "swapaxes", "conjugate", "repeat", "take"}

_METHOD_TO_NP = {"sum": "numpy.sum", "mean": "numpy.mean", "min": "numpy.min", "max": "numpy.max", "any": "numpy.any", "all": "numpy.all", "std": "numpy.std", "var": "numpy.var", "argmax": "numpy.argmax", "argmin": "numpy.argmin", "argsort": "numpy.argsort", "cumsum": "numpy.cumsum", "prod": "numpy.prod", "dot": "numpy.dot", "ravel": "numpy.ravel", "flatten": "numpy.ravel", "trace": "numpy.trace", "diagonal": "numpy.diagonal", "round": "numpy.round", "nonzero": "numpy.nonzero", "conj": "numpy.conj", "take": "numpy.take"}


def attribute(interp, base, name, st, node):
    if base.kind in ("arr", "int", "float", "bool") or (base.kind in ("unk",) and name in ("T", "shape", "ndim", "size", "real")):
        x = base
        sh = shape(x)
        if name == "T":
            if x.kind != "arr":
                x = V("arr", x.term, shape=sh, orig=x.orig, labels=x.labels, loc=x.loc if x.loc is not None else fresh_id())
            return transpose(interp, x)
        if name == "shape":
            if sh is not None:
                return V("tuple", T("shape", x.term), items=[A.int_of_dim(d, x.labels) if d.known() else V("int", T("shapeof", x.term, const(i)), shape=(), labels=x.labels) for i, d in enumerate(sh)], labels=x.labels)
            return V("tuple", T("shape", x.term), labels=x.labels)
        if name == "ndim":
            if sh is not None:
                return vconst(len(sh))
            return V("int", T("ndim", x.term), shape=(), labels=x.labels)
        if name == "size":
            if sh is not None:
                tot = Dim(1)
                for d in sh:
                    tot = tot.mul(d)
                if tot.known():
                    return A.int_of_dim(tot, x.labels)
            # the number of entries of a vector is its length
            return V("int", T("len" if (sh is not None and len(sh) == 1) else "size", x.term), shape=(), labels=x.labels)
        if name == "real":
            return x
        if name == "dtype":
            return V("unk", T("dtype", x.term), orig=x.orig)
        if name in ("base", "strides", "flags", "ctypes", "data") and x.kind == "arr" and (any(isinstance(o_, tuple) and o_ and o_[0] in ("in", "optin") for o_ in (x.orig or ())) or _is_input_selection(x.term)):
            # how the caller happens to store an array (a view of what, which strides) is not part of its value:
            # a result that branches on it differs between equal inputs
            interp.event("shape-conflict", node, st, what="layout-dependence: the memory layout / ownership of the caller's array is consulted", a=name, b=repr(x.term)[:60])
        if name == "flat" and x.kind == "arr":
            # a flat view of the same storage: writing through it writes the array
            tot = None
            if sh is not None:
                tot = Dim(1)
                for d in sh:
                    tot = tot.mul(d)
            return V("arr", T("ravel", x.term), shape=(tot,) if tot is not None else None, orig=x.orig, labels=x.labels, loc=x.loc if x.loc is not None else fresh_id(), extra=x.extra if isinstance(x.extra, str) else None)
        if name in ARRAY_METHODS:
            return V("func", T("method", x.term, name), func=("bound", _array_method(x, name), name))
    if base.kind in ("list",):
        return V("func", T("method", base.term, name), func=("bound", _list_method(base, name), name))
    if base.kind == "dict":
        return V("func", T("method", base.term, name), func=("bound", _dict_method(base, name), name))
    if base.kind == "objdict":
        return V("func", T("method", base.term, name), func=("bound", A.objdict_method(base, name), name))
    if base.kind == "str":
        return V("func", T("method", base.term, name), func=("bound", lambda i, a, k, s, n: V("str", unk("str"), labels=_L(base, *a)), name))
    if base.kind == "tuple":
        return V("func", T("method", base.term, name), func=("bound", lambda i, a, k, s, n: vunk("tuplemethod"), name))
    if base.kind == "ext":
        return ext_attribute(interp, base, name, st, node)
    if base.kind == "range" or base.kind in ("enumerate", "zip"):
        return vunk("iterattr")
    if base.kind in ("func", "scorer"):
        return V("unk", T("attr", base.term, name))
    if base.kind == "none":
        interp.event("none-attr", node, st, attr=name)
        return vunk("none." + name)
    # unknown object: could be array or estimator
    if name in ARRAY_METHODS and name not in ("copy", "transform", "fit", "predict"):
        x = base
        return V("func", T("method", x.term, name), func=("bound", _array_method(V("arr", x.term, shape=None, orig=x.orig, labels=x.labels, loc=x.loc if x.loc is not None else fresh_id()), name), name))
    if name == "copy":
        def cp(interp2, a, k, st2, node2):
            interp2.event("copy", node2, st2, source=base)
            return base.replace(orig=frozenset([FRESH]), loc=fresh_id())

        return V("func", T("method", base.term, name), func=("bound", cp, name))
    return ext_attribute(interp, base, name, st, node)


def _array_method(x, name):
    def f(interp, args, kw, st, node):
        if name == "copy":
            interp.event("copy", node, st, source=x)
            return V("arr", x.term, shape=shape(x), orig=frozenset([FRESH]), labels=x.labels, loc=fresh_id(), extra=x.extra if isinstance(x.extra, str) else None, dim=x.dim)
        if name == "astype":
            tag = _dtype_tag(args[0] if args else kw.get("dtype"))
            if not isinstance(tag, str):
                tag = None
            cp = kw.get("copy")
            dtv_ = args[0] if args else kw.get("dtype")
            if cp is not None and cp.has_const and cp.const is False and tag is None and not (dtv_ is not None and isinstance(dtv_.term, Term) and dtv_.term.op == "dtype"):
                return x
            cur = x.extra if isinstance(x.extra, str) else None
            term = x.term
            if tag is None and dtv_ is not None and isinstance(dtv_.term, Term) and dtv_.term.op == "dtype":
                # astype(A.dtype): harmless when A is itself computed in floating point; when A is (a selection of)
                # raw caller data and the value is computed, an integer input truncates it
                db_, xb_ = dtype_base(dtv_.term), dtype_base(x.term)
                if isinstance(db_, Term) and db_.op == "sym" and xb_ != db_ and any(isinstance(o_, tuple) and o_ and o_[0] in ("in", "optin") for o_ in (dtv_.orig or ())):
                    interp.event("shape-conflict", node, st, what="precision-loss: a computed value is cast to the dtype of the caller's raw array (an integer input truncates it)", a=repr(dtv_.term)[:60], b=repr(x.term)[:60])
                    term = T("cast", x.term, dtv_.term)
            if tag == "float32":
                interp.event("shape-conflict", node, st, what="precision-loss: cast to reduced precision", a="astype", b="float32")
                term = T("cast", x.term, tag)
            elif tag in ("int", "bool") and cur not in ("int", "bool") and x.kind == "arr" and not (cur is None and _index_like(x)):
                # float -> int / bool changes values (truncation / != 0): not an identity
                term = T("cast", x.term, tag)
            return V("arr", term, shape=shape(x), orig=frozenset([FRESH]), labels=x.labels, loc=fresh_id(), extra=tag)
        if name == "reshape":
            dims_v = args
            if len(args) == 1 and args[0].kind in ("tuple", "list") and args[0].items is not None:
                dims_v = args[0].items
            xx = x if x.kind == "arr" else A.as_arr(x)
            return reshape_to(interp, xx, dims_v, st, node)
        if name in ("transpose", "swapaxes"):
            if not args:
                return transpose(interp, x)
            ax = args[0] if len(args) == 1 else interp.mk_tuple(list(args))
            return transpose(interp, x, ax)
        if name == "tolist":
            return V("list", x.term, labels=x.labels, extra=("comp", None, shape(x)), loc=fresh_id(), orig=frozenset([FRESH]))
        if name in ("fill", "sort"):
            interp.event("mutate", node, st, how="." + name, target=x, value=args[0] if args else None, targetsrc="recv")
            new = x.replace(term=T(name, x.term, *[a.term for a in args]))
            interp.rebind(x, new, st)
            return vconst(None)
        if name == "squeeze":
            return np_squeeze(interp, "numpy.squeeze", [x] + list(args), kw, st, node)
        if name in ("item", "squeeze", "view", "conjugate", "clip", "repeat"):
            if name == "item":
                return V("float", x.term, shape=(), labels=x.labels)
            return V("arr", T(name, x.term, *[a.term for a in args]), shape=None if name in ("squeeze", "repeat") else shape(x), orig=x.orig if name in ("squeeze", "view") else frozenset([FRESH]), labels=x.labels, loc=x.loc)
        q = _METHOD_TO_NP.get(name)
        if q is not None:
            return call_external(interp, q, [x] + list(args), kw, st, node)
        return V("unk", T("mcall", x.term, name, tuple(a.term for a in args), kwterms(kw)), labels=x.labels | _L(*args))

    return f


def _list_method(lst, name):
    def f(interp, args, kw, st, node):
        if name == "append":
            if lst.items is not None:
                new = interp.mk_list(lst.items + [args[0]])
                new.loc = lst.loc
            else:
                new = lst.replace(term=T("append", lst.term, args[0].term), labels=lst.labels | args[0].labels, extra=("last", args[0]))
            new.orig = lst.orig
            interp.event("mutate", node, st, how=".append", target=lst, value=args[0], targetsrc="recv")
            interp.rebind(lst, new, st)
            return vconst(None)
        if name == "extend":
            if lst.items is not None and args[0].items is not None:
                new = interp.mk_list(lst.items + list(args[0].items))
                new.loc = lst.loc
            else:
                new = lst.replace(term=T("extend", lst.term, args[0].term), labels=lst.labels | args[0].labels, items=None)
            new.orig = lst.orig
            interp.event("mutate", node, st, how=".extend", target=lst, value=args[0], targetsrc="recv")
            interp.rebind(lst, new, st)
            return vconst(None)
        if name == "copy":
            return lst.replace(loc=fresh_id(), orig=frozenset([FRESH]))
        if name in ("pop", "sort", "reverse", "insert", "remove", "clear"):
            interp.event("mutate", node, st, how="." + name, target=lst, value=None, targetsrc="recv")
            new = lst.replace(term=T(name, lst.term, *[a.term for a in args]), items=None)
            interp.rebind(lst, new, st)
            return vunk("list." + name)
        if name == "index":
            return V("int", T("index", lst.term, args[0].term), shape=())
        if name == "count":
            return V("int", T("countof", lst.term, args[0].term), shape=())
        return vunk("list." + name)

    return f


def _dict_method(d, name):
    def f(interp, args, kw, st, node):
        if name == "get":
            if d.items is not None and args and args[0].has_const:
                if args[0].const in d.items:
                    return d.items[args[0].const]
                return args[1] if len(args) > 1 else vconst(None)
            return V("unk", T("dictget", d.term, *[a.term for a in args]), labels=d.labels)
        if name == "pop":
            if d.items is not None and args and args[0].has_const:
                items = dict(d.items)
                val = items.pop(args[0].const, args[1] if len(args) > 1 else vunk("pop"))
                new = interp.mk_dict(items)
                new.loc = d.loc
                interp.event("mutate", node, st, how=".pop", target=d, value=None, targetsrc="recv")
                interp.rebind(d, new, st)
                return val
            return vunk("dict.pop")
        if name == "keys":
            if d.items is not None:
                return interp.mk_list([vconst(k) for k in d.items])
        if name == "values":
            if d.items is not None:
                return interp.mk_list(list(d.items.values()))
        if name == "items":
            if d.items is not None:
                return interp.mk_list([interp.mk_tuple([vconst(k), v]) for k, v in d.items.items()])
        if name in ("keys", "values", "items"):
            return V("list", T("dict" + name, d.term), labels=d.labels, orig=d.orig)
        if name == "copy":
            return d.replace(loc=fresh_id())
        if name == "update":
            if d.items is not None and args and args[0].kind == "dict" and args[0].items is not None:
                items = dict(d.items)
                items.update(args[0].items)
                new = interp.mk_dict(items)
                new.loc = d.loc
                interp.rebind(d, new, st)
                return vconst(None)
        return vunk("dict." + name)

    return f


# -- external objects (sklearn estimators, RandomState, KFold, hull ...) -------------------------

MUTATING_METHODS = {"fit", "fit_transform", "set_params", "partial_fit", "add_points", "fit_predict", "_check_n_features", "seed", "shuffle"}
KNOWN_SELF_METHODS = {"_validate_data", "get_params", "set_params", "_check_n_features", "_check_feature_names", "_more_tags", "_get_tags", "fit", "transform", "_get_support_mask", "__init__", "_validate_params", "__sklearn_tags__", "fit_transform", "score", "_more_tags"}


def is_known_method(name):
    return name in KNOWN_SELF_METHODS


def ext_attribute(interp, base, name, st, node):
    """attribute of an external / unknown object: either a data attribute or a method"""
    if name == "eps" and isinstance(base.term, Term) and base.term.op == "finfo" and len(base.term.args) == 1:
        return V("float", T("eps", base.term.args[0]), shape=(), labels=base.labels)
    info = base.extra if isinstance(base.extra, dict) else {}
    hook = interp.config.get("attr_hook")
    if hook is not None:
        r = hook(interp, base, name, st, node)
        if r is not None:
            return r
    fit = info.get("fit")
    if name in ("coef_", "dual_coef_", "intercept_") and fit is not None:
        X, y = fit
        sx, sy = shape(X), shape(y)
        sh = None
        if sx is not None and sy is not None:
            if name == "coef_":
                sh = tuple(sy[1:]) + (sx[1],) if len(sx) == 2 else None
            elif name == "dual_coef_":
                sh = (sx[0],) + tuple(sy[1:])
            else:
                sh = tuple(sy[1:])
        return V("arr", T("attr", base.term, name), shape=sh, orig=frozenset([("extattr",)]), labels=base.labels, loc=fresh_id())
    cls = info.get("cls", "")
    if cls.endswith("ConvexHull") and name in ("equations", "simplices", "vertices", "points"):
        pts = (info.get("args") or [None])[0]
        sp = shape(pts) if pts is not None else None
        F = Dim.of("F")
        if name == "equations":
            sh = (F, sp[1] + 1) if sp else None
        elif name == "simplices":
            sh = (F, sp[1]) if sp else None
        elif name == "points":
            sh = sp
        else:
            sh = (Dim.unknown("nv"),)
        return V("arr", T("attr", base.term, name), shape=sh, orig=frozenset([("extattr",)]), labels=base.labels, loc=fresh_id(), extra="int" if name in ("simplices", "vertices") else None)
    if name.endswith("_") and not name.startswith("_") or name in ("alpha", "kernel", "gamma", "degree", "coef0", "kernel_params", "fit_intercept"):
        # data attribute of an estimator
        return V("unk", T("attr", base.term, name), labels=base.labels, orig=frozenset([("extattr",)]))
    return V("func", T("method", base.term, name), func=("extmethod", base, name))


def _built_with(t, names, value):
    """does the constructor call inside the estimator's term carry keyword name=value?"""
    seen = set()
    stack = [t]
    while stack:
        x = stack.pop()
        if isinstance(x, tuple):
            if len(x) == 2 and isinstance(x[0], str) and x[0] in names and isinstance(x[1], Term) and x[1].op == "const" and x[1].args[0] is value:
                return True
            stack.extend(x)
            continue
        if not isinstance(x, Term) or id(x) in seen:
            continue
        seen.add(id(x))
        if x.op == "kw" and len(x.args) == 2 and x.args[0] in names and isinstance(x.args[1], Term) and x.args[1].op == "const" and x.args[1].args[0] is value:
            return True
        if x.op in ("new", "clone", "after"):
            stack.extend(x.args)
    return False


def ext_method(interp, recv, name, args, kw, st, node):
    hook = interp.config.get("method_hook")
    if hook is not None:
        r = hook(interp, recv, name, args, kw, st, node)
        if r is not None:
            return r
    if "**" in kw:
        kw = {k: v for k, v in kw.items() if k != "**"}
    labels = recv.labels | _L(*args, *kw.values())
    # methods of sklearn bases called on a repository object
    if recv.kind == "obj":
        return self_ext_method(interp, recv, name, args, kw, st, node)
    info = dict(recv.extra) if isinstance(recv.extra, dict) else {"cls": "?"}
    cls = info.get("cls", "?")
    interp.event("extcall", node, st, recv=recv, method=name, args=list(args), kwargs=dict(kw))
    if cls.endswith("RandomState") or cls.endswith("Generator"):
        interp.event("rng-draw", node, st, recv=recv, method=name)
        if name not in ("get_state", "__getstate__", "bit_generator"):
            # a draw advances the stream: the generator's state is threaded through its term, so a later
            # draw from the same object is a different value and carries what the earlier draws depended on
            adv = V("ext", T("drawn", recv.term, name, tuple(a.term for a in args), kwterms(kw)), extra=info, labels=labels, orig=recv.orig, loc=recv.loc)
            interp.rebind(recv, adv, st)
        if name in ("randint", "integers", "choice", "permutation"):
            size = kw.get("size") or (args[1] if name == "randint" and len(args) > 2 else None)
            hi = dim_of(args[0]) if args else None
            term = T("rng", recv.term, name, tuple(a.term for a in args), kwterms(kw))
            if size is None or size.kind == "none":
                if name in ("permutation",):
                    return fresh_arr(term, (hi if hi is not None else Dim.unknown("perm"),), labels, "int")
                v = V("int", term, shape=(), labels=labels)
                v.extra = ("index", Dim(0), hi if hi is not None else Dim.unknown("hi"))
                return v
            dims = dims_from_shape_arg(size)
            return fresh_arr(term, dims, labels, "int")
        return fresh_arr(T("rng", recv.term, name, tuple(a.term for a in args), kwterms(kw)), None, labels)
    term = T("mcall", recv.term, name, tuple(a.term for a in args), kwterms(kw))
    if name in ("append", "extend") and recv.kind == "unk" and recv.term.op == "getitem":
        # container[k].append(x): the element of a symbolic container is updated in place
        base_t, key_t = recv.term.args
        newt = T("store", base_t, key_t, T(name, recv.term, *[a.term for a in args]))
        hit = False
        for env in st.frames:
            for k_, x_ in list(env.items()):
                if x_.term == base_t:
                    env[k_] = x_.replace(term=newt, labels=x_.labels | labels, items=None)
                    hit = True
        for attrs in st.heap.values():
            for k_, x_ in list(attrs.items()):
                if x_.term == base_t:
                    attrs[k_] = x_.replace(term=newt, labels=x_.labels | labels, items=None)
                    hit = True
        interp.event("mutate", node, st, how="." + name, target=recv, value=args[0] if args else None, targetsrc="element of container", rebound=hit)
        return vconst(None)
    if name in MUTATING_METHODS:
        if name in ("fit", "fit_transform", "partial_fit", "fit_predict"):
            b = bind(["X", "y"], args, kw)
            info["fit"] = (arrv(b["X"]) if b["X"] is not None else None, arrv(b["y"]) if b.get("y") is not None and b["y"].kind != "none" else None)
            if info["fit"][1] is None:
                info["fit"] = (info["fit"][0], None)
        new = V("ext", T("after", recv.term, name, tuple(a.term for a in args), kwterms(kw)), extra=info, labels=labels, orig=recv.orig, loc=recv.loc)
        interp.event("mutate-object", node, st, target=recv, method=name, args=list(args))
        interp.rebind(recv, new, st)
        if name in ("fit", "fit_transform", "partial_fit") and args and args[0].kind == "arr" and _built_with(recv.term, ("copy_X", "copy"), False):
            # an sklearn estimator built with copy_X=False / copy=False may centre / scale its training matrix in place:
            # whatever reads that matrix afterwards does not read the data that was passed in
            x_ = args[0]
            interp.event("mutate", node, st, how="copy_X=False", target=x_, value=None, targetsrc="training matrix of an estimator built with copy_X=False")
            interp.rebind(x_, x_.replace(term=T("overwritten", x_.term, recv.term)), st)
        # rebind only swaps identical bindings; unknown-kind receivers are handled the same way
        if name in ("fit", "partial_fit", "set_params"):
            return new
        if name in ("fit_transform",):
            x = args[0] if args else None
            return fresh_arr(T("mcall", new.term, "transform", (x.term,) if x is not None else (), ()), shape(arrv(x)) if x is not None else None, labels)
        return V("unk", term, labels=labels)
    fit = info.get("fit")
    if name in ("predict", "decision_function"):
        x = arrv(args[0]) if args else None
        sh = None
        if fit is not None and x is not None and fit[1] is not None:
            sx, sy = shape(x), shape(fit[1])
            if sx is not None and sy is not None:
                sh = (sx[0],) + tuple(sy[1:])
                sfx = shape(fit[0])
                if sfx is not None and len(sfx) == 2 and len(sx) == 2 and A.dims_conflict(interp, sfx[1], sx[1]):
                    interp.event("shape-conflict", node, st, what="predict-features", a=tuple(sfx), b=tuple(sx))
        return fresh_arr(term, sh, labels)
    if name in ("transform", "inverse_transform"):
        x = arrv(args[0]) if args else None
        sh = shape(x) if x is not None else None
        cp = kw.get("copy")
        v = fresh_arr(term, sh, labels)
        return v
    if name == "split":
        return V("ext", term, extra={"cls": "splitgen", "args": list(args)}, labels=labels)
    if name in ("get_params",):
        return V("dict", term, labels=labels)
    if name in ("score", "score_samples"):
        return fresh_arr(term, None, labels)
    if name == "_validate_data":
        b = bind(["X", "y"], args, kw)
        if b.get("y") is not None and b["y"].kind != "none":
            return interp.mk_tuple([arrv(b["X"]), arrv(b["y"])])
        return arrv(b["X"])
    return V("unk", term, labels=labels, orig=frozenset([FRESH]))


def self_ext_method(interp, recv, name, args, kw, st, node):
    """a method of an external base class invoked on a repository object"""
    labels = _L(*args, *kw.values())
    if name == "_validate_data":
        b = bind(["X", "y"], args, kw)
        interp.event("validate", node, st, fn="_validate_data", source=b["X"], dtype=(repr(kw["dtype"].term) if kw.get("dtype") is not None else None))
        X = _validated(interp, b["X"], kw.get("copy"), st, node, "_validate_data")
        reset = kw.get("reset")
        # sklearn's feature-count bookkeeping: reset=True (default) records n_features_in_, reset=False
        # compares with the recorded value (if any) and raises on a mismatch
        sx_ = shape(X) if X is not None and X.kind == "arr" else None
        hp_ = st.heap.get(recv.obj.id) if recv.kind == "obj" else None
        if sx_ is not None and len(sx_) == 2 and hp_ is not None:
            if reset is None or (reset.has_const and reset.const is True):
                hp_["n_features_in_"] = A.int_of_dim(sx_[1])
            elif reset.has_const and reset.const is False:
                cur_ = hp_.get("n_features_in_")
                if cur_ is not None and cur_.kind == "int" and cur_.dim is not None and A.dims_conflict(interp, cur_.dim, sx_[1]):
                    interp.event("shape-conflict", node, st, what="_validate_data(reset=False): the data has another number of features than the recorded n_features_in_ (sklearn raises)", a=(cur_.dim,), b=tuple(sx_))
        if b.get("y") is not None and b["y"].kind not in ("none",) and not (b["y"].has_const and b["y"].const == "no_validation"):
            y = _validated(interp, b["y"], kw.get("copy"), st, node, "_validate_data")
            return interp.mk_tuple([X, y])
        return X
    if name == "__init__":
        return vconst(None)
    if name == "get_params":
        d = {}
        if recv.obj.cls is not None:
            for p in recv.obj.cls.init_params():
                if p in st.heap.get(recv.obj.id, {}):
                    d[p] = st.heap[recv.obj.id][p]
        return interp.mk_dict(d)
    if name in ("_check_n_features", "_check_feature_names", "_validate_params"):
        return vconst(None)
    if name in ("_more_tags", "_get_tags", "__sklearn_tags__"):
        return V("dict", unk("tags"))
    if name == "fit_transform":
        # TransformerMixin.fit_transform(X, y=None, **fit_params) = fit(X, y, **fit_params).transform(X)
        from .interp import Closure

        m = recv.obj.cls.find_method("fit")
        t = recv.obj.cls.find_method("transform")
        if m is not None and t is not None and not getattr(m.cls, "external", False):
            interp.call_function(Closure(m, self_v=recv, cls=m.cls), list(args), dict(kw), st, node)
            return interp.call_function(Closure(t, self_v=recv, cls=t.cls), [args[0]], {}, st, node)
    if name == "score":
        return V("float", T("mcall", recv.term, "score", tuple(a.term for a in args), kwterms(kw)), shape=(), labels=labels)
    interp.event("ext-self-method", node, st, method=name, recv=recv)
    return V("unk", T("mcall", recv.term, name, tuple(a.term for a in args), kwterms(kw)), labels=labels | recv.labels)


# -- einsum: the contraction patterns this code base could plausibly use, translated to the
#    matmul / Hadamard / trace / diagonal vocabulary ------------------------------------------------


@reg("numpy.einsum")
def np_einsum(interp, name, args, kw, st, node):
    def opaque():
        interp.event("opaque-call", node, st, fn=name)
        return V("unk", callterm(name, args, kw), labels=_L(*args, *kw.values()), orig=frozenset([FRESH]))

    if not args or not (args[0].has_const and isinstance(args[0].const, str)) or [k for k in kw if k not in ("order", "optimize", "casting")]:
        return opaque()
    kw = {}
    spec = args[0].const.replace(" ", "")
    if "..." in spec:
        # an ellipsis stands for the axes of an operand that carry no letter: written out with fresh letters
        lhs0, _, out0 = spec.partition("->")
        subs0 = lhs0.split(",")
        ops0 = [arrv(a) for a in args[1:]]
        if len(ops0) != len(subs0) or "->" not in spec:
            return opaque()
        extra_n = 0
        for o_, s_ in zip(ops0, subs0):
            if "..." in s_:
                if shape(o_) is None:
                    return opaque()
                extra_n = max(extra_n, len(shape(o_)) - len(s_.replace("...", "")))
        fresh = [c for c in "ZYXWVU" if c not in spec][:extra_n]
        if len(fresh) < extra_n:
            return opaque()
        def expand(s_, o_=None):
            if "..." not in s_:
                return s_
            k_ = extra_n if o_ is None else len(shape(o_)) - len(s_.replace("...", ""))
            return s_.replace("...", "".join(fresh[extra_n - k_:]) if k_ else "")
        spec = ",".join(expand(s_, o_) for s_, o_ in zip(subs0, ops0)) + "->" + expand(out0)
    if "." in spec:
        return opaque()
    lhs, _, out = spec.partition("->")
    subs = lhs.split(",")
    if "->" not in spec:
        allidx = "".join(subs)
        out = "".join(sorted(c for c in set(allidx) if allidx.count(c) == 1))
    ops = [arrv(a) for a in args[1:]]
    if len(ops) != len(subs) or any(shape(o) is None or len(shape(o)) != len(s) for o, s in zip(ops, subs)):
        return opaque()
    mm = lambda a, b: A.binop(interp, "matmul", a, b, st, node)
    had = lambda a, b: A.binop(interp, "mul", a, b, st, node)
    tr = lambda a: transpose(interp, a)

    def red(v, idx, keep):
        """sum over the indices of v that are not kept"""
        drop = [i for i, c in enumerate(idx) if c not in keep]
        if not drop:
            return v, idx
        if len(drop) == len(idx):
            return NP["numpy.sum"](interp, "numpy.sum", [v], {}, st, node), ""
        if len(idx) == 2 and len(drop) == 1:
            return NP["numpy.sum"](interp, "numpy.sum", [v], {"axis": vconst(drop[0])}, st, node), idx[1 - drop[0]]
        return None, None

    # a batch index (leading in the output and in every operand carrying it, rank-3 operands):
    # the contraction is done for every matrix of the stack
    if out and any(len(s) == 3 for s in subs) and all(len(s) <= 3 for s in subs) and all((out[0] not in s) or (len(s) == 3 and s[0] == out[0] and s.count(out[0]) == 1) for s in subs) and all(len(s) != 3 or s[0] == out[0] for s in subs) and hasattr(interp, "vtab"):
        k_ = out[0]
        sub2 = ",".join(s[1:] if k_ in s else s for s in subs) + "->" + out[1:]
        r = A.lift3_map(interp, ops, lambda els: np_einsum(interp, name, [vconst(sub2)] + list(els), {}, st, node), st, want_rank=len(out) - 1)
        if r is not None:
            return r
    # repeated index inside one operand: diagonal / trace
    cur, ci = ops[0], subs[0]
    if len(ops) == 1 and len(ci) == 3 and ci[0] == ci[2] and ci[1] != ci[0] and out == ci[1] + ci[0] and hasattr(interp, "vtab") and shape(cur)[1].known():
        # 'jij->ij': row i is the diagonal of the square slice T[:, i, :]
        used_ = {x_.args[0] for x_ in cur.term.walk() if isinstance(x_, Term) and x_.op in ("lv", "comp", "loop") and x_.args}
        lid = next(("C%d" % k_ for k_ in range(interp.cur().loop_depth + 1, interp.cur().loop_depth + 9) if "C%d" % k_ not in used_), None)
        if lid is not None:
            n_ = shape(cur)[1]
            i_ = V("int", T("lv", lid), shape=(), labels=cur.labels, extra=("index", Dim(0), n_))
            full_ = A._full_slice()
            sl_ = A.subscript(interp, cur, interp.mk_tuple([full_, i_, full_]), st, node)
            if shape(sl_) is not None and len(shape(sl_)) == 2:
                el_ = np_diag(interp, "numpy.diagonal", [sl_], {}, st, node)
                return A.mk_lifted(interp, lid, n_, el_)
    if len(ci) == 2 and ci[0] == ci[1]:
        if len(ops) != 1:
            return opaque()
        if out == ci[0]:
            return np_diag(interp, "numpy.diagonal", [cur], {}, st, node)
        if out == "":
            return np_trace(interp, "numpy.trace", [cur], {}, st, node)
        return opaque()
    if any(len(set(s)) != len(s) for s in subs) or len(set(out)) != len(out) or any(len(s) > 2 for s in subs):
        return opaque()
    # elementwise pattern over one index pair: 'i,ij,ij->j' = sum_i w_i A_ij B_ij  (vectors scale rows / columns)
    mats = [s for s in subs if len(s) == 2]
    if len(ops) >= 3 and mats and all(len(s) in (1, 2) for s in subs) and len(set("".join(subs))) == 2 and set(out) <= set(mats[0]) and len(set(out)) == len(out):
        ij = mats[0]
        cur = None
        for v_, s_ in zip(ops, subs):
            if len(s_) == 2:
                m_ = v_ if s_ == ij else tr(v_)
                cur = m_ if cur is None else had(cur, m_)
        for v_, s_ in zip(ops, subs):
            if len(s_) == 1:
                dgv = fresh_arr(T("dg", v_.term), (shape(v_)[0], shape(v_)[0]), v_.labels)
                cur = mm(dgv, cur) if s_ == ij[0] else mm(cur, dgv)
        cur, ci = red(cur, ij, set(out))
        if cur is not None:
            if ci == out:
                return cur
            if len(ci) == 2 and ci[::-1] == out:
                return tr(cur)
    # an index that occurs in one operand only and not in the output is summed inside that operand
    ops, subs = list(ops), list(subs)
    for k in range(len(ops)):
        others = set(out) | set("".join(s for j, s in enumerate(subs) if j != k))
        if any(c not in others for c in subs[k]) and len(ops) > 1:
            v_, i_ = red(ops[k], subs[k], others)
            if v_ is None:
                return opaque()
            ops[k], subs[k] = v_, i_
    cur, ci = ops[0], subs[0]
    for k in range(1, len(ops)):
        nxt, ni = ops[k], subs[k]
        later = set(out) | set("".join(subs[k + 1:]))
        if len(ci) == 1 and len(ni) == 1 and ci != ni and ci in later and ni in later:
            # u_i v_j: the outer product
            cur, ci = NP["numpy.outer"](interp, "numpy.outer", [cur, nxt], {}, st, node), ci + ni
            continue
        if set(ci) == set(ni) and len(ci) == len(ni):
            b = nxt if ni == ci else tr(nxt)
            gone = [c for c in ci if c not in later]
            if len(ci) == 2 and len(gone) == 2:
                # sum_ij A_ij B_ij = trace(A B^T)
                cur, ci = np_trace(interp, "numpy.trace", [mm(cur, tr(b))], {}, st, node), ""
            elif len(ci) == 2 and len(gone) == 1:
                # sum_j A_ij B_ij = diag(A B^T)_i ; sum_i A_ij B_ij = diag(A^T B)_j
                # (written as a sum of elementwise products: the reductions know how to go inside merged pair axes)
                # a matrix product among the operands keeps the quadratic-form spelling diag(A B^T)
                prod_ = any(isinstance(z.term, Term) and z.term.op == "matmul" for z in (cur, b))
                if gone[0] == ci[1]:
                    cur, ci = (np_diag(interp, "numpy.diagonal", [mm(cur, tr(b))], {}, st, node) if prod_ else call_external(interp, "numpy.sum", [had(cur, b)], {"axis": vconst(1)}, st, node)), ci[0]
                else:
                    cur, ci = (np_diag(interp, "numpy.diagonal", [mm(tr(cur), b)], {}, st, node) if prod_ else call_external(interp, "numpy.sum", [had(cur, b)], {"axis": vconst(0)}, st, node)), ci[1]
            elif len(ci) == 1 and len(gone) == 1:
                cur, ci = mm(cur, b), ""
            else:
                cur = had(cur, b)
            continue
        shared = [c for c in ci if c in ni]
        if len(shared) == 1 and shared[0] in later and len(ni) == 1 and len(ci) == 2:
            # a vector scaling one axis of the running matrix; the index stays for a later contraction
            dgv = fresh_arr(T("dg", nxt.term), (shape(nxt)[0], shape(nxt)[0]), nxt.labels)
            cur = mm(dgv, cur) if ci[0] == ni else mm(cur, dgv)
            continue
        if len(shared) == 1 and shared[0] in later and len(ci) == 1 and len(ni) == 2:
            dgv = fresh_arr(T("dg", cur.term), (shape(cur)[0], shape(cur)[0]), cur.labels)
            cur, ci = (mm(dgv, nxt) if ni[0] == ci else mm(nxt, dgv)), ni
            continue
        if len(shared) != 1 or shared[0] in later:
            return opaque()
        c = shared[0]
        a_, b_ = cur, nxt
        if len(ci) == 2 and len(ni) == 2:
            if ci[0] == c:
                a_, ci = tr(a_), ci[::-1]
            if ni[1] == c:
                b_, ni = tr(b_), ni[::-1]
            cur, ci = mm(a_, b_), ci[0] + ni[1]
        elif len(ci) == 2 and len(ni) == 1:
            if ci[0] == c:
                a_, ci = tr(a_), ci[::-1]
            cur, ci = mm(a_, b_), ci[0]
        elif len(ci) == 1 and len(ni) == 2:
            if ni[1] == c:
                b_, ni = tr(b_), ni[::-1]
            cur, ci = mm(a_, b_), ni[1]
        else:
            return opaque()
    cur, ci = red(cur, ci, set(out))
    if cur is None:
        return opaque()
    if ci == out:
        return cur
    if len(ci) == 2 and ci[::-1] == out:
        return tr(cur)
    return opaque()
