"""Library table: builtins, numpy, scipy, sklearn, joblib transfer functions."""
from __future__ import annotations

import ast

from . import apitable as A
from .terms import FRESH, Dim, T, Term, V, const, fresh_id, sym, unk, varr, vbool, vconst, vfloat, vint, vunk

L = None  # set below (labels union) to avoid circular import at module load


def _L(*vs):
    out = frozenset()
    for v in vs:
        if v is not None:
            out |= v.labels
    return out


def kwterms(kw, drop=()):
    return tuple(sorted(((k, v.term) for k, v in kw.items() if k not in drop and not (v.kind == "none")), key=lambda x: x[0]))


def callterm(name, pos, kw=None, drop=()):
    return T("call", name, tuple(v.term for v in pos), kwterms(kw or {}, drop))


def bind(sig, args, kw):
    out = {}
    for i, p in enumerate(sig):
        if i < len(args):
            out[p] = args[i]
        elif p in kw:
            out[p] = kw[p]
        else:
            out[p] = None
    for k, v in kw.items():
        if k not in out:
            out[k] = v
    return out


def dim_of(v):
    """Dim of an integer-valued abstract value or None"""
    if v is None:
        return None
    if v.has_const and isinstance(v.const, int) and not isinstance(v.const, bool):
        return Dim(v.const)
    if v.kind == "int" and v.dim is not None:
        return v.dim
    if v.kind == "arr" and v.shape == () and v.dim is not None:
        return v.dim
    if v.kind == "int" and v.term.op not in ("unk",):
        # symbolic integer without a size meaning: opaque (rigid) atom keyed by its term
        return Dim(0, {("t", v.term): 1})
    return None


def dims_from_shape_arg(v):
    """np.zeros(shape) argument -> tuple of Dim or None"""
    if v is None:
        return None
    if v.kind in ("tuple", "list") and v.items is not None:
        out = []
        for x in v.items:
            d = dim_of(x)
            out.append(d if d is not None else Dim.unknown("shapearg"))
        return tuple(out)
    d = dim_of(v)
    if d is not None:
        return (d,)
    if v.kind in ("int", "unk", "arr", "float"):
        return (Dim.unknown("shapearg"),)
    return None


def shape_terms(dims, fallback=None):
    """terms of a shape; unknown dims fall back to the term of the requesting argument"""
    out = []
    for i, d in enumerate(dims):
        if d.known():
            out.append(A.dim_term(d))
        elif fallback is not None and i < len(fallback):
            out.append(fallback[i])
        else:
            out.append(T("unkdim"))
    return tuple(out)


def shape_arg_terms(v):
    if v is None:
        return None
    if v.kind in ("tuple", "list") and v.items is not None:
        return [x.term for x in v.items]
    return [v.term]


def fresh_arr(term, shape, labels=frozenset(), dtype=None):
    return V("arr", term, shape=shape, orig=frozenset([FRESH]), labels=labels, loc=fresh_id(), extra=dtype)


def axis_of(v, rank):
    if v is None or v.kind == "none":
        return None
    if v.has_const and isinstance(v.const, int):
        a = v.const
        if rank is not None and a < 0:
            a += rank
        return a
    return "?"


def reduce_shape(interp, sh, axis, keepdims, st, node):
    if sh is None:
        # a full reduction is a scalar whatever the (unknown) input shape is
        if (axis is None or axis.kind == "none") and not (keepdims is not None and keepdims.has_const and keepdims.const):
            return ()
        return None
    rank = len(sh)
    ax = axis_of(axis, rank)
    kd = bool(keepdims is not None and keepdims.has_const and keepdims.const)
    if ax is None:
        return tuple(Dim(1) for _ in sh) if kd else ()
    if ax == "?":
        if axis is not None and axis.kind == "tuple" and axis.items is not None:
            axes = [axis_of(x, rank) for x in axis.items]
            if all(isinstance(a, int) for a in axes):
                return tuple(d for i, d in enumerate(sh) if i not in axes)
        return None
    if ax >= rank or ax < 0:
        interp.event("shape-conflict", node, st, what="axis-out-of-range", a=tuple(sh), b=(Dim(ax),))
        return None
    if kd:
        return tuple(Dim(1) if i == ax else d for i, d in enumerate(sh))
    return tuple(d for i, d in enumerate(sh) if i != ax)


def axis_term(axis, rank):
    """canonical non-negative axis term"""
    if axis is None or axis.kind == "none":
        return None
    a = axis_of(axis, rank)
    if isinstance(a, int):
        return const(a)
    return axis.term


# ---------------------------------------------------------------------------
# builtins
# ---------------------------------------------------------------------------


def _b_len(interp, args, kw, st, node):
    x = args[0]
    if x.kind == "maybe":
        x = x.items[0] if x.items else V("unk", x.term, labels=x.labels, orig=x.orig)
    if x.kind in ("list", "tuple", "dict", "set") and x.items is not None:
        return vconst(len(x.items))
    if x.kind == "str" and x.has_const:
        return vconst(len(x.const))
    sh = A.shape_of(x)
    if sh is not None and len(sh) >= 1:
        return A.int_of_dim(sh[0], x.labels) if sh[0].known() else V("int", T("len", x.term), shape=(), labels=x.labels)
    d = A.length_dim(interp, x)
    if d is not None and d.known():
        return A.int_of_dim(d, x.labels)
    return V("int", T("len", x.term), shape=(), labels=x.labels)


def _b_range(interp, args, kw, st, node):
    if len(args) == 1:
        lo, hi = Dim(0), dim_of(args[0])
    elif len(args) >= 2:
        lo, hi = dim_of(args[0]), dim_of(args[1])
    else:
        lo = hi = None
    labels = _L(*args)
    if lo is None or hi is None:
        return V("range", T("range", *[a.term for a in args]), labels=labels, extra=None)
    return V("range", T("range", A.dim_term(lo), A.dim_term(hi)), labels=labels, extra=(lo, hi))


def _b_enumerate(interp, args, kw, st, node):
    start = args[1] if len(args) > 1 else kw.get("start")
    if start is not None and not (start.has_const and start.const == 0):
        # enumerate(x, s): the counter starts at s
        return V("enumerate", T("enumerate", args[0].term, start.term), items=[args[0]], labels=args[0].labels | start.labels, orig=args[0].orig, extra=("start", start))
    return V("enumerate", T("enumerate", args[0].term), items=[args[0]], labels=args[0].labels, orig=args[0].orig)


def _b_zip(interp, args, kw, st, node):
    return V("zip", T("zip", *[a.term for a in args]), items=list(args), labels=_L(*args))


TYPE_KINDS = {
    "numbers.Integral": ("int",),
    "numbers.Real": ("int", "float"),
    "numbers.Number": ("int", "float"),
    "int": ("int",),
    "float": ("float",),
    "str": ("str",),
    "bool": ("bool",),
    "list": ("list",),
    "tuple": ("tuple",),
    "dict": ("dict",),
    "numpy.ndarray": ("arr",),
}


def _type_names(tv):
    """names of a class value used in isinstance"""
    if tv.kind == "tuple" and tv.items is not None:
        out = []
        for x in tv.items:
            r = _type_names(x)
            if r is None:
                return None
            out.extend(r)
        return out
    if tv.kind == "cls":
        c = tv.extra
        return [("cls", c)]
    if tv.kind == "mod" and tv.extra[0] == "ext":
        return [("ext", tv.extra[1])]
    if tv.kind == "func" and isinstance(tv.func, tuple) and tv.func[0] == "builtin":
        return [("ext", tv.func[2])]
    return None


def _b_isinstance(interp, args, kw, st, node):
    x, tv = args[0], args[1]
    if x.kind == "maybe":
        x = x.items[0] if x.items else V("unk", x.term, labels=x.labels, orig=x.orig)
    names = _type_names(tv)
    if names is None:
        return vbool(T("isinstance", x.term, tv.term), x.labels)
    res = False
    unknown = False
    for tag, n in names:
        if tag == "ext":
            kinds = TYPE_KINDS.get(n)
            if kinds is not None:
                if n in ("int", "float") and x.kind == n and "numpy-scalar" in x.labels and n == "int":
                    continue  # a numpy integer (np.int64, ...) is numbers.Integral but not a builtin int
                if x.kind in kinds or (x.kind == "bool" and "int" in kinds and n == "numbers.Integral"):
                    res = True
                elif x.kind in ("unk",) or (x.kind == "arr" and x.shape == () and kinds[0] in ("int", "float")):
                    unknown = True
                continue
            # external class
            if x.kind == "ext" and isinstance(x.extra, dict):
                q = x.extra.get("cls", "")
                short = n.rsplit(".", 1)[-1]
                if q.rsplit(".", 1)[-1] == short:
                    res = True
                elif q == "?":
                    unknown = True
                else:
                    supers = EXT_SUPERS.get(q.rsplit(".", 1)[-1], ())
                    if short in supers:
                        res = True
            elif x.kind in ("unk",):
                unknown = True
        else:
            c = n
            if x.kind == "obj" and x.obj.cls is not None:
                if c in x.obj.cls.mro():
                    res = True
            elif x.kind == "unk":
                unknown = True
    if res:
        return vconst(True)
    if unknown:
        return vbool(T("isinstance", x.term, tv.term), x.labels)
    return vconst(False)


EXT_SUPERS = {"Ridge": ("LinearModel",), "RidgeCV": ("LinearModel",), "LinearRegression": ("LinearModel",)}


def _b_hasattr(interp, args, kw, st, node):
    o, name = args[0], args[1]
    if o.kind == "obj" and name.has_const:
        attrs = st.heap.get(o.obj.id, {})
        interp.event("hasattr", node, st, attr=name.const, obj=o.obj)
        if name.const in attrs:
            v = attrs[name.const]
            if v.kind == "undef":
                return vconst(False)
            if v.kind == "maybe":
                _, cond, undef_first = v.extra
                return vbool(T("not", cond) if undef_first else cond, v.labels)
            return vconst(True)
        if o.obj.cls is not None and o.obj.cls.find_method(name.const) is not None:
            return vconst(True)
        pre = interp.config.get("attr_default")
        if pre is not None:
            v = pre(interp, o, name.const, st)
            if v is not None:
                return vconst(True)
        if interp.config.get("hasattr_unknown") and name.const in interp.config["hasattr_unknown"]:
            return vbool(T("hasattr", o.term, const(name.const)))
        return vconst(False)
    return vbool(T("hasattr", o.term, name.term), o.labels)


def _b_getattr(interp, args, kw, st, node):
    o, name = args[0], args[1]
    if name.has_const and len(args) > 2 and o.kind == "obj":
        has = _b_hasattr(interp, [o, name], {}, st, node)
        t = interp.truth(has)
        if t is True:
            return interp.getattr_v(o, name.const, st, node)
        if t is False:
            return args[2]
        return interp.phi(has.term, interp.getattr_v(o, name.const, st, node), args[2])
    if name.has_const:
        return interp.getattr_v(o, name.const, st, node)
    return V("unk", T("getattr", o.term, name.term), labels=o.labels | name.labels)


def _b_setattr(interp, args, kw, st, node):
    o, name, v = args[:3]
    if o.kind == "obj" and name.has_const:
        st.heap[o.obj.id][name.const] = v
        interp.event("setattr", node, st, attr=name.const, obj=o.obj, value=v)
    return vconst(None)


UNDEF = V("undef", T("undef"))


def _b_delattr(interp, args, kw, st, node):
    o, name = args[0], args[1]
    if o.kind == "obj" and name.has_const:
        st.heap[o.obj.id][name.const] = UNDEF
        interp.event("delattr", node, st, attr=name.const, obj=o.obj)
    return vconst(None)


def _b_vars(interp, args, kw, st, node):
    o = args[0]
    if o.kind == "obj":
        return V("objdict", T("vars", o.term), obj=o.obj, labels=o.labels, extra=o)
    return V("unk", T("vars", o.term), labels=o.labels)


def objdict_method(base, name):
    """methods of vars(obj) / obj.__dict__: they read, write or delete the object's attributes"""
    o = base.extra

    def call(interp, args, kw, st, node):
        if name in ("pop", "get") and args and args[0].has_const and isinstance(args[0].const, str):
            dflt = args[1] if len(args) > 1 else vconst(None)
            has = _b_hasattr(interp, [o, args[0]], {}, st, node)
            t = interp.truth(has)
            cur = interp.getattr_v(o, args[0].const, st, node) if t is not False else None
            if name == "pop":
                heap = st.heap[o.obj.id]
                if t is True or t is False:
                    if t is True:
                        heap[args[0].const] = UNDEF
                        interp.event("delattr", node, st, attr=args[0].const, obj=o.obj)
                else:
                    heap[args[0].const] = UNDEF
                    interp.event("delattr", node, st, attr=args[0].const, obj=o.obj)
            if t is True:
                return cur
            if t is False:
                return dflt
            return interp.phi(has.term, cur, dflt)
        if name == "setdefault" and len(args) == 2 and args[0].has_const:
            has = _b_hasattr(interp, [o, args[0]], {}, st, node)
            if interp.truth(has) is False:
                _b_setattr(interp, [o, args[0], args[1]], {}, st, node)
                return args[1]
            if interp.truth(has) is True:
                return interp.getattr_v(o, args[0].const, st, node)
        return V("unk", unk("objdict." + name), labels=base.labels)

    return call


def _b_callable(interp, args, kw, st, node):
    x = args[0]
    if x.kind in ("func", "cls", "scorer"):
        return vconst(True)
    if x.kind in ("str", "none", "int", "float", "arr", "list", "tuple", "dict", "bool"):
        return vconst(False)
    return vbool(T("callable", x.term), x.labels)


def _minmax(name):
    def f(interp, args, kw, st, node):
        if len(args) == 1:
            x = args[0]
            if x.kind in ("list", "tuple") and x.items is not None and x.items:
                args = x.items
            else:
                sh = A.shape_of(x)
                if sh is not None and x.kind == "tuple" and False:
                    pass
                # min(X.shape)
                return V("float" if x.kind != "tuple" else "int", T("reduce_" + name, x.term), shape=(), labels=x.labels)
        if all(a.has_const and isinstance(a.const, (int, float)) for a in args):
            return vconst((min if name == "min" else max)(a.const for a in args))
        drop = float("inf") if name == "min" else float("-inf")
        kept = [a for a in args if not (a.has_const and isinstance(a.const, float) and a.const == drop)]
        if kept and len(kept) < len(args):
            # min(inf, c) is c
            args = kept
            if len(args) == 1:
                return args[0]
        ds = [dim_of(a) for a in args]
        if all(d is not None for d in ds):
            acc = ds[0]
            for d in ds[1:]:
                acc = interp.order.dmin(acc, d) if name == "min" else interp.order.dmax(acc, d)
            return A.int_of_dim(acc, _L(*args))
        ts = sorted((a.term for a in args), key=repr)
        kind = "int" if all(a.kind == "int" for a in args) else "float"
        return V(kind, T(name, *ts), shape=(), labels=_L(*args))

    return f


def _b_sum(interp, args, kw, st, node):
    x = args[0]
    if x.kind in ("list", "tuple") and x.items is not None:
        if not x.items:
            return vconst(0)
        acc = x.items[0]
        for y in x.items[1:]:
            acc = A.binop(interp, "add", acc, y, st, node)
        return acc
    sh = A.shape_of(x)
    # python sum over the first axis
    rsh = tuple(sh[1:]) if sh else None
    kind = "arr" if rsh not in ((), None) else ("int" if x.extra == "bool" else "float")
    ax = const(0) if (sh is not None and len(sh) > 1) else None
    term = T("sum", x.term) if ax is None else T("sum", x.term, ("axis", ax))
    if x.extra == "bool":
        # count of a mask
        return V("int", T("count", x.term), shape=(), labels=x.labels, extra=("count", x))
    if kind == "arr":
        return fresh_arr(term, rsh, x.labels)
    return V(kind, term, shape=(), labels=x.labels)


def _b_abs(interp, args, kw, st, node):
    x = args[0]
    if x.has_const and isinstance(x.const, (int, float)):
        return vconst(abs(x.const))
    if x.kind == "arr":
        return fresh_arr(T("abs", x.term), x.shape, x.labels)
    if x.kind == "int":
        return V("int", T("abs", x.term), shape=(), labels=x.labels)
    return V("float" if x.kind in ("float",) else x.kind, T("abs", x.term), shape=x.shape, labels=x.labels)


def _b_int(interp, args, kw, st, node):
    if not args:
        return vconst(0)
    x = args[0]
    if x.has_const and isinstance(x.const, (int, float)):
        return vconst(int(x.const))
    if x.kind == "int":
        return x
    return V("int", T("int", x.term), shape=(), labels=x.labels, dim=None, extra=x.extra if isinstance(x.extra, tuple) and x.extra and x.extra[0] == "index" else None)


def _b_float(interp, args, kw, st, node):
    x = args[0] if args else vconst(0.0)
    if x.has_const and isinstance(x.const, (int, float)):
        return vconst(float(x.const))
    return V("float", x.term, shape=(), labels=x.labels)


def _b_bool(interp, args, kw, st, node):
    x = args[0]
    t = interp.truth(x)
    if t is not None:
        return vconst(t)
    return vbool(T("truthy", x.term), x.labels)


def _b_list(interp, args, kw, st, node):
    if not args:
        return interp.mk_list([])
    x = args[0]
    items = A.iter_items(interp, x, st)
    if items is not None:
        return interp.mk_list(items)
    return V("list", x.term, labels=x.labels, orig=x.orig, loc=fresh_id(), extra=x.extra if x.kind == "list" else ("comp", None, A.shape_of(x)))


def _b_tuple(interp, args, kw, st, node):
    if not args:
        return interp.mk_tuple([])
    items = A.iter_items(interp, args[0], st)
    if items is not None:
        return interp.mk_tuple(items)
    return V("tuple", args[0].term, labels=args[0].labels)


def _b_dict(interp, args, kw, st, node):
    if not args:
        return interp.mk_dict(dict(kw))
    x = args[0]
    if x.kind == "dict" and x.items is not None:
        d = dict(x.items)
        d.update(kw)
        return interp.mk_dict(d)
    return V("dict", unk("dict"), labels=x.labels)


def _b_sorted(interp, args, kw, st, node):
    x = args[0]
    sh = A.shape_of(x)
    return V("list", T("sorted", x.term), labels=x.labels, extra=("comp", None, sh), orig=frozenset([FRESH]), loc=fresh_id())


def _b_all(name):
    def f(interp, args, kw, st, node):
        x = args[0]
        if x.kind in ("list", "tuple") and x.items is not None:
            ts = [interp.truth(i) for i in x.items]
            if name == "all":
                if any(t is False for t in ts):
                    return vconst(False)
                if all(t is True for t in ts):
                    return vconst(True)
            else:
                if any(t is True for t in ts):
                    return vconst(True)
                if all(t is False for t in ts):
                    return vconst(False)
        return vbool(T(name, x.term), x.labels)

    return f


def _b_next(interp, args, kw, st, node):
    x = args[0]
    return V("unk", T("next", x.term), labels=x.labels)


def _b_print(interp, args, kw, st, node):
    return vconst(None)


def _b_type(interp, args, kw, st, node):
    return V("unk", T("type", args[0].term), labels=args[0].labels)


def _b_str(interp, args, kw, st, node):
    if args and args[0].has_const:
        return vconst(str(args[0].const))
    return V("str", unk("str"), labels=_L(*args))


def _b_round(interp, args, kw, st, node):
    x = args[0]
    if x.has_const and isinstance(x.const, (int, float)) and len(args) == 1:
        return vconst(round(x.const))
    return V("float", T("round", x.term), shape=(), labels=x.labels)


def _b_reversed(interp, args, kw, st, node):
    x = args[0]
    if x.items is not None and x.kind in ("list", "tuple"):
        return interp.mk_list(list(reversed(x.items)))
    return V("list", T("reversed", x.term), labels=x.labels)


def _b_iter(interp, args, kw, st, node):
    return args[0]


def _b_slice(interp, args, kw, st, node):
    none = vconst(None)
    if len(args) == 1:
        lo, hi, step = none, args[0], none
    else:
        lo, hi = args[0], args[1]
        step = args[2] if len(args) > 2 else none
    if lo.has_const and lo.const == 0:
        lo = none
    return V("slice", T("slice", lo.term, hi.term, step.term), items=[lo, hi, step], labels=_L(lo, hi, step))


_BUILTINS = {
    "len": _b_len, "range": _b_range, "enumerate": _b_enumerate, "zip": _b_zip, "isinstance": _b_isinstance,
    "hasattr": _b_hasattr, "getattr": _b_getattr, "setattr": _b_setattr, "callable": _b_callable, "delattr": _b_delattr, "vars": _b_vars,
    "min": _minmax("min"), "max": _minmax("max"), "sum": _b_sum, "abs": _b_abs, "int": _b_int, "float": _b_float,
    "bool": _b_bool, "list": _b_list, "tuple": _b_tuple, "dict": _b_dict, "sorted": _b_sorted, "all": _b_all("all"),
    "any": _b_all("any"), "next": _b_next, "print": _b_print, "type": _b_type, "str": _b_str, "repr": _b_str,
    "round": _b_round, "reversed": _b_reversed, "iter": _b_iter, "set": _b_list, "slice": _b_slice,
}

_EXC = ("ValueError", "TypeError", "NotImplementedError", "ImportError", "IndexError", "KeyError", "RuntimeError", "Exception", "AttributeError", "UserWarning", "DeprecationWarning", "FutureWarning", "RuntimeWarning", "AssertionError", "StopIteration")


def builtin(name):
    f = _BUILTINS.get(name)
    if f is not None:
        return V("func", T("builtin", name), func=("builtin", f, name))
    if name in _EXC:
        return V("mod", T("ext", "builtins." + name), extra=("ext", "builtins." + name))
    if name == "NotImplemented":
        return V("unk", T("NotImplemented"))
    return None


def ext_constant(q):
    if q in ("numpy.inf", "numpy.Inf", "numpy.infty"):
        return vconst(float("inf"))
    if q == "numpy.nan":
        return V("float", const("nan"), shape=())
    if q == "numpy.pi":
        return V("float", sym("pi"), shape=(), extra=("range", 3.14, 3.15, False, False))
    if q == "numpy.newaxis":
        return vconst(None)
    if q == "numpy.e":
        return V("float", sym("e"), shape=())
    return None
