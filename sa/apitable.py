"""Transfer functions for operators, builtins, numpy/scipy/sklearn calls.

Every function takes the interpreter and abstract values and returns an abstract
value; shapes are computed symbolically, conflicts are logged as events of kind
'shape-conflict' (the result is poisoned to unknown dims so one defect yields one
report).  Unknown library calls fall back to an opaque term ``call(qual, ...)``.
Split over apitable.py (core), api_numpy.py (library table).
"""
from __future__ import annotations

import ast

from .terms import FRESH, Dim, T, Term, V, const, fresh_id, unk, varr, vbool, vconst, vfloat, vint, vunk


def L(*vs):
    out = frozenset()
    for v in vs:
        if v is not None:
            out |= v.labels
    return out


NUMERIC = ("arr", "int", "float", "bool")


def dim_term(d):
    d = Dim.of(d)
    if d.is_const():
        return const(d.c)
    return T("dim", d)


def is_ragged(d):
    return isinstance(d, Dim) and d.c == 0 and len(d.lin) == 1 and isinstance(d.lin[0][0], tuple) and d.lin[0][0][0] == "ragged"


def ragged_fix(shape, elem_term):
    """a list of arrays whose extent differs per element (marked ('ragged', name) in the list's
    shape): the extent of one element is an opaque integer tied to that element"""
    if shape is None:
        return None
    return tuple(Dim(0, {("t", T("rowsof", elem_term)): 1}) if is_ragged(d) else d for d in shape)


def ragged(name):
    return Dim(0, {("ragged", name): 1})


def int_of_dim(d, labels=frozenset()):
    d = Dim.of(d)
    if d.is_const():
        return vconst(d.c)
    return V("int", T("dim", d), shape=(), dim=d, labels=labels)


def shape_of(v):
    if v.kind in ("int", "float", "bool"):
        return ()
    if v.kind == "arr":
        return v.shape
    if v.kind in ("list", "tuple"):
        if v.items is not None:
            if not v.items:
                return (Dim(0),)
            subs = [shape_of(x) for x in v.items]
            if all(s is not None for s in subs) and all(s == subs[0] for s in subs):
                return (Dim(len(v.items)),) + tuple(subs[0])
            if all(s is not None for s in subs) and all(len(s) == len(subs[0]) for s in subs):
                return (Dim(len(v.items)),) + tuple(a if all(s[i] == a for s in subs) else Dim.unknown("ragged") for i, a in enumerate(subs[0]))
            return None
        if v.extra and v.extra[0] == "comp":
            return v.extra[2]
    return None


def as_arr(v):
    """view a sequence value as an array value (np.asarray semantics, same term)"""
    if v.kind == "arr":
        return v
    sh = shape_of(v)
    return V("arr", v.term, shape=sh, orig=v.orig or frozenset([FRESH]), labels=v.labels, loc=v.loc if v.loc is not None else fresh_id(), extra=v.extra if isinstance(v.extra, str) else None)


# ---------------------------------------------------------------------------
# shapes
# ---------------------------------------------------------------------------


def dims_conflict(interp, a, b):
    """True iff two dims are definitely different (both rigid)"""
    if a == b:
        return False
    if not a.known() or not b.known():
        return False
    c = interp.order.cmp(a, b)
    if c == 0:
        return False
    if c in (-1, 1):
        return True
    if c in (2, 3):
        return False
    # different rigid linear forms: definite only if no opaque atoms
    for d in (a, b):
        for atom, _ in d.lin:
            if isinstance(atom, tuple):
                return False
    return True


def broadcast(interp, sa, sb, st, node, what="broadcast"):
    if sa is None or sb is None:
        return None
    out = []
    la, lb = len(sa), len(sb)
    n = max(la, lb)
    bad = False
    for i in range(1, n + 1):
        da = sa[-i] if i <= la else Dim(1)
        db = sb[-i] if i <= lb else Dim(1)
        if da == db:
            out.append(da)
        elif da.is_const() and da.c == 1:
            out.append(db)
        elif db.is_const() and db.c == 1:
            out.append(da)
        elif dims_conflict(interp, da, db):
            bad = True
            out.append(Dim.unknown("conflict"))
        else:
            out.append(da if da.known() else db)
    if bad:
        interp.event("shape-conflict", node, st, what=what, a=tuple(sa), b=tuple(sb))
    elif what in ("add", "sub", "mul", "div") and {la, lb} == {1, 2}:
        # an (n, 1) column combined with an (n,) vector silently becomes an (n, n) table
        col, vec = (sa, sb) if la == 2 else (sb, sa)
        if col[1].is_const() and col[1].c == 1 and not col[0].is_const() and col[0] == vec[0]:
            interp.event("shape-conflict", node, st, what=f"{what}: an (n, 1) column against an (n,) vector broadcasts to (n, n)", a=tuple(sa), b=tuple(sb))
    return tuple(reversed(out))


def matmul_shape(interp, sa, sb, st, node):
    if sa is None or sb is None:
        return None
    if len(sa) == 0 or len(sb) == 0:
        return None
    a2 = sa if len(sa) > 1 else (Dim(1),) + tuple(sa)
    b2 = sb if len(sb) > 1 else tuple(sb) + (Dim(1),)
    inner_a, inner_b = a2[-1], b2[-2]
    bad = dims_conflict(interp, inner_a, inner_b)
    if not bad and inner_a != inner_b and inner_a.known() and inner_b.known() and interp.order.cmp(inner_a, inner_b) in (2, 3) and not any(isinstance(at, tuple) for d in (inner_a, inner_b) for at, _ in d.lin):
        # contracted extents that agree only at the boundary of the size regime (1 vs N with
        # N >= 1): a product that exists only for N == 1 is a conflict for "all inputs"
        bad = True
    batch = broadcast(interp, a2[:-2], b2[:-2], st, node, what="matmul-batch")
    if bad:
        interp.event("shape-conflict", node, st, what="matmul-inner", a=tuple(sa), b=tuple(sb))
        return None
    res = tuple(batch) + (a2[-2], b2[-1])
    if len(sa) == 1:
        res = res[:-2] + (res[-1],)
    if len(sb) == 1:
        res = res[:-1]
    return res


OPNAMES = {
    ast.Add: "add", ast.Sub: "sub", ast.Mult: "mul", ast.Div: "div", ast.Pow: "pow", ast.MatMult: "matmul",
    ast.FloorDiv: "floordiv", ast.Mod: "mod", ast.BitOr: "bitor", ast.BitAnd: "bitand", ast.BitXor: "bitxor",
    ast.LShift: "lshift", ast.RShift: "rshift",
}


def _pyop(name, x, y):
    if name == "add":
        return x + y
    if name == "sub":
        return x - y
    if name == "mul":
        return x * y
    if name == "div":
        return x / y
    if name == "pow":
        return x ** y
    if name == "floordiv":
        return x // y
    if name == "mod":
        return x % y
    raise ValueError


def _diag_scaling(a, b, sa, sb, divide):
    """A * v with v broadcast along rows/columns of a matrix == A @ dg(v) / dg(v) @ A"""
    one = const(1)
    def inv(t):
        return T("div", one, t) if divide else t
    if len(sa) == 2 and len(sb) == 1:
        return T("matmul", a.term, T("dg", inv(b.term)))
    if len(sa) == 1 and len(sb) == 2 and not divide:
        return T("matmul", b.term, T("dg", a.term))
    if len(sa) == 2 and len(sb) == 2:
        u = Dim(1)
        # outer product written as a broadcast product: (n,1) * (1,m) = (n,1) @ (1,m)
        if not divide and sa[1] == u and sb[0] == u and sa[0] != u and sb[1] != u:
            return T("matmul", a.term, b.term)
        if not divide and sb[1] == u and sa[0] == u and sb[0] != u and sa[1] != u:
            return T("matmul", b.term, a.term)
        if sb[0] == u and sb[1] != u and sa[0] != u and sa[1] == sb[1]:
            return T("matmul", a.term, T("dg", inv(b.term)))
        if sb[1] == u and sb[0] != u and sa[1] != u and sa[0] == sb[0]:
            return T("matmul", T("dg", inv(b.term)), a.term)
        if not divide and sa[0] == u and sa[1] != u and sb[0] != u and sa[1] == sb[1]:
            return T("matmul", b.term, T("dg", a.term))
        if not divide and sa[1] == u and sa[0] != u and sb[1] != u and sa[0] == sb[0]:
            return T("matmul", T("dg", a.term), b.term)
    return None


def lift3(interp, v, st):
    """a stack of matrices (rank 3) as [m for m in v]: (label, extent, element) — the element of an
    existing stack comprehension is its body, otherwise v[k]; for a stack of fixed small height
    the label is None and the element is the list of members"""
    sh = shape_of(v)
    if sh is None or len(sh) != 3 or not sh[0].known():
        return None
    t = v.term
    if sh[0].is_const() and 0 < sh[0].c <= 8:
        els = []
        for k in range(int(sh[0].c)):
            if isinstance(t, Term) and t.op == "list" and len(t.args) == int(sh[0].c):
                el = interp.vtab.get(t.args[k]) or V("arr", t.args[k], shape=tuple(sh[1:]), orig=frozenset([FRESH]), labels=v.labels, loc=fresh_id())
            else:
                el = subscript(interp, v, vconst(k), st, None)
            if shape_of(el) is None or len(shape_of(el)) != 2:
                return None
            els.append(el)
        return None, sh[0], els
    if isinstance(t, Term) and t.op == "comp" and len(t.args) == 3 and t.args[1] == T("range", dim_term(Dim(0)), dim_term(sh[0])):
        el = interp.vtab.get(t.args[2])
        if el is not None and shape_of(el) is not None and len(shape_of(el)) == 2:
            return t.args[0], sh[0], el
        return None
    lid = "C%d" % (interp.cur().loop_depth + 1)
    if any(isinstance(x, Term) and x.op == "lv" and x.args[0] == lid for x in t.walk()):
        return None
    i = V("int", T("lv", lid), shape=(), labels=v.labels, extra=("index", Dim(0), sh[0]))
    el = subscript(interp, v, i, st, None)
    if shape_of(el) is None or len(shape_of(el)) != 2:
        return None
    return lid, sh[0], el


def mk_lifted(interp, lid, n, el):
    """[el(k) for k in range(n)] as an array value (el: the element, or the list of members)"""
    if lid is None:
        for e_ in el:
            interp.vtab.setdefault(e_.term, e_)
        t = T("list", *[e_.term for e_ in el])
        lab = frozenset().union(*[e_.labels for e_ in el])
        return V("arr", t, shape=(n,) + tuple(shape_of(el[0])), orig=frozenset([FRESH]), labels=lab, loc=fresh_id(), extra=el[0].extra if isinstance(el[0].extra, str) else None)
    interp.vtab.setdefault(el.term, el)
    t = T("comp", lid, T("range", dim_term(Dim(0)), dim_term(n)), el.term)
    r = V("arr", t, shape=(n,) + tuple(shape_of(el)), orig=frozenset([FRESH]), labels=el.labels, loc=fresh_id(), extra=el.extra if isinstance(el.extra, str) else None)
    interp.vtab.setdefault(t, r)
    return r


def lift3_map(interp, operands, f, st, want_rank=2):
    """apply f to the members of the stacks among the operands (rank 3, same height; operands of
    rank <= 2 are shared by all members) and stack the results; None when not applicable"""
    lifted = [lift3(interp, v, st) if (shape_of(v) is not None and len(shape_of(v)) == 3) else False for v in operands]
    if any(l is None for l in lifted) or not any(lifted):
        return None
    hs = [l for l in lifted if l]
    n = hs[0][1]
    if any(l[1] != n for l in hs):
        return None
    if hs[0][0] is None:
        outs = []
        for k in range(int(n.c)):
            r = f([l[2][k] if l else v for l, v in zip(lifted, operands)])
            if r is None or r.kind != "arr" or r.shape is None or len(r.shape) != want_rank:
                return None
            outs.append(r)
        return mk_lifted(interp, None, n, outs)
    lid = hs[0][0]
    els = []
    for l, v in zip(lifted, operands):
        if not l:
            els.append(v)
        elif l[0] == lid:
            els.append(l[2])
        else:
            from .interp import subst_term

            els.append(l[2].replace(term=subst_term(l[2].term, {T("lv", l[0]): T("lv", lid)})))
    r = f(els)
    if r is None or r.kind != "arr" or r.shape is None or len(r.shape) != want_rank:
        return None
    return mk_lifted(interp, lid, n, r)


def _lift3_binop(interp, op, name, a, b, sa, sb, shape, st, node):
    """batched operations on a stack of matrices are the operation on every matrix of the stack:
    S @ B = [s @ B for s in S],  A * S = [A * s for s in S], ..."""
    if (len(sa) == 3 and len(sb) not in (2, 3)) or (len(sb) == 3 and len(sa) not in (2, 3)):
        return None
    if name != "matmul" and not any(len(s) == 3 and isinstance(v.term, Term) and v.term.op in ("comp", "list") for v, s in ((a, sa), (b, sb))):
        return None  # elementwise: only with an operand that already is a stack of matrices
    return lift3_map(interp, [a, b], lambda els: binop(interp, op, els[0], els[1], st, node), st)


def _row_of_table(t):
    """one row / column of a table, possibly times a number"""
    if not isinstance(t, Term):
        return False
    if t.op == "getitem":
        return True
    if t.op in ("smul", "mul") and len(t.args) == 2:
        return any(isinstance(x, Term) and x.op == "const" for x in t.args) and any(_row_of_table(x) for x in t.args)
    if t.op == "neg" and len(t.args) == 1:
        return _row_of_table(t.args[0])
    return False


def binop(interp, op, a, b, st, node):
    name = OPNAMES.get(type(op), "binop") if not isinstance(op, str) else op
    if a.kind == "maybe":
        a = a.items[0] if a.items else V("unk", a.term, labels=a.labels, orig=a.orig)
    if b.kind == "maybe":
        b = b.items[0] if b.items else V("unk", b.term, labels=b.labels, orig=b.orig)
    labels = a.labels | b.labels
    if name == "matmul" and a.kind == "arr" and b.kind == "arr" and a.extra == "bool" and b.extra == "bool" and a.shape is not None and b.shape is not None and len(a.shape) == 1 and len(b.shape) == 2 and a.shape[0] == b.shape[0]:
        # boolean product m @ G: entry j is the "or" over the flagged rows i of G[i, j]
        rows = subscript(interp, b, a, st, node)
        if rows.kind == "arr":
            return call_external(interp, "numpy.any", [rows], {"axis": vconst(0)}, st, node)
    if name in ("add", "sub", "mul", "div", "pow", "mod", "floordiv") and (a.kind == "arr" or b.kind == "arr") and hasattr(interp, "vtab"):
        # elementwise operations commute with merging the two leading axes of an operand when the
        # other operand only broadcasts along the trailing axes (or is merged in the same way)
        sa_ = merged_leading(interp, a) if a.kind == "arr" else None
        sb_ = merged_leading(interp, b) if b.kind == "arr" else None

        def small(v, ref):
            sv = shape_of(v)
            return sv is not None and (len(sv) == 0 or (len(sv) == 1 and len(ref.shape) >= 2 and sv[0] == ref.shape[-1]))

        pair = None
        if sa_ is not None and sb_ is not None and tuple(sa_.shape) == tuple(sb_.shape):
            pair = (sa_, sb_, a)
        elif sa_ is not None and sb_ is None and small(b, a):
            pair = (sa_, b, a)
        elif sb_ is not None and sa_ is None and small(a, b):
            pair = (a, sb_, b)
        if pair is not None:
            inner = binop(interp, op, pair[0], pair[1], st, node)
            if inner.kind == "arr" and inner.shape is not None:
                interp.vtab.setdefault(inner.term, inner)
                return reshape_to(interp, inner, [int_of_dim(d) for d in pair[2].shape], st, node)
    # python sequences
    if name == "add" and a.kind in ("list", "tuple") and b.kind == a.kind:
        if a.items is not None and b.items is not None:
            return (interp.mk_list if a.kind == "list" else interp.mk_tuple)(a.items + b.items)
        sa0, sb0 = shape_of(a), shape_of(b)
        ext = None
        if sa0 is not None and sb0 is not None and len(sa0) == len(sb0) >= 1 and tuple(sa0[1:]) == tuple(sb0[1:]):
            ext = ("comp", None, (sa0[0] + sb0[0],) + tuple(sa0[1:]))
        return V(a.kind, T("concat", a.term, b.term), labels=labels, loc=fresh_id(), extra=ext)
    if name == "mul" and a.kind in ("list", "tuple") and b.has_const and isinstance(b.const, int) and a.items is not None:
        return (interp.mk_list if a.kind == "list" else interp.mk_tuple)(a.items * b.const)
    if a.kind == "str" or b.kind == "str":
        if a.has_const and b.has_const and name == "add":
            return vconst(a.const + b.const)
        return V("str", unk("str"), labels=labels)
    # constants
    if a.has_const and b.has_const and isinstance(a.const, (int, float)) and isinstance(b.const, (int, float)) and not isinstance(a.const, bool) and not isinstance(b.const, bool):
        try:
            return vconst(_pyop(name, a.const, b.const))
        except Exception:
            pass
    if name == "mod" and b.has_const and b.const == 1 and a.kind == "int":
        return vconst(0)
    if name in ("mul", "div", "floordiv") and b.has_const and b.const == 1 and not isinstance(b.const, bool) and a.kind in ("int", "float", "arr"):
        return a
    if name == "mul" and a.has_const and a.const == 1 and not isinstance(a.const, bool) and b.kind in ("int", "float", "arr"):
        return b
    # integer dims
    if a.kind == "int" and b.kind == "int" and a.dim is not None and b.dim is not None:
        d = None
        if name == "add":
            d = a.dim + b.dim
        elif name == "sub":
            d = a.dim - b.dim
        elif name == "mul":
            d = a.dim.mul(b.dim)
        elif name == "floordiv":
            d = a.dim.floordiv(b.dim)
        if d is not None:
            return int_of_dim(d, labels)
    anum = a.kind in NUMERIC or a.kind == "unk" or a.kind in ("list", "tuple")
    sa, sb = shape_of(a), shape_of(b)
    if name == "matmul":
        shape = matmul_shape(interp, sa, sb, st, node)
    else:
        shape = broadcast(interp, sa, sb, st, node, what=name)
    if name in ("matmul", "add", "sub", "mul", "div") and sa is not None and sb is not None and hasattr(interp, "vtab") and shape is not None and len(shape) == 3:
        r = _lift3_binop(interp, op, name, a, b, sa, sb, shape, st, node)
        if r is not None:
            return r
    term = T(name, a.term, b.term)
    if name == "matmul" and sa is not None and sb is not None and len(sa) == 2 and len(sb) == 1 and isinstance(b.term, Term) and _row_of_table(b.term) and isinstance(a.term, Term) and a.term.op in ("sym", "T", "getitem"):
        # M @ v = v @ M^T for a vector v that is one row / column of a table: one spelling
        at_ = a.term.args[0] if (a.term.op == "T" and len(a.term.args) == 1) else T("T", a.term)
        term = T("matmul", b.term, at_)
    if name == "matmul" and a.term.op == "stack" and len(a.term.args) == 3 and a.term.args[0] == const(1) and a.term.args[2].op == "zeros" and sb is not None and len(sb) == 2 and sa is not None and len(sa) == 2:
        # [A, 0] @ C = A @ C[:k]   (block product with a zero block)
        k_t = a.term.args[2].args[1] if len(a.term.args[2].args) == 2 else None
        if k_t is not None:
            kdim = sa[1] - (k_t.args[0] if k_t.op == "dim" else Dim(int(k_t.args[0])) if k_t.op == "const" else Dim.unknown("k"))
            if kdim.known():
                none = const(None)
                term = T("matmul", a.term.args[1], T("getitem", b.term, T("slice", none, dim_term(kdim), none)))
    if name == "matmul" and isinstance(b.term, Term) and b.term.op == "stack" and len(b.term.args) == 3 and b.term.args[0] == const(0) and isinstance(b.term.args[2], Term) and b.term.args[2].op == "zeros" and sb is not None and len(sb) == 2 and sa is not None and len(sa) == 2:
        # C @ [A ; 0] = C[:, :k] @ A   (the mirrored block product: zero rows below A)
        k_t = b.term.args[2].args[0] if len(b.term.args[2].args) == 2 else None
        if k_t is not None:
            kdim = sb[0] - (k_t.args[0] if k_t.op == "dim" else Dim(int(k_t.args[0])) if k_t.op == "const" else Dim.unknown("k"))
            if kdim.known():
                none = const(None)
                term = T("matmul", T("getitem", a.term, T("tuple", T("slice", none, none, none), T("slice", none, dim_term(kdim), none))), b.term.args[1])
    if name == "matmul" and sa is not None and sb is not None and len(sa) == 1 and len(sb) == 1:
        # dot product of two vectors = sum of the elementwise product
        term = T("sum", T("mul", a.term, b.term))
    if name == "mul":
        if sa == () and sb == ():
            # both factors are scalars: both commute (rtol * |m| is |m| * rtol)
            term = T("smul", a.term, T("smul", b.term, const(1)))
        elif sa == ():
            term = T("smul", a.term, b.term)
        elif sb == ():
            term = T("smul", b.term, a.term)
        elif sa is not None and sb is not None:
            term = _diag_scaling(a, b, sa, sb, False) or term
    elif name == "div":
        if sa == () and sb == ():
            term = T("smul", a.term, T("sdiv", const(1), b.term))
        elif sb == ():
            term = T("sdiv", a.term, b.term)
        elif sa is not None and sb is not None and sa != ():
            term = _diag_scaling(a, b, sa, sb, True) or term
    is_arr = a.kind in ("arr", "list", "tuple") or b.kind in ("arr", "list", "tuple")
    dtype = None
    if name in ("bitor", "bitand", "bitxor") and a.extra == "bool" and b.extra == "bool":
        dtype = "bool"
    if is_arr or shape not in ((), None):
        return V("arr", term, shape=shape, orig=frozenset([FRESH]), labels=labels, loc=fresh_id(), extra=dtype)
    if a.kind == "unk" or b.kind == "unk":
        return V("unk" if shape is None else "float", term, shape=shape, orig=frozenset([FRESH]), labels=labels)
    if a.kind == "int" and b.kind == "int" and name != "div":
        return V("int", term, shape=(), labels=labels)
    if a.kind in NUMERIC and b.kind in NUMERIC:
        return V("float", term, shape=(), labels=labels)
    return V("unk", term, labels=labels)


# ---------------------------------------------------------------------------
# comparisons
# ---------------------------------------------------------------------------

CMPNAMES = {ast.Lt: "lt", ast.LtE: "le", ast.Gt: "gt", ast.GtE: "ge", ast.Eq: "eq", ast.NotEq: "ne", ast.Is: "is", ast.IsNot: "isnot", ast.In: "in", ast.NotIn: "notin"}

DEFINITE_NOT_NONE = ("arr", "int", "float", "bool", "str", "obj", "list", "tuple", "dict", "func", "ext", "cls", "mod", "set", "scorer")


def _range_of(v):
    """numeric interval of a scalar value: (lo, hi, lo_open, hi_open) or None"""
    if v.has_const and isinstance(v.const, (int, float)) and not isinstance(v.const, bool):
        return (v.const, v.const, False, False)
    if isinstance(v.extra, tuple) and v.extra and v.extra[0] == "range":
        return v.extra[1:]
    return None


def _cmp_ranges(name, ra, rb):
    alo, ahi, alo_o, ahi_o = ra
    blo, bhi, blo_o, bhi_o = rb
    def lt():  # a < b always / never
        if ahi < blo or (ahi == blo and (ahi_o or blo_o)):
            return True
        if alo >= bhi:
            return False
        return None
    def le():
        if ahi <= blo:
            return True
        if alo > bhi or (alo == bhi and (alo_o or bhi_o)):
            return False
        return None
    if name == "lt":
        return lt()
    if name == "le":
        return le()
    if name == "gt":
        r = le()
        return None if r is None else (not r)
    if name == "ge":
        r = lt()
        return None if r is None else (not r)
    if name in ("eq", "ne"):
        disjoint = ahi < blo or bhi < alo or (ahi == blo and (ahi_o or blo_o)) or (bhi == alo and (bhi_o or alo_o))
        same_point = alo == ahi == blo == bhi
        if same_point:
            return name == "eq"
        if disjoint:
            return name == "ne"
    return None


def compare(interp, op, a, b, st, node):
    name = CMPNAMES[type(op)]
    labels = a.labels | b.labels
    if a.kind == "maybe" and name in ("is", "isnot"):
        pass
    elif a.kind == "maybe":
        a = a.items[0]
    if name in ("is", "isnot"):
        res = None
        if b.kind == "none" or a.kind == "none":
            x = a if b.kind == "none" else b
            if x.kind == "none":
                res = True
            elif x.kind in DEFINITE_NOT_NONE:
                res = False
        elif a.has_const and b.has_const and isinstance(a.const, bool) and isinstance(b.const, bool):
            res = a.const is b.const
            if "numpy-scalar" in (a.labels | b.labels):
                res = False  # numpy.True_ is not the object True
        elif b.has_const and isinstance(b.const, bool) and a.kind not in ("unk", "bool", "maybe", "arr"):
            res = False
        if res is not None:
            return vconst(res if name == "is" else not res)
        # x = A if c else None ; `x is None`  is  `not c`  (when A cannot be None)
        if b.kind == "none" and isinstance(a.extra, tuple) and len(a.extra) == 4 and a.extra[0] == "phi":
            _, c, va, vb = a.extra
            ra, rb = compare(interp, op, va, b, st, node), compare(interp, op, vb, b, st, node)
            if ra.has_const and rb.has_const and isinstance(ra.const, bool) and isinstance(rb.const, bool) and ra.const != rb.const:
                return vbool(c if ra.const else T("not", c), labels)
        return vbool(T(name, a.term, b.term), labels)
    if name in ("in", "notin"):
        res = None
        if b.kind in ("list", "tuple", "set") and b.items is not None and a.has_const and all(x.has_const for x in b.items):
            res = a.const in [x.const for x in b.items]
        elif b.kind == "dict" and b.items is not None and a.has_const:
            res = a.const in b.items
        elif b.kind in ("list", "tuple", "set") and b.items is not None and a.has_const is False and a.kind == "none":
            res = any(x.kind == "none" for x in b.items) if all(x.kind != "unk" for x in b.items) else None
        elif b.kind in ("list", "tuple") and b.items is not None and a.kind == "none":
            res = any(x.kind == "none" for x in b.items)
        elif b.kind in ("list", "tuple") and b.items is not None and a.kind in ("obj", "ext") and all(x.has_const or x.kind == "none" for x in b.items):
            res = False
        if res is not None:
            return vconst(res if name == "in" else not res)
        return vbool(T(name, a.term, b.term), labels)
    if name == "eq" and any(isinstance(v.term, Term) and v.term.op == "block_labels" for v in (a, b)):
        # block_labels(L) == c  marks the positions of block c: cuts[c] <= p < cuts[c + 1] with
        # cuts = cumsum([0] + L)
        lab, c = (a, b) if isinstance(a.term, Term) and a.term.op == "block_labels" else (b, a)
        if shape_of(c) == () and shape_of(lab) is not None:
            L_t = lab.term.args[0]
            n = shape_of(lab)[0]
            cuts = V("arr", T("cumsum", T("concat", T("list", const(0)), L_t)), shape=(Dim.unknown("cuts"),), orig=frozenset([FRESH]), labels=lab.labels, loc=fresh_id(), extra="int")
            pos = V("arr", T("arange", dim_term(n)), shape=(n,), orig=frozenset([FRESH]), labels=frozenset(), loc=fresh_id(), extra="int")
            lo = subscript(interp, cuts, c, st, node)
            hi = subscript(interp, cuts, binop(interp, "add", c, vconst(1), st, node), st, node)
            m1 = compare(interp, ast.GtE(), pos, lo, st, node)
            m2 = compare(interp, ast.Lt(), pos, hi, st, node)
            return binop(interp, "bitand", m1, m2, st, node)
    # ordering / equality
    if a.has_const and b.has_const:
        try:
            x, y = a.const, b.const
            r = {"lt": lambda: x < y, "le": lambda: x <= y, "gt": lambda: x > y, "ge": lambda: x >= y, "eq": lambda: x == y, "ne": lambda: x != y}[name]()
            return vconst(bool(r))
        except Exception:
            pass
    if name in ("eq", "ne"):
        # values of definitely different python kinds
        ka, kb = a.kind, b.kind
        if (a.has_const and isinstance(a.const, str) and kb in ("none", "obj", "ext", "int", "float", "arr", "func")) or (b.has_const and isinstance(b.const, str) and ka in ("none", "obj", "ext", "int", "float", "func")):
            if ka != "arr" and kb != "arr":
                return vconst(name == "ne")
        if ka == "none" and kb == "none":
            return vconst(name == "eq")
        if (ka == "none") != (kb == "none") and ka in DEFINITE_NOT_NONE + ("none",) and kb in DEFINITE_NOT_NONE + ("none",) and "arr" not in (ka, kb):
            return vconst(name == "ne")
    ra, rb = _range_of(a), _range_of(b)
    if ra is not None and rb is not None:
        r = _cmp_ranges(name, ra, rb)
        if r is not None:
            return vconst(r)
    da, db = a.dim if a.kind == "int" else None, b.dim if b.kind == "int" else None
    if da is not None and db is None and b.has_const and isinstance(b.const, float) and b.const == int(b.const):
        db = Dim(int(b.const))
    if db is not None and da is None and a.has_const and isinstance(a.const, float) and a.const == int(a.const):
        da = Dim(int(a.const))
    if da is not None and db is not None:
        class _D:  # light holders
            pass
        a_, b_ = _D(), _D()
        a_.dim, b_.dim = da, db
        c = interp.order.cmp(a_.dim, b_.dim)
        r = None
        if c == 0:
            r = name in ("eq", "le", "ge")
        elif c == -1:
            r = name in ("lt", "le", "ne")
        elif c == 1:
            r = name in ("gt", "ge", "ne")
        elif c == 2 and name in ("le", "gt"):
            r = name == "le"
        elif c == 3 and name in ("ge", "lt"):
            r = name == "ge"
        if r is not None:
            return vconst(r)
    sa, sb = shape_of(a), shape_of(b)
    term = T(name, a.term, b.term)
    # comparing a reversed vector with a scalar is the reversed comparison: (w[::-1] > c) = (w > c)[::-1]
    rev_ = T("slice", const(None), const(None), const(-1))
    for x_, y_, sx_, sy_, swap_ in ((a, b, sa, sb, False), (b, a, sb, sa, True)):
        if x_.kind == "arr" and sx_ is not None and len(sx_) == 1 and sy_ == () and isinstance(x_.term, Term) and x_.term.op == "getitem" and x_.term.args[1] == rev_:
            inner_t = T(name, y_.term, x_.term.args[0]) if swap_ else T(name, x_.term.args[0], y_.term)
            interp.vtab.setdefault(inner_t, V("arr", inner_t, shape=sx_, orig=frozenset([FRESH]), labels=labels, loc=fresh_id(), extra="bool")) if hasattr(interp, "vtab") else None
            return V("arr", T("getitem", inner_t, rev_), shape=sx_, orig=frozenset([FRESH]), labels=labels, loc=fresh_id(), extra="bool")
    if a.kind == "arr" or b.kind == "arr":
        shape = broadcast(interp, sa, sb, st, node, what=name)
        if not hasattr(interp, "cmp_info"):
            interp.cmp_info = {}
        interp.cmp_info[term] = (name, a, b)
        return V("arr", term, shape=shape, orig=frozenset([FRESH]), labels=labels, loc=fresh_id(), extra="bool")
    return vbool(term, labels)


# ---------------------------------------------------------------------------
# subscripts
# ---------------------------------------------------------------------------


def _slice_len(d, sl):
    lo, hi, step = sl.items
    def none(x):
        return x.kind == "none"
    if not none(step):
        if step.has_const and step.const in (1, -1) :
            pass
        else:
            return Dim.unknown("step")
        if step.const == -1:
            if none(lo) and none(hi):
                return d
            return Dim.unknown("revslice")
    def as_dim(x):
        if x.has_const and isinstance(x.const, int):
            return Dim(x.const)
        if x.dim is not None:
            return x.dim
        if x.kind == "int" and isinstance(x.extra, tuple) and len(x.extra) == 3 and x.extra[0] == "index" and isinstance(x.extra[1], Dim) and x.extra[1].is_const() and x.extra[1].c >= 0 and x.extra[2] == d and isinstance(x.term, Term) and x.term.op == "lv":
            # a position of this very axis counted by a loop (0 <= x < d): a[x:] has d - x entries
            return Dim(0, {("t", x.term): 1})
        if x.kind == "int" and x.dim is None and isinstance(x.term, Term) and x.term.op == "count" and len(x.term.args) == 1:
            # a[:count(mask)]: the number of flagged entries is the extent of the prefix (as for min(count, count))
            return Dim(0, {("t", x.term): 1})
        return None
    if none(lo) and none(hi):
        return d
    l = Dim(0) if none(lo) else as_dim(lo)
    h = d if none(hi) else as_dim(hi)
    if l is None or h is None:
        return Dim.unknown("slice")
    if h.is_const() and h.c < 0:
        h = d + h
    if l.is_const() and l.c < 0:
        l = d + l
    if d.is_const() and h.is_const() and h.c > d.c:
        h = d
    return h - l


def index_shape(interp, base, idx, st, node):
    sh = shape_of(base)
    if sh is None:
        return None
    items = idx.items if idx.kind == "tuple" and idx.items is not None else [idx]
    # expand ellipsis
    n_consume = 0
    for it in items:
        if it.kind in ("none", "ellipsis"):
            continue
        if it.kind == "arr" and it.extra == "bool" and it.shape is not None:
            n_consume += len(it.shape)
        else:
            n_consume += 1
    out = []
    ax = 0
    fancy_done = False
    for it in items:
        if it.kind == "ellipsis":
            k = len(sh) - n_consume
            out.extend(sh[ax: ax + k])
            ax += k
            continue
        if it.kind == "none":
            out.append(Dim(1))
            continue
        if ax >= len(sh):
            interp.event("shape-conflict", node, st, what="too-many-indices", a=tuple(sh), b=())
            return None
        d = sh[ax]
        if it.kind == "slice1":
            out.append(Dim(1))
            ax += 1
        elif it.kind == "slice":
            out.append(_slice_len(d, it))
            ax += 1
        elif it.kind in ("int", "bool") or (it.kind in ("arr", "float", "unk") and it.shape == ()):
            ax += 1
        elif it.kind in ("arr", "list", "tuple"):
            ish = shape_of(it)
            if it.kind == "arr" and it.extra == "bool":
                # boolean mask: its dims must match the indexed dims
                if ish is not None:
                    for j, md in enumerate(ish):
                        if ax + j < len(sh) and dims_conflict(interp, md, sh[ax + j]):
                            interp.event("shape-conflict", node, st, what="mask-length", a=tuple(sh), b=tuple(ish))
                    ax += len(ish)
                else:
                    ax += 1
                out.append(Dim.unknown("mask"))
            else:
                if ish is None:
                    out.append(Dim.unknown("fancy"))
                elif not fancy_done:
                    out.extend(ish)
                fancy_done = True
                ax += 1
        else:
            # unknown index kind
            return None
    out.extend(sh[ax:])
    return tuple(out)


def _is_basic_index(idx):
    items = idx.items if idx.kind == "tuple" and idx.items is not None else [idx]
    for it in items:
        if it.kind in ("slice", "slice1", "none", "ellipsis", "int"):
            continue
        if it.kind in ("arr", "float", "unk") and it.shape == ():
            continue
        return False
    return True


_FULL = None


def _full_slice():
    global _FULL
    if _FULL is None:
        n = vconst(None)
        _FULL = V("slice", T("slice", n.term, n.term, n.term), items=[n, n, n])
    return _FULL


def _canon_index(interp, base, idx):
    """identity selections are dropped: a[:n] on an axis of extent n, a[:, [0]] on an
    axis of extent 1; returns None if the whole index is the identity"""
    items = idx.items if idx.kind == "tuple" and idx.items is not None else [idx]
    if any(it.kind in ("ellipsis", "none") for it in items):
        return idx
    sh = base.shape
    if len(items) > len(sh):
        return idx
    out = []
    changed = False
    for ax, it in enumerate(items):
        d = sh[ax]
        if it.kind == "slice":
            lo, hi, step = it.items
            if lo.kind == "int" and step.kind == "none" and hi.term == T("add", lo.term, const(1)):
                it = V("slice1", T("slice1", lo.term), items=[lo], labels=it.labels)
                out.append(it)
                changed = True
                continue
            lo0 = lo.kind == "none" or (lo.has_const and lo.const == 0)
            st1 = step.kind == "none" or (step.has_const and step.const == 1)
            if step.kind == "none" and ((lo.has_const and lo.const == -1 and hi.kind == "none") or (lo0 and hi.has_const and hi.const == 1 and not (d.is_const() and d.c == 1))):
                # a[-1:] / a[:1] : one element, unit axis kept
                e = vconst(-1) if (lo.has_const and lo.const == -1) else vconst(0)
                out.append(V("slice1", T("slice1", e.term), items=[e], labels=it.labels))
                changed = True
                continue
            hid = None
            if hi.kind == "none":
                hid = d
            elif hi.has_const and isinstance(hi.const, int):
                hid = Dim(hi.const)
            elif hi.dim is not None:
                hid = hi.dim
            if lo0 and st1 and hid is not None and hid == d:
                if not (lo.kind == "none" and hi.kind == "none" and step.kind == "none"):
                    changed = True
                out.append(_full_slice())
                continue
        elif it.kind == "arr" and isinstance(it.term, Term) and it.term.op == "getitem" and isinstance(it.term.args[0], Term) and it.term.args[0].op == "arange" and len(it.term.args[0].args) == 1 and it.term.args[1] == T("slice", const(None), const(None), const(-1)) and it.shape is not None and len(it.shape) == 1 and it.shape[0] == d and sum(1 for z in items if z.kind in ("list", "arr")) == 1:
            # a[np.arange(n)[::-1]] on an axis of extent n is a[::-1]
            n_ = vconst(None)
            out.append(V("slice", T("slice", n_.term, n_.term, const(-1)), items=[n_, n_, vconst(-1)], labels=it.labels))
            changed = True
            continue
        elif it.kind == "list" and it.items is not None and len(it.items) == 1 and it.items[0].has_const and it.items[0].const == 0 and d.is_const() and d.c == 1:
            changed = True
            out.append(_full_slice())
            continue
        elif it.kind == "list" and it.items is not None and len(it.items) == 1 and (it.items[0].kind == "int" or (it.items[0].kind == "arr" and it.items[0].shape == ())) and sum(1 for z in items if z.kind in ("list", "arr")) == 1:
            # a[[c]] / a[:, [c]]: the single element c with its axis kept
            e = it.items[0]
            out.append(V("slice1", T("slice1", e.term), items=[e], labels=it.labels))
            changed = True
            continue
        out.append(it)
    if all(o is _full_slice() for o in out):
        return None
    if out and out[-1] is _full_slice():
        changed = True  # a[:k, :] is a[:k]
    if not changed:
        return idx
    while out and out[-1] is _full_slice():
        out.pop()
    if len(out) == 1 and idx.kind != "tuple":
        return out[0]
    if len(out) == 1:
        return out[0]
    return V("tuple", T("tuple", *[x.term for x in out]), items=out, labels=idx.labels)


_ELEMENTWISE = {"add": "add", "sub": "sub", "mul": "mul", "div": "div", "pow": "pow"}


def _push_row_index(interp, base, idx, st, node, depth=0):
    """base: a 2-D value whose term is an elementwise binary operation; returns base[idx] computed from the operands"""
    if depth > 6:
        return None
    t = base.term
    if len(t.args) != 2:
        return None
    ops = []
    for a_ in t.args:
        if not isinstance(a_, Term):
            return None
        if a_.op == "const":
            ops.append(V("float", a_, shape=(), has_const=True, const_=a_.args[0]))
            continue
        v_ = interp.vtab.get(a_)
        sh_ = shape_of(v_) if v_ is not None else None
        if v_ is None or sh_ is None:
            return None
        if len(sh_) <= 1:
            if len(sh_) == 1 and not (sh_[0] == base.shape[1] or (sh_[0].is_const() and sh_[0].c == 1)):
                return None
            ops.append(v_)  # broadcast along the rows
        elif len(sh_) == 2:
            if sh_[0].is_const() and sh_[0].c == 1 and not (base.shape[0].is_const() and base.shape[0].c == 1):
                # a single row broadcast along the rows: that row (the vector itself when it was only given a unit axis)
                src_ = interp.vtab.get(v_.term.args[0]) if isinstance(v_.term, Term) and v_.term.op in ("reshape1", "reshape", "getitem") and v_.term.args and isinstance(v_.term.args[0], Term) else None
                ssh_ = shape_of(src_) if src_ is not None else None
                if src_ is not None and ssh_ is not None and len(ssh_) == 1 and ssh_[0] == sh_[1]:
                    ops.append(src_)
                else:
                    ops.append(subscript(interp, v_, vconst(0), st, node))
            elif sh_[0] == base.shape[0]:
                if sh_[1].is_const() and sh_[1].c == 1 and isinstance(v_.term, Term) and v_.term.op in ("reshape1", "reshape") and isinstance(v_.term.args[0], Term):
                    src_ = interp.vtab.get(v_.term.args[0])
                    ssh_ = shape_of(src_) if src_ is not None else None
                    if src_ is not None and ssh_ is not None and len(ssh_) == 1:
                        ops.append(subscript(interp, src_, idx, st, node))  # the k-th entry of the column
                        continue
                if isinstance(v_.term, Term) and v_.term.op in _ELEMENTWISE:
                    r_ = _push_row_index(interp, v_, idx, st, node, depth + 1)
                    if r_ is None:
                        return None
                    ops.append(r_)
                else:
                    ops.append(subscript(interp, v_, idx, st, node))
            else:
                return None
        else:
            return None
    return binop(interp, _ELEMENTWISE[t.op], ops[0], ops[1], st, node)


def whole_range(idx, n):
    """the index vector arange(n) for an axis of extent n"""
    t = idx.term if isinstance(idx, V) else idx
    while isinstance(t, Term) and t.op == "astype" and len(t.args) == 2 and t.args[1] in ("int", const("int")):
        t = t.args[0]
    return isinstance(t, Term) and t.op == "arange" and len(t.args) == 1 and t.args[0] == dim_term(n)


def subscript(interp, base, idx, st, node):
    if base.kind == "maybe":
        base = base.items[0] if base.items else V("unk", base.term, labels=base.labels, orig=base.orig)
    if isinstance(idx.extra, tuple) and len(idx.extra) == 2 and idx.extra[0] == "ix_" and len(idx.extra[1]) == 2 and base.kind == "arr":
        # A[np.ix_(r, c)] = A[r][:, c]
        r_, c_ = idx.extra[1]
        rows = subscript(interp, base, r_, st, node)
        return subscript(interp, rows, interp.mk_tuple([_full_slice(), c_]), st, node)
    labels = base.labels | idx.labels
    if base.kind == "arr" and base.shape is not None and len(base.shape) == 2 and isinstance(base.term, Term) and base.term.op == "T" and len(base.term.args) == 1 and ((idx.kind == "int" and idx.shape in ((), None)) or (idx.kind == "arr" and idx.shape == () and idx.extra == "int")) and hasattr(interp, "vtab"):
        # row k of A^T is column k of A (a scalar position k)
        src_ = interp.vtab.get(base.term.args[0])
        if src_ is None:
            src_ = V("arr", base.term.args[0], shape=(base.shape[1], base.shape[0]), orig=base.orig, labels=base.labels, loc=base.loc, extra=base.extra if isinstance(base.extra, str) else None)
        if src_ is not None and src_.kind == "arr" and src_.shape is not None and len(src_.shape) == 2:
            return subscript(interp, src_, interp.mk_tuple([_full_slice(), idx]), st, node)
    if idx.kind == "tuple" and idx.items is not None and len(idx.items) == 2 and idx.items[1].kind == "list" and idx.items[1].items is not None and len(idx.items[1].items) == 1 and (idx.items[1].items[0].kind == "int" or (idx.items[1].items[0].kind == "arr" and idx.items[1].items[0].shape == ())) and base.kind == "arr" and isinstance(base.term, Term) and base.term.op == "T":
        e_ = idx.items[1].items[0]
        idx = interp.mk_tuple([idx.items[0], V("slice1", T("slice1", e_.term), items=[e_], labels=idx.items[1].labels)])
    if base.kind == "arr" and base.shape is not None and len(base.shape) == 2 and isinstance(base.term, Term) and base.term.op == "T" and len(base.term.args) == 1 and idx.kind == "tuple" and idx.items is not None and len(idx.items) == 2 and idx.items[0].kind == "slice" and all(x.kind == "none" for x in idx.items[0].items) and ((idx.items[1].kind == "int" and idx.items[1].shape in ((), None)) or (idx.items[1].kind == "arr" and idx.items[1].shape == () and idx.items[1].extra == "int") or idx.items[1].kind == "slice1") and hasattr(interp, "vtab"):
        # column k of A^T is row k of A (a scalar position k; A^T[:, [k]] is that row as a column)
        src_ = interp.vtab.get(base.term.args[0])
        if src_ is None:
            src_ = V("arr", base.term.args[0], shape=(base.shape[1], base.shape[0]), orig=base.orig, labels=base.labels, loc=base.loc, extra=base.extra if isinstance(base.extra, str) else None)
        if src_ is not None and src_.kind == "arr" and src_.shape is not None and len(src_.shape) == 2:
            r_ = subscript(interp, src_, idx.items[1], st, node)
            if idx.items[1].kind == "slice1":
                from . import api_lib as _L2

                return _L2.transpose(interp, r_, None)
            return r_
    if base.kind == "arr" and base.shape is not None and len(base.shape) >= 1 and whole_range(idx, base.shape[0]):
        # a[np.arange(len(a))]: every entry, in order (a copy)
        return V("arr", base.term, shape=base.shape, orig=frozenset([FRESH]), labels=labels, loc=fresh_id(), extra=base.extra if isinstance(base.extra, str) else None, dim=base.dim)
    if base.kind in ("tuple", "list") and base.items is not None:
        if idx.has_const and isinstance(idx.const, int):
            if -len(base.items) <= idx.const < len(base.items):
                return base.items[idx.const]
            interp.event("index-error", node, st, base=base, index=idx)
            return vunk("index")
        if idx.kind == "slice" and all(x.kind == "none" or (x.has_const and isinstance(x.const, int)) for x in idx.items):
            sl = slice(*[None if x.kind == "none" else x.const for x in idx.items])
            sub = base.items[sl]
            return (interp.mk_list if base.kind == "list" else interp.mk_tuple)(sub)
    if base.kind == "list" and base.items is None and idx.has_const and idx.const == -1 and isinstance(base.extra, tuple) and base.extra and base.extra[0] == "last":
        return base.extra[1]  # l.append(x); l[-1]
    if base.kind == "arr" and base.shape is not None and len(base.shape) == 1 and idx.has_const and isinstance(idx.const, int) and not isinstance(idx.const, bool) and idx.const == -1 and isinstance(base.term, Term):
        bt = base.term
        if bt.op == "stack" and len(bt.args) >= 3 and all(isinstance(p_, Term) for p_ in bt.args[1:]):
            # the last entry of a concatenation whose last piece cannot be empty, or of [0] followed by running sums
            last = interp.vtab.get(bt.args[-1])
            lsh = shape_of(last) if last is not None else None
            lead0 = len(bt.args) == 3 and bt.args[1].op == "list" and len(bt.args[1].args) == 1 and bt.args[1].args[0] == const(0)
            if last is not None and lsh is not None and len(lsh) == 1 and ((lsh[0].is_const() and lsh[0].c >= 1) or (lead0 and isinstance(last.term, Term) and last.term.op == "cumsum")):
                return subscript(interp, last, idx, st, node)
        if bt.op == "cumsum" and len(bt.args) == 1:
            # the last running sum is the total (a leading 0 prepended to the summands does not change it)
            inner_ = bt.args[0]
            if isinstance(inner_, Term) and inner_.op == "concat" and len(inner_.args) == 2 and isinstance(inner_.args[0], Term) and inner_.args[0].op == "list" and len(inner_.args[0].args) == 1 and inner_.args[0].args[0] == const(0) and isinstance(inner_.args[1], Term):
                w_ = inner_.args[1]
                while isinstance(w_, Term) and w_.op in ("tolist",) and w_.args and isinstance(w_.args[0], Term):
                    w_ = w_.args[0]
                if interp.vtab.get(w_) is not None:
                    inner_ = w_
            src = interp.vtab.get(inner_)
            ssh = shape_of(src) if src is not None else None
            if src is not None and ssh is not None and len(ssh) == 1:
                from . import api_lib as _L

                return _L.call_external(interp, "numpy.sum", [src], {}, st, node)
    if base.kind == "dict":
        if base.items is not None and idx.has_const:
            if idx.const in base.items:
                return base.items[idx.const]
            interp.event("key-error", node, st, base=base, index=idx)
            return vunk("key")
        if isinstance(base.extra, tuple) and len(base.extra) == 2 and base.extra[0] == "values" and isinstance(base.extra[1], V):
            # a specification declared what the values of this (symbolic) dictionary are: e.g. vectors of indices
            tpl = base.extra[1]
            return tpl.replace(term=T("getitem", base.term, idx.term), labels=labels | tpl.labels, loc=fresh_id())
        return V("unk", T("getitem", base.term, idx.term), labels=labels)
    if base.kind in ("ext", "mod", "unk") and isinstance(base.term, Term) and base.term.op == "ext" and base.term.args and base.term.args[0] in ("numpy.c_", "numpy.r_") and idx.kind == "tuple" and idx.items is not None and all(x.kind == "arr" and x.shape is not None for x in idx.items):
        # np.c_[a, b]: the blocks joined as columns (np.column_stack); np.r_[a, b]: joined along the first axis
        from . import api_lib as _L

        fn_ = "numpy.column_stack" if base.term.args[0] == "numpy.c_" else "numpy.concatenate"
        return _L.call_external(interp, fn_, [interp.mk_tuple(list(idx.items))], {}, st, node)
    if base.kind == "ext" or base.kind == "obj":
        return V("unk", T("getitem", base.term, idx.term), labels=labels, orig=base.orig)
    if base.kind == "arr" and base.shape is not None and idx.kind == "diagidx" and len(base.shape) == 2:
        # a[np.diag_indices_from(a)] is the diagonal
        return V("arr", T("diagof", base.term), shape=(interp.order.dmin(base.shape[0], base.shape[1]),), orig=frozenset([FRESH]), labels=labels, loc=fresh_id())
    if base.kind == "arr" and base.shape is not None and idx.kind == "tuple" and idx.items is not None and any(it.kind == "none" for it in idx.items) and not all(it.kind == "none" or (it.kind == "slice" and all(x.kind == "none" for x in it.items)) for it in idx.items) and not any(it.kind == "ellipsis" for it in idx.items):
        # a[None, :, 0]: index first, insert the unit axes afterwards
        sh = index_shape(interp, base, idx, st, node)
        rest = [it for it in idx.items if it.kind != "none"]
        if sh is not None and rest:
            ridx = rest[0] if len(rest) == 1 else V("tuple", T("tuple", *[x.term for x in rest]), items=rest, labels=idx.labels)
            inner = subscript(interp, base, ridx, st, node)
            if inner.kind == "arr":
                from .api_numpy import shape_terms

                return V("arr", T("reshape1", inner.term, *shape_terms(sh)), shape=sh, orig=inner.orig, labels=inner.labels, loc=inner.loc, extra=inner.extra if isinstance(inner.extra, str) else None)
    if base.kind == "arr" and base.shape is not None:
        idx = _canon_index(interp, base, idx)
        if idx is None:
            return base
        its = idx.items if idx.kind == "tuple" and idx.items is not None else [idx]
        if all(it.kind == "none" or it is _full_slice() or (it.kind == "slice" and all(x.kind == "none" for x in it.items)) for it in its) and any(it.kind == "none" for it in its):
            sh = index_shape(interp, base, idx, st, node)
            if sh is not None:
                from .api_numpy import shape_terms

                return V("arr", T("reshape1", base.term, *shape_terms(sh)), shape=sh, orig=base.orig, labels=base.labels, loc=base.loc, extra=base.extra if isinstance(base.extra, str) else None)
        its_ = idx.items if idx.kind == "tuple" and idx.items is not None else [idx]
        if len(its_) == len(base.shape) and all(d.is_const() and d.c == 1 for d in base.shape) and all(i_.has_const and isinstance(i_.const, int) and not isinstance(i_.const, bool) and i_.const in (0, -1) for i_ in its_):
            # the single entry of a 1 x 1 (x 1 ...) array
            return V("arr", T("reshape1", base.term), shape=(), orig=frozenset([FRESH]), labels=labels, loc=fresh_id(), extra=base.extra if isinstance(base.extra, str) else None)
        if idx.has_const and isinstance(idx.const, int) and not isinstance(idx.const, bool) and idx.const in (0, -1) and len(base.shape) == 2 and base.shape[0].is_const() and base.shape[0].c == 1 and isinstance(base.term, Term) and base.term.op in ("reshape1", "T") and base.term.args and isinstance(base.term.args[0], Term):
            # the only row of a (1, n) matrix that is a re-laid-out (n,) / (n, 1) array: that array as a vector
            from .api_numpy import shape_terms

            return V("arr", T("reshape1", base.term.args[0], *shape_terms((base.shape[1],))), shape=(base.shape[1],), orig=base.orig, labels=labels, loc=base.loc, extra=base.extra if isinstance(base.extra, str) else None)
        if idx.kind == "tuple" and idx.items is not None and len(idx.items) == 2 and len(base.shape) == 2 and base.shape[1].is_const() and base.shape[1].c == 1 and idx.items[0].kind == "slice" and all(x.kind == "none" for x in idx.items[0].items) and idx.items[1].has_const and isinstance(idx.items[1].const, int) and not isinstance(idx.items[1].const, bool) and idx.items[1].const in (0, -1):
            # the only column of an (n, 1) matrix: the matrix as a vector (a view)
            from .api_numpy import shape_terms

            return V("arr", T("reshape1", base.term, *shape_terms((base.shape[0],))), shape=(base.shape[0],), orig=base.orig, labels=labels, loc=base.loc, extra=base.extra if isinstance(base.extra, str) else None)
        if idx.kind == "int" and len(base.shape) == 2 and isinstance(base.term, Term) and base.term.op in _ELEMENTWISE and hasattr(interp, "vtab") and not __import__("os").environ.get("VERIF_NO_PUSH"):
            # row k of an elementwise expression over broadcast operands: index the operands that have that row axis,
            # keep those that are broadcast along it (f(s, a.reshape(-1, 1))[k] = f(s, a[k]))
            pushed = _push_row_index(interp, base, idx, st, node)
            if pushed is not None:
                return pushed
        if idx.kind == "slice1" and len(base.shape) >= 2 and idx.items and idx.items[0].kind == "int" and not idx.items[0].has_const:
            # a[i:i+1] for a symbolic position i: the element a[i] with a unit leading axis
            el = subscript(interp, base, idx.items[0], st, node)
            if el.kind == "arr" and el.shape is not None:
                from .api_numpy import shape_terms

                nsh = (Dim(1),) + tuple(el.shape)
                return V("arr", T("reshape1", el.term, *shape_terms(nsh)), shape=nsh, orig=el.orig, labels=el.labels, loc=el.loc, extra=el.extra if isinstance(el.extra, str) else None)
    term = T("getitem", base.term, idx.term)
    if base.kind in ("arr", "list", "tuple"):
        shape = index_shape(interp, base, idx, st, node)
        if base.kind == "list" and shape is not None and any(is_ragged(d) for d in shape):
            shape = ragged_fix(shape, term)
        if base.kind == "arr" and _is_basic_index(idx):
            orig, loc = base.orig, base.loc
        else:
            orig, loc = frozenset([FRESH]), fresh_id()
        extra = base.extra if isinstance(base.extra, str) else None
        return V("arr", term, shape=shape, orig=orig, labels=labels, loc=loc, extra=extra)
    if base.kind == "unk":
        return V("unk", term, labels=labels, orig=base.orig, loc=base.loc)
    if base.kind == "str":
        return V("str", unk("str"), labels=labels)
    return V("unk", term, labels=labels)


# ---------------------------------------------------------------------------
# iteration helpers
# ---------------------------------------------------------------------------


def iter_items(interp, it, st):
    """known python-level items of an iterable, or None"""
    if it.kind in ("list", "tuple", "set") and it.items is not None:
        return list(it.items)
    if it.kind == "dict" and it.items is not None:
        return [vconst(k) for k in it.items]
    if it.kind == "range" and it.extra is not None:
        lo, hi = it.extra
        if lo.is_const() and hi.is_const():
            return [vconst(i) for i in range(lo.c, hi.c)]
        return None
    if it.kind == "enumerate":
        inner = iter_items(interp, it.items[0], st)
        if inner is None:
            return None
        if isinstance(it.extra, tuple) and it.extra and it.extra[0] == "start":
            s_ = it.extra[1]
            if not (s_.has_const and isinstance(s_.const, int)):
                return None
            return [interp.mk_tuple([vconst(s_.const + i), x]) for i, x in enumerate(inner)]
        return [interp.mk_tuple([vconst(i), x]) for i, x in enumerate(inner)]
    if it.kind == "zip":
        inners = [iter_items(interp, x, st) for x in it.items]
        if any(x is None for x in inners):
            return None
        return [interp.mk_tuple(list(xs)) for xs in zip(*inners)]
    if it.kind == "arr" and it.shape is not None and len(it.shape) >= 1 and it.shape[0].is_const() and it.shape[0].c <= 4 and it.shape[0].c >= 0:
        out = []
        for i in range(it.shape[0].c):
            out.append(subscript(interp, it, vconst(i), st, None))
        return out
    return None


def length_dim(interp, it):
    if it.kind == "range" and it.extra is not None:
        lo, hi = it.extra
        return hi - lo
    if it.kind in ("enumerate",):
        return length_dim(interp, it.items[0])
    if it.kind == "zip":
        return length_dim(interp, it.items[0])
    sh = shape_of(it)
    if sh:
        return sh[0]
    if it.kind == "tqdm":
        return length_dim(interp, it.items[0])
    return None


def loop_element(interp, it, lid, st):
    """the abstract element bound by ``for x in it`` in a summarised loop"""
    labels = it.labels
    if it.kind == "range" and it.extra is not None:
        lo, hi = it.extra
        return V("int", T("lv", lid), shape=(), labels=labels, extra=("index", lo, hi))
    if it.kind == "count" and it.items is not None:
        # itertools.count(start, step): start + step * (number of the iteration)
        i = V("int", T("lv", lid), shape=(), labels=labels)
        return binop(interp, "add", it.items[0], binop(interp, "mul", it.items[1], i, st, None), st, None)
    if it.kind == "enumerate" and isinstance(it.extra, tuple) and it.extra and it.extra[0] == "start":
        # enumerate(x, s): the counter runs over s .. s + len(x) - 1 and is the loop's own variable; the element is
        # x[counter - s], which for a tail x = a[s:] is a[counter]
        inner, start = it.items[0], it.extra[1]
        n_ = length_dim(interp, inner)
        s_dim = dim_of(start) if start.kind == "int" else None
        i = V("int", T("lv", lid), shape=(), labels=labels | start.labels, extra=("index", s_dim, s_dim + n_) if (s_dim is not None and n_ is not None) else None)

        def elem(z):
            zt = z.term
            if z.kind == "arr" and isinstance(zt, Term) and zt.op == "getitem" and isinstance(zt.args[1], Term) and zt.args[1].op == "slice" and len(zt.args[1].args) == 3 and zt.args[1].args[0] == start.term and all(isinstance(q, Term) and q.op == "const" and q.args[0] is None for q in zt.args[1].args[1:]) and hasattr(interp, "vtab"):
                b_ = interp.vtab.get(zt.args[0])
                if b_ is not None and b_.kind == "arr":
                    return subscript(interp, b_, i, st, None)
            k_ = binop(interp, "sub", i, start, st, None)
            return subscript(interp, z, k_, st, None) if z.kind in ("arr", "list", "tuple") else V("unk", T("getitem", z.term, k_.term), labels=labels)

        if inner.kind == "zip" and inner.items is not None:
            return interp.mk_tuple([i, interp.mk_tuple([elem(z) for z in inner.items])])
        return interp.mk_tuple([i, elem(inner)])
    if it.kind == "enumerate":
        inner = it.items[0]
        i = V("int", T("lv", lid), shape=(), labels=labels, extra=("index", Dim(0), length_dim(interp, inner) or Dim.unknown("len")))
        if inner.kind == "zip" and inner.items is not None:
            # enumerate(zip(a, b)): position and the tuple of the elements at that position
            x = interp.mk_tuple([subscript(interp, z, i, st, None) if z.kind in ("arr", "list", "tuple") else V("unk", T("getitem", z.term, i.term), labels=labels) for z in inner.items])
            return interp.mk_tuple([i, x])
        x = subscript(interp, inner, i, st, None) if inner.kind in ("arr", "list", "tuple") else V("unk", T("getitem", inner.term, i.term), labels=labels)
        if inner.kind in ("list", "tuple") and inner.items is None and x.kind == "arr" and x.shape is None:
            x = V("unk", x.term, labels=labels, orig=inner.orig)
        return interp.mk_tuple([i, x])
    if it.kind == "zip":
        i = V("int", T("lv", lid), shape=(), labels=labels)
        return interp.mk_tuple([subscript(interp, x, i, st, None) if x.kind in ("arr", "list", "tuple") else V("unk", T("getitem", x.term, i.term), labels=labels) for x in it.items])
    if it.kind == "arr":
        i = V("int", T("lv", lid), shape=(), labels=labels)
        return subscript(interp, it, i, st, None)
    if it.kind in ("list", "tuple") :
        i = V("int", T("lv", lid), shape=(), labels=labels)
        sh = shape_of(it)
        et = T("getitem", it.term, i.term)
        if isinstance(it.term, Term) and it.term.op == "comp" and len(it.term.args) == 3 and isinstance(it.term.args[1], Term) and it.term.args[1].op == "range" and isinstance(it.extra, tuple) and len(it.extra) >= 2 and it.extra[0] == "comp" and isinstance(it.extra[1], V):
            # the k-th element of [e(j) for j in range(n)] is e(k)
            from .interp import subst_term

            rng = it.term.args[1]
            if len(rng.args) == 2 and rng.args[0] == T("dim", Dim(0)) or (len(rng.args) >= 1 and repr(rng.args[0]) in ("0", "dim(0)")):
                elt0 = it.extra[1]
                et2 = subst_term(it.term.args[2], {T("lv", it.term.args[0]): i.term})
                x = elt0.replace(term=et2, labels=labels | elt0.labels)
                if x.kind == "arr":
                    x.loc = fresh_id()
                return x
        x = V("unk" if sh is None else "arr", et, labels=labels, orig=it.orig, shape=(ragged_fix(tuple(sh[1:]), et) if sh is not None else None))
        if x.kind == "arr":
            x.loc = fresh_id()
        return x
    if it.kind == "dict" :
        return V("unk", T("key", it.term, T("lv", lid)), labels=labels)
    return V("unk", T("elem", it.term, T("lv", lid)), labels=labels, orig=it.orig)


from .api_numpy import *  # noqa: E402,F401,F403
from .api_lib import *  # noqa: E402,F401,F403
