"""Flag rules: a boolean hyper-parameter / argument acts by its truth value.  A numpy boolean (the outcome of a numpy
comparison, an element of a boolean parameter grid) is truthy but is not the object `True`: code that tests `flag is True`
treats `np.True_` as off.  The obligation compares the code with itself: the same calls with the flag given as `True`
and as `np.True_` leave the same state behind and return the same values (normal forms)."""
from __future__ import annotations

from .interp import State
from .terms import T, V


def np_true():
    return V("bool", T("const", True), shape=(), has_const=True, const_=True, labels=frozenset(["numpy-scalar"]))


def class_flag_equivalence(ctx, N, rule, cls, flag, ctor, steps, site, config="", interp_kw=None):
    """steps: list of (method, args_factory, kwargs_factory); factories are called once per run so that both runs see equal symbols"""
    out = []
    for val in (True, np_true()):
        I, st = ctx.interp(**(interp_kw or {})), State()
        o = ctx.construct(I, st, cls, **dict(ctor(), **{flag: val}))
        res = []
        for meth, mkargs, mkkw in steps:
            res.append(ctx.call_method(I, st, o, meth, *mkargs(), **mkkw()))
        out.append((st.heap[o.obj.id], res))
    (h1, r1), (h2, r2) = out
    diffs = sorted(k for k in set(h1) | set(h2) if k != flag and (k not in h1 or k not in h2 or (h1[k].kind != "undef" or h2[k].kind != "undef") and N.nf(h1[k].term) != N.nf(h2[k].term)))
    rdiff = [steps[i][0] for i, (a, b) in enumerate(zip(r1, r2)) if a is not None and b is not None and a.kind != "obj" and N.nf(a.term) != N.nf(b.term)]
    ctx.ob(rule, f"{cls.name}: {flag}=numpy.True_ behaves like {flag}=True", not diffs and not rdiff, f"attributes that differ: {diffs}; results that differ: {rdiff}" if (diffs or rdiff) else "same state and results", site, config or f"{flag}=numpy.True_")


def function_flag_equivalence(ctx, N, rule, fi, flag, mkargs, mkkw, site, config="", interp_kw=None):
    vals = []
    for val in (True, np_true()):
        I, st = ctx.interp(**(interp_kw or {})), State()
        vals.append(ctx.call_func(I, st, fi, *mkargs(), **dict(mkkw(), **{flag: val})))
    a, b = vals
    same = a is not None and b is not None and N.nf(a.term) == N.nf(b.term)
    ctx.ob(rule, f"{fi.node.name}: {flag}=numpy.True_ behaves like {flag}=True", same, "same value" if same else f"True: {repr(a.term)[:120] if a is not None else None} ; numpy.True_: {repr(b.term)[:120] if b is not None else None}", site, config or f"{flag}=numpy.True_")
