"""Shared machinery for the per-property specs: building symbolic inputs and
objects, running protocol scripts, comparing with reference models, recording
obligations, writing evidence, known findings and replay files."""
from __future__ import annotations

import glob
import hashlib
import json
import os
import time

from .interp import UNDEF, Closure, Interp, State
from .model import AnalysisError, AnchorError, ClassInfo, FunctionInfo, Program
from .nf import Normalizer, show_poly
from .stubs_src import STUBS
from .terms import FRESH, Dim, Order, T, Term, V, const, fresh_id, show, sym, unk, varr, vconst

VERIF = os.path.dirname(os.path.dirname(os.path.abspath(__file__)))
REPO_SRC = os.environ.get("SKMATTER_SRC", "/repo/src/skmatter")


def load_program(overlay=None, root=None):
    extra = {"skstubs": ("<stubs>", STUBS)}
    for path in sorted(glob.glob(os.path.join(VERIF, "ref", "*.py"))):
        name = "ref." + os.path.basename(path)[:-3]
        with open(path, encoding="utf-8") as fh:
            extra[name] = (path, fh.read())
    return Program(root or REPO_SRC, overlay=overlay, extra_modules=extra)


# ---------------------------------------------------------------------------
# symbolic inputs
# ---------------------------------------------------------------------------


def arr(name, *dims, inp=True, labels=(), dtype=None):
    if inp:
        from . import terms as _terms

        _terms.INPUT_SYMS.add(name)
    shape = tuple(Dim.of(d) for d in dims)
    orig = frozenset([("in", name)]) if inp else frozenset([FRESH])
    return V("arr", sym(name), shape=shape, orig=orig, labels=frozenset(labels), loc=fresh_id(), extra=dtype)


def scalar(name, lo=None, hi=None, lo_open=True, hi_open=True, labels=()):
    extra = None
    if lo is not None or hi is not None:
        extra = ("range", float("-inf") if lo is None else lo, float("inf") if hi is None else hi, lo_open, hi_open)
    return V("float", sym(name), shape=(), extra=extra, labels=frozenset(labels))


def integer(name, dim=None, labels=()):
    d = Dim.of(dim if dim is not None else name)
    return V("int", T("dim", d), shape=(), dim=d, labels=frozenset(labels))


def index(name, hi=None, labels=()):
    """an integer index value (not a size)"""
    v = V("int", sym(name), shape=(), labels=frozenset(labels))
    if hi is not None:
        v.extra = ("index", Dim(0), Dim.of(hi))
    return v


def extobj(name, cls="?", inp=True, fit=None):
    info = {"cls": cls}
    if fit is not None:
        info["fit"] = fit
    return V("ext", sym(name), extra=info, orig=frozenset([("in", name)]) if inp else frozenset([FRESH]))


def pyval(x):
    if isinstance(x, V):
        return x
    if isinstance(x, (list, tuple)):
        items = [pyval(i) for i in x]
        kind = "list" if isinstance(x, list) else "tuple"
        return V(kind, T(kind, *[i.term for i in items]), items=items, orig=frozenset([FRESH]), loc=fresh_id())
    if isinstance(x, dict):
        d = {k: pyval(v) for k, v in x.items()}
        return V("dict", T("dict", *[T("kv", const(k), d[k].term) for k in sorted(d, key=repr)]), items=d, loc=fresh_id())
    return vconst(x)


# ---------------------------------------------------------------------------
# results
# ---------------------------------------------------------------------------


class Obligation:
    __slots__ = ("rule", "instance", "status", "detail", "site", "config", "nontrivial")

    def __init__(self, rule, instance, status, detail="", site="", config="", nontrivial=True):
        self.rule = rule
        self.instance = instance
        self.status = status  # ok | violation | error
        self.detail = detail
        self.site = site
        self.config = config
        self.nontrivial = nontrivial

    def key(self):
        return f"{self.rule}|{self.instance}"

    def as_dict(self):
        return {"rule": self.rule, "instance": self.instance, "config": self.config, "status": self.status, "site": self.site, "detail": self.detail[:600]}


class Ctx:
    """context handed to a spec: the program + obligation recorder"""

    def __init__(self, prop, tier="quick", overlay=None, root=None):
        self.prop = prop
        self.tier = tier
        self.P = load_program(overlay=overlay, root=root)
        self.obligations = []
        self.evaluations = 0
        self.interps = []
        self.notes = []
        self.assumptions = []
        self.trusted = []

    # -- recording ------------------------------------------------------
    def ob(self, rule, instance, ok, detail="", site="", config="", nontrivial=True):
        status = "ok" if ok is True else ("error" if ok is None else "violation")
        self.evaluations += 1
        self.obligations.append(Obligation(rule, instance, status, detail, site, config, nontrivial))
        return ok is True

    def error(self, rule, instance, detail, site=""):
        return self.ob(rule, instance, None, detail, site)

    # -- interpreter construction --------------------------------------------
    def interp(self, order=(), assume=None, **config):
        I = Interp(self.P, order=Order(order), assume=assume, config=config)
        self.interps.append(I)
        return I

    def site(self, fi):
        if isinstance(fi, FunctionInfo):
            rel = os.path.relpath(fi.module.path, os.path.dirname(os.path.dirname(self.P.root))) if fi.module.path.startswith("/") else fi.module.path
            return f"{rel}:{getattr(fi.node, 'lineno', '?')} {fi.short}"
        return str(fi)

    # -- objects and calls ------------------------------------------------------
    def construct(self, I, st, cls_qual, **kwargs):
        cls = self.P.cls(cls_qual) if isinstance(cls_qual, str) else cls_qual
        return self._run(I, st, lambda: I.instantiate(cls, [], {k: pyval(v) for k, v in kwargs.items()}, st))

    def bare_object(self, I, st, cls_qual, attrs=None):
        """object of a repository class with given attributes and without running __init__"""
        cls = self.P.cls(cls_qual) if isinstance(cls_qual, str) else cls_qual
        v = I.new_object(st, cls=cls)
        v = v.replace(term=sym("self"))
        for k, x in (attrs or {}).items():
            st.heap[v.obj.id][k] = pyval(x)
        return v

    def _run(self, I, st, thunk):
        root = FunctionInfo(_ENTRY, next(iter(self.P.modules.values())))
        from .interp import Frame

        fr = Frame(root, None, (), len(st.pc), 0)
        fr.cls = None
        I.framestack.append(fr)
        st.frames.append({})
        I._dead = False
        try:
            return thunk()
        finally:
            st.frames.pop()
            I.framestack.pop()

    def call_method(self, I, st, objv, name, *args, **kwargs):
        m = objv.obj.cls.find_method(name)
        if m is None or getattr(m.cls, "external", False):
            if not I.api.is_known_method(name):
                raise AnchorError(f"method {objv.obj.cls.qual}.{name} not found")

            def thunk():
                fv = I.getattr_obj(objv, name, st)
                return I.call_value(fv, [pyval(a) for a in args], {k: pyval(v) for k, v in kwargs.items()}, st, None)

            return self._run(I, st, thunk)
        self._check_arity(m, len(args) + 1, kwargs)
        return self._run(I, st, lambda: I.call_function(Closure(m, self_v=objv, cls=m.cls), [pyval(a) for a in args], {k: pyval(v) for k, v in kwargs.items()}, st))

    def _check_arity(self, fi, npos, kwargs):
        """a spec that calls a (private) function with arguments its current signature does not take is looking at
        an interface that has changed: the anchor is gone (exit 2), nothing can be concluded from the call"""
        a = fi.node.args
        names = [x.arg for x in a.posonlyargs + a.args]
        if a.vararg is None and npos > len(names):
            raise AnchorError(f"{fi.qualname} takes {len(names)} positional parameters {names}; the specification passes {npos} (its interface changed)")
        if a.kwarg is None:
            allowed = set(names) | {x.arg for x in a.kwonlyargs}
            bad = [k for k in kwargs if k not in allowed]
            if bad:
                raise AnchorError(f"{fi.qualname} has no parameter(s) {bad} (its interface changed)")

    def call_func(self, I, st, qual, *args, **kwargs):
        f = self.P.func(qual) if isinstance(qual, str) else qual
        if not str(getattr(f, "qualname", "")).startswith("ref."):
            self._check_arity(f, len(args), kwargs)
        return self._run(I, st, lambda: I.call_function(Closure(f), [pyval(a) for a in args], {k: pyval(v) for k, v in kwargs.items()}, st))

    def attr(self, st, objv, name):
        return st.heap.get(objv.obj.id, {}).get(name)

    # -- comparisons ----------------------------------------------------------------
    def normalizer(self, **kw):
        return Normalizer(**kw)

    def same(self, N, a, b):
        """(equal?, text a, text b) for two abstract values / terms"""
        ta = a.term if isinstance(a, V) else a
        tb = b.term if isinstance(b, V) else b
        pa, pb = N.nf(ta), N.nf(tb)
        self._last_nf = (pa, pb)
        return pa == pb, show_poly(pa), show_poly(pb)

    def compare(self, rule, instance, N, code_v, ref_v, site="", config="", alternatives=()):
        """obligation: code value == reference value modulo the ring axioms.  `alternatives` are other
        spellings of the same reference algorithm (each equivalent to the first by construction, e.g. a
        loop nest written row-wise): agreement with any of them discharges the obligation; a report
        is made against the primary reference"""
        if alternatives and code_v is not None and not (isinstance(code_v, V) and code_v.kind == "undef"):
            for k_, alt in enumerate(alternatives):
                if alt is None:
                    continue
                try:
                    eq_, _, sb_ = self.same(N, code_v, alt)
                except Exception:
                    continue
                if eq_:
                    return self.ob(rule, instance, True, f"code ≡ reference (equivalent spelling #{k_ + 1}): {sb_[:300]}", site, config)
                if os.environ.get("VERIF_DEBUG_ALTS"):
                    from .nf import show_diff as _sd

                    try:
                        print(f"DEBUG-ALT {rule} #{k_ + 1}: {_sd(*self._last_nf)[:3]}")
                    except Exception as e_:
                        print(f"DEBUG-ALT {rule} #{k_ + 1}: {e_!r}")
        if code_v is None or ref_v is None or (isinstance(code_v, V) and code_v.kind == "undef"):
            return self.ob(rule, instance, False, f"value missing on the {'code' if code_v is None or (isinstance(code_v, V) and code_v.kind == 'undef') else 'reference'} side", site, config)
        eq, sa, sb = self.same(N, code_v, ref_v)
        if eq:
            return self.ob(rule, instance, True, f"code ≡ reference: {sb[:300]}", site, config)
        ct = code_v.term if isinstance(code_v, V) else code_v
        rt = ref_v.term if isinstance(ref_v, V) else ref_v
        unk_c = _has_unknown(ct)
        unk_r = _has_unknown(rt)
        if unk_r:
            return self.error(rule, instance, f"reference value contains unknowns: {sb[:300]}", site)
        if unk_c:
            return self.error(rule, instance, f"code value left the recognised language (unknown sub-term): {sa[:400]}", site)
        priv = sorted({x.args[1] for x in ct.walk() if isinstance(x, Term) and x.op == "method" and len(x.args) == 2 and isinstance(x.args[1], str) and x.args[1].startswith("_") and not x.args[1].startswith("__") and not any(c_.find_method(x.args[1]) is not None for m_ in self.P.modules.values() for c_ in m_.classes.values())}) if isinstance(ct, Term) else []
        if priv:
            # the code reads private state that no method defines and the hand-made pre-state of this obligation does
            # not contain (an attribute introduced by the change, filled elsewhere): the obligation is anchored on an
            # interface of private state that has changed - undecided, like any vanished anchor
            return self.error(rule, instance, f"undecided: the code reads private attribute(s) {priv} that the pre-state of this obligation does not define (the private state it is anchored on has changed)", site)
        new_ops = foreign_vocabulary(ct, rt)
        # an index-list operation that the normal form has rewritten completely (x[flatnonzero(m)] = x[m],
        # len(flatnonzero(m)) = count(m)) is not what the two sides differ in
        new_ops = {o_ for o_ in new_ops if not (o_ == "nonzero1" and "nonzero1(" not in sa)}
        if new_ops and os.environ.get("VERIF_NO_FOREIGN"):
            new_ops = set()  # debugging aid: show the differing sites of an undecided comparison
        if new_ops:
            # the code computes the value with operations the reference formula does not use: the
            # normal form cannot decide equality (an equivalent rewrite and a fault look alike)
            return self.error(rule, instance, f"undecided: the code value uses operations outside the vocabulary of the reference formula {sorted(new_ops)[:6]}; code: {sa[:300]}  vs reference: {sb[:300]}", site)
        from .nf import show_diff

        if os.environ.get("VERIF_DEBUG_TERMS"):
            print(f"DEBUG-TERMS {rule} {instance}\n  code: {ct!r}\n  ref : {rt!r}")
        try:
            sites = show_diff(*self._last_nf)
        except Exception:
            sites = []
        try:
            from .nf import diff_stats

            ns, mx, tot = diff_stats(*self._last_nf)
            stat = f"[sites={ns} max={mx} total={tot}] "
        except Exception:
            stat = ""
        where = (stat + "differs at (code vs reference): " + " ; ".join(sites) + " || ") if sites else ""
        return self.ob(rule, instance, False, f"{where}code: {sa[:500]}  ≠  reference: {sb[:500]}", site, config)

    def shape_is(self, rule, instance, v, dims, site="", config=""):
        want = tuple(Dim.of(d) for d in dims)
        if v is None or v.kind == "undef":
            return self.ob(rule, instance, False, "value missing", site, config)
        from .apitable import shape_of

        sh = shape_of(v)
        if sh is None or any(not d.known() for d in sh):
            return self.error(rule, instance, f"shape not resolved: {sh}", site)
        ok = len(sh) == len(want) and all(a == b for a, b in zip(sh, want))
        return self.ob(rule, instance, ok, f"shape {tuple(sh)} expected {want}", site, config)

    def no_shape_conflicts(self, rule, instance, I, since=0, site="", config=""):
        bad = [e for e in I.events[since:] if e["kind"] == "shape-conflict"]
        if bad:
            e = bad[0]
            return self.ob(rule, instance, False, f"{e.get('what')}: {e.get('a')} vs {e.get('b')} in `{e.get('src')}` ({e.get('short')} line {e.get('line')})", site or f"{e.get('func')}:{e.get('line')}", config)
        return self.ob(rule, instance, True, "no dimension conflict among the symbolic shapes", site, config)


import ast as _ast

_ENTRY = _ast.parse("def __spec__(): pass").body[0]


CORE_OPS = {
    "const", "sym", "dim", "tuple", "slice", "list", "getitem", "add", "sub", "neg", "mul", "smul", "div", "sdiv", "pow",
    "matmul", "T", "phi", "not", "and", "or", "lt", "le", "gt", "ge", "eq", "ne", "is", "isnot", "in", "notin", "reshape1",
    "astype", "bcast", "dg", "kw", "store", "head", "lv", "loop", "comp", "range", "undef", "truthy", "loopctl", "with_kw", "bitand",
    "bitor", "invert", "min", "max", "mod", "floordiv", "sqrt", "abs", "zeros", "eye", "int", "len", "shape", "kv", "dict",
    "method", "fn", "attr", "mcall", "after", "new", "obj", "raises", "stale", "reshape", "transpose", "elem", "key", "enumerate", "zip", "star",
}
ANTAGONISTS = [
    {"argmax", "argmin"}, {"emin", "emax"}, {"amax", "amin", "nanmax", "nanmin"}, {"floor", "ceil", "round", "trunc"}, {"sin", "cos", "tan"},
    {"any", "all"}, {"sum", "mean", "average", "median", "prod", "count"}, {"svd_U", "svd_Vt", "svd_S"}, {"svds_U", "svds_Vt", "svds_S"},
    {"rsvd_U", "rsvd_Vt", "rsvd_S"}, {"eigh_w", "eigh_v"}, {"eigsh_w", "eigsh_v"}, {"zeros", "ones", "full"}, {"inv", "pinv"}, {"exp", "log"},
    {"std", "var"}, {"svd_flip_u", "svd_flip_v"}, {"cumsum", "sum"}, {"sort", "argsort"}, {"where", "where3", "argwhere", "nonzero1"}, {"trace", "sum"},
    {"norm", "sum"}, {"lse", "sum"}, {"unique", "sort"}, {"append", "extend"}, {"fill_diagonal", "store"}, {"procrustes", "lstsq"},
]


SOLVES = {"pinv", "inv", "lstsq", "solve"}
FACTORISATIONS = {"svd_U", "svd_Vt", "svd_S", "svds_U", "svds_Vt", "svds_S", "rsvd_U", "rsvd_Vt", "rsvd_S", "eigh_w", "eigh_v", "eigsh_w", "eigsh_v", "qr_Q", "qr_R", "cholesky"}
REWRITE_ONLY_OPS = {"call:numpy.einsum", "count", "int", "float", "nonzero1", "where3", "arange", "slice1", "diagof", "call:numpy.count_nonzero", "call:numpy.tensordot", "call:numpy.vdot", "call:numpy.inner"}


def _vocab(t):
    out = set()
    from . import tq

    for x in tq.walk_all(t):
        if x.op == "call":
            out.add("call:" + str(x.args[0]))
        elif x.op == "mcall":
            out.add("mcall:" + str(x.args[1]))
        else:
            out.add(x.op)
    return out


def foreign_vocabulary(code_t, ref_t):
    """operations of the code value that neither the reference value nor the core algebra
    nor an antagonist of a reference operation (argmax/argmin, floor/round, ...) uses"""
    vc, vr = _vocab(code_t), _vocab(ref_t)
    allowed = set(vr) | CORE_OPS
    for group in ANTAGONISTS:
        if group & vr:
            allowed |= group
    # x[[i]] / x[i:i+1] (slice1) is always normalised to x[i] with a unit axis: never the reason for a mismatch
    foreign = {o for o in vc - allowed if o != "slice1"}
    # Only operations that, in this code base, appear through equivalent re-writings of a
    # formula (explicit index arithmetic, einsum contractions, counting a mask, casts of a
    # count) make the comparison undecided; any other foreign operation (a different solver,
    # another estimator call, squeeze/delete/stack ...) is reported as a violation.
    # a (pseudo-)inverse / least-squares solve of the reference formula cannot be written with index arithmetic, masks
    # and elementwise operations alone: a code value without any factorisation or solve is another computation
    # (the reciprocal of a diagonal replaces the inverse only for a diagonal matrix)
    if foreign and foreign <= REWRITE_ONLY_OPS and (vr & SOLVES) and not (vc & (SOLVES | FACTORISATIONS)):
        return set()
    if foreign and foreign <= REWRITE_ONLY_OPS:
        # ... unless such an operation decides an extent (a slice bound): truncating by a data-dependent
        # count is a different computation, not another spelling of the reference formula
        from . import tq

        for x in tq.walk_all(code_t):
            if x.op == "slice" and any(isinstance(b_, Term) and (_vocab(b_) & foreign) for b_ in x.args):
                return set()
        return foreign
    # (tried and rejected: "any library call without a transfer function => undecided"; three of the
    # independent breaking changes introduce such a call - np.delete losing the column order, np.ptp in a
    # wrong shortcut - and would no longer be reported)
    return set()


def _has_unknown(t):
    if not isinstance(t, Term):
        return False
    for x in t.walk():
        if x.op == "unk":
            return True
    return False


# ---------------------------------------------------------------------------
# evidence / verdict
# ---------------------------------------------------------------------------


def load_known():
    p = os.path.join(VERIF, "known_findings.json")
    if not os.path.exists(p):
        return {"known": [], "fixed": []}
    with open(p) as fh:
        return json.load(fh)


def finish(ctx, prop, tier, t0, spec_doc, floor, seed=0):
    """compute verdict, print report, write evidence; returns exit code"""
    known = load_known()
    known_keys = {k["key"]: k for k in known.get("known", []) if k.get("property") == prop}
    obs = ctx.obligations
    viol = [o for o in obs if o.status == "violation"]
    errs = [o for o in obs if o.status == "error"]
    unlisted = [o for o in viol if o.key() not in known_keys]
    listed = [o for o in viol if o.key() in known_keys]
    distinct = {}
    for o in obs:
        distinct.setdefault(o.key(), o)
    n_distinct = len(distinct)
    n_nontrivial = len({o.key() for o in obs if o.nontrivial})
    discharged = len({o.key() for o in obs if o.status == "ok"} - {o.key() for o in obs if o.status != "ok"})
    rules = sorted({o.rule for o in obs})
    code = 0
    print(f"[{prop}] tier={tier} obligations={n_distinct} evaluations={ctx.evaluations} discharged={discharged} violations={len(viol)} (known {len(listed)}) errors={len(errs)} rules={','.join(rules)}")
    stats = ctx.P.stats()
    calls_res = sum(i.resolved_calls for i in ctx.interps)
    calls_unres = sum(i.unresolved_calls for i in ctx.interps)
    inl = set()
    for i in ctx.interps:
        inl |= i.inlined
    print(f"[{prop}] analysed: {stats['files']} files, {stats['classes']} classes, {stats['functions']} functions parsed; {len(inl)} functions interpreted, call sites resolved {calls_res} / unresolved {calls_unres}, expressions {sum(i.exprs_evaluated for i in ctx.interps)}")
    for o in errs:
        print(f"ANALYSIS-ERROR property={prop} rule={o.rule} instance={o.instance} site={o.site} :: {o.detail[:500]}")
    seen_known = set()
    for o in listed:
        if o.key() in seen_known:
            continue
        seen_known.add(o.key())
        print(f"KNOWN-FINDING: property={prop} {known_keys[o.key()]['what']} [{o.key()}]")
    os.makedirs(os.path.join(VERIF, "evidence", "replay"), exist_ok=True)
    seen = set()
    k = 0
    for o in unlisted:
        if o.key() in seen:
            continue
        seen.add(o.key())
        k += 1
        rp = os.path.join(VERIF, "evidence", "replay", f"{prop}-{k}.json")
        with open(rp, "w") as fh:
            json.dump({"property": prop, "key": o.key(), **o.as_dict()}, fh, indent=1)
        print(f"  {o.site}: rule {o.rule} instance {o.instance} [{o.config}]: {o.detail[:1400]}")
        print(f"VIOLATION property={prop} replay={rp}")
    if errs or n_distinct < floor:
        if n_distinct < floor:
            print(f"ANALYSIS-ERROR property={prop} obligation count {n_distinct} fell below the floor {floor} confirmed by hand")
        code = 2
    if unlisted:
        code = 1
    # stale known findings are reported (not an error): the defect disappeared
    for kk, kv in known_keys.items():
        if kk not in {o.key() for o in viol}:
            print(f"[{prop}] note: known finding no longer present: {kk}")
    samples = []
    for o in list(distinct.values())[:6] + viol[:3]:
        samples.append(o.as_dict())
    ev = {
        "property_id": prop,
        "tier": tier,
        "seed": int(seed),
        "level": "other",
        "coverage": {
            "explanation": spec_doc,
            "obligations": n_distinct,
            "discharged": discharged,
            "evaluations": ctx.evaluations,
            "distinct_nontrivial": n_nontrivial,
            "rule": "one obligation = (rule, instance) resolved to a concrete construct of /repo/src/skmatter on this run; evaluations = obligation x configuration evaluations; non-trivial = involves at least one non-literal abstract value (declared by the rule)",
            "samples": samples,
            "rules": rules,
            "checker_cmd": f"/venv/bin/python /verif/check.py {prop} --tier {tier}",
            "trusted_base": ctx.trusted or ["python ast of /repo/src/skmatter", "numpy/scipy/sklearn transfer functions in sa/api_lib.py (read from sklearn 1.5.2, numpy 2.2.6)", "reference models in /verif/ref"],
            "analysed": {"files": stats["files"], "classes": stats["classes"], "functions_parsed": stats["functions"], "functions_interpreted": len(inl), "call_sites_resolved": calls_res, "call_sites_unresolved": calls_unres},
            "known_findings_reported": sorted(seen_known),
            "exhaustive": True,
            **getattr(ctx, "extra_coverage", {}),
        },
        "assumptions": ctx.assumptions,
        "wall_s": round(time.time() - t0, 3),
        "violations": len({o.key() for o in unlisted}),
    }
    with open(os.path.join(VERIF, "evidence", f"{prop}.json"), "w") as fh:
        json.dump(ev, fh, indent=1, default=str)
    print(f"[{prop}] exit {code} ({ev['wall_s']} s)")
    return code
