"""Abstract interpreter over the numpy subset used by skmatter.

It never runs repository code: it walks the AST of a function with abstract
values (sa.terms.V).  One pass computes, for every value, a symbolic term
(global value numbering), a symbolic shape, an origin set (aliasing of caller
arrays) and provenance labels; side effects are logged as events.  Branches
whose condition is not decided by the configuration are analysed on both arms
and joined with phi terms; loops are summarised as ``loop`` terms (body
analysed with loop-carried bindings replaced by head symbols); repository calls
are inlined context-sensitively; library calls go through sa.apitable.
"""
from __future__ import annotations

import ast
import os
from fractions import Fraction

from . import loops
from .model import AnalysisError, ClassInfo, ExternalClass, FunctionInfo, ModuleInfo
from .terms import (
    FRESH,
    Dim,
    ObjRef,
    Order,
    T,
    Term,
    V,
    const,
    fresh_id,
    sym,
    unk,
    varr,
    vbool,
    vconst,
    vfloat,
    vint,
    vunk,
)

MAX_DEPTH = 14
UNDEF = V("undef", T("undef"))


class State:
    __slots__ = ("frames", "heap", "pc")

    def __init__(self):
        self.frames = []  # list of dict name->V
        self.heap = {}  # objid -> dict attr->V
        self.pc = ()

    def copy(self):
        s = State()
        s.frames = [dict(f) for f in self.frames]
        s.heap = {k: dict(v) for k, v in self.heap.items()}
        s.pc = self.pc
        return s

    def become(self, other):
        self.frames = other.frames
        self.heap = other.heap
        self.pc = other.pc


class Frame:
    def __init__(self, fi, self_v, closure, pc_base, depth):
        self.fi = fi
        self.self_v = self_v
        self.closure = closure  # list of frame indices visible (enclosing function frames)
        self.returns = []  # (pc_suffix, V, State)
        self.pc_base = pc_base
        self.depth = depth
        self.loop_depth = 0


class Closure:
    """a function value: FunctionInfo + captured enclosing frame index chain + bound self"""

    def __init__(self, fi, env_chain=(), self_v=None, cls=None, lam=None):
        self.fi = fi
        self.env_chain = env_chain
        self.self_v = self_v
        self.cls = cls  # defining class for super()
        self.lam = lam


def subst_term(t, mapping):
    """replace sub-terms (DAG-safe); occurrences of lv(L) bound by an inner loop L are left alone"""
    memo = {}
    bound_labels = {k.args[0] for k in mapping if isinstance(k, Term) and k.op == "lv" and k.args}

    def rec_atom(at):
        if isinstance(at, tuple):
            return tuple(rec(y) if isinstance(y, (Term, Dim)) else (rec_atom(y) if isinstance(y, tuple) else y) for y in at)
        return at

    def rec(x):
        if isinstance(x, Dim):
            if all(isinstance(at, str) for at, _ in x.lin):
                return x
            d = {}
            for at, k in x.lin:
                na = rec_atom(at)
                d[na] = d.get(na, 0) + k
            return Dim(x.c, d)
        if not isinstance(x, Term):
            if isinstance(x, tuple):
                return tuple(rec(y) for y in x)
            return x
        r = memo.get(x)
        if r is not None:
            return r
        if x in mapping:
            r = mapping[x]
        elif not x.args:
            r = x
        elif x.op in ("loop", "comp") and x.args[0] in bound_labels:
            # a loop / comprehension that re-binds the label (sibling loops share labels): its body is closed
            if x.op == "loop" and len(x.args) == 4:
                r = Term("loop", x.args[0], rec(x.args[1]), rec(x.args[2]), x.args[3])
            else:
                r = Term("comp", x.args[0], rec(x.args[1]), *x.args[2:])
        else:
            args = tuple(rec(y) for y in x.args)
            r = x if all(p is q for p, q in zip(args, x.args)) else Term(x.op, *args)
        memo[x] = r
        return r

    return rec(t)


def _vectorise(t, elem, whole, lv):
    """[f(x) for x in arr]  ->  f(arr) when f is elementwise: replace the element by the
    array; phi nodes become elementwise selections; None if the loop variable survives"""
    memo = {}
    ELEMENTWISE = {"add", "sub", "mul", "smul", "div", "sdiv", "pow", "neg", "sqrt", "abs", "exp", "log", "lt", "le", "gt", "ge", "eq", "ne", "const", "sym", "dim", "not", "and", "or", "phi", "where3"}

    def rec(x):
        if not isinstance(x, Term):
            return x
        if x in memo:
            return memo[x]
        if x == elem:
            r = whole
        elif x == lv:
            r = None
        elif x.op in ("const", "sym", "dim"):
            r = x
        elif x.op == "phi":
            parts = [rec(a) for a in x.args]
            r = None if any(p is None for p in parts) else T("where3", *parts)
        elif x.op in ELEMENTWISE:
            parts = [rec(a) for a in x.args]
            r = None if any(p is None for p in parts) else T(x.op, *parts)
        else:
            # any other operation must not involve the loop variable at all
            r = x if not any(y == lv for y in x.walk()) else None
        memo[x] = r
        return r

    out = rec(t)
    if out is None or not any(y == whole for y in out.walk()):
        return None
    return out


class Interp:
    def __init__(self, program, order=None, assume=None, config=None):
        from . import apitable

        self.P = program
        self.api = apitable
        self.order = order or Order()
        self.assume = assume  # callable(cond_term, node, interp) -> True/False/None
        self.events = []
        self.framestack = []
        self.config = config or {}
        self.unresolved_calls = 0
        self.resolved_calls = 0
        self.inlined = set()
        self.attr_syms = {}
        self.loop_counter = 0
        self.exprs_evaluated = 0
        self.unknown_values = 0
        self.vtab = {}

    # ------------------------------------------------------------------ events
    def event(self, kind, node=None, st=None, **kw):
        fr = self.framestack[-1] if self.framestack else None
        ev = {
            "kind": kind,
            "func": fr.fi.qualname if fr else None,
            "short": fr.fi.short if fr else None,
            "line": getattr(node, "lineno", None),
            "pc": st.pc if st is not None else (),
            "stack": tuple(f.fi.short for f in self.framestack),
            "loop_depth": fr.loop_depth if fr else 0,
        }
        if node is not None:
            try:
                ev["src"] = ast.unparse(node)[:200]
            except Exception:
                ev["src"] = "?"
        ev.update(kw)
        self.events.append(ev)
        return ev

    # ------------------------------------------------------------------ objects
    def new_object(self, st, cls=None, ext=None, label=None):
        o = ObjRef(cls=cls, ext=ext, label=label)
        st.heap[o.id] = {}
        term = sym(label) if label else T("obj", (cls.name if cls else ext or "obj"), o.id)
        return V("obj", term, obj=o)

    def instantiate(self, cls, args, kwargs, st, node=None):
        label = None
        v = self.new_object(st, cls=cls, label=label)
        init = cls.find_method("__init__")
        if init is not None and not getattr(init.cls, "external", False):
            self.call_function(Closure(init, self_v=v, cls=init.cls), args, kwargs, st, node)
        ctor_terms = tuple(a.term for a in args) + tuple(T("kw", k, kwargs[k].term) for k in sorted(kwargs))
        v = v.replace(term=T("new", cls.name, ctor_terms))
        v.obj.label = None
        return v

    def getattr_obj(self, ov, name, st, node=None):
        """attribute read on an abstract object"""
        o = ov.obj
        attrs = st.heap.get(o.id, {})
        if name == "__dict__":
            return V("objdict", T("vars", ov.term), obj=o, labels=ov.labels, extra=ov)
        if name in attrs:
            v = attrs[name]
            if v.kind == "undef":
                self.event("read-undef", node, st, attr=name, obj=o)
                return vunk("undef." + name)
            self.event("getattr", node, st, attr=name, obj=o, value=v)
            return v
        if o.cls is not None:
            m = o.cls.find_method(name)
            if m is not None and not getattr(m.cls, "external", False):
                if m.is_property():
                    return self.call_function(Closure(m, self_v=ov, cls=m.cls), [], {}, st, node)
                if m.is_static():
                    return V("func", T("fn", m.qualname), func=Closure(m, cls=m.cls))  # no receiver is bound
                return V("func", T("method", ov.term, name), func=Closure(m, self_v=ov, cls=m.cls))
            for c in o.cls.mro():
                if not getattr(c, "external", False) and name in c.class_attrs:
                    return self.eval(c.class_attrs[name], st)
            # external method on self (BaseEstimator._validate_data, ...)
            if self.api.is_known_method(name):
                return V("func", T("method", ov.term, name), func=("extmethod", ov, name))
        # symbolic attribute (pre-state of an object we did not build)
        pre = self.config.get("attr_default")
        if pre is not None:
            v = pre(self, ov, name, st)
            if v is not None:
                attrs[name] = v
                self.event("getattr", node, st, attr=name, obj=o, value=v)
                return v
        if o.cls is not None and not self.config.get("open_world", False):
            self.event("read-missing", node, st, attr=name, obj=o)
            return V("func", T("method", ov.term, name), func=("extmethod", ov, name))
        v = V("unk", T("attr", ov.term, name), labels=ov.labels)
        return v

    # ------------------------------------------------------------------ calls
    def bind_args(self, fi, args, kwargs, st, self_v=None):
        a = fi.node.args
        params = [x.arg for x in a.posonlyargs + a.args]
        env = {}
        pos = list(args)
        if self_v is not None and params and not isinstance(fi.node, ast.Lambda):
            env[params[0]] = self_v
            params = params[1:]
        elif self_v is not None and isinstance(fi.node, ast.Lambda):
            pass
        defaults = a.defaults
        ndef = len(defaults)
        npar = len(a.posonlyargs + a.args)
        allparams = [x.arg for x in a.posonlyargs + a.args]
        default_of = {}
        for i, d in enumerate(defaults):
            default_of[allparams[npar - ndef + i]] = d
        for x, d in zip(a.kwonlyargs, a.kw_defaults):
            if d is not None:
                default_of[x.arg] = d
        kw = dict(kwargs)
        for i, p in enumerate(params):
            if i < len(pos):
                env[p] = pos[i]
            elif p in kw:
                env[p] = kw.pop(p)
            elif p in default_of:
                env[p] = self.eval_default(default_of[p], fi, st)
            else:
                env[p] = vunk("missing-arg:" + p)
        extra = pos[len(params):]
        if a.vararg is not None:
            env[a.vararg.arg] = self.mk_tuple(extra)
        for x in a.kwonlyargs:
            if x.arg in kw:
                env[x.arg] = kw.pop(x.arg)
            elif x.arg in default_of:
                env[x.arg] = self.eval_default(default_of[x.arg], fi, st)
            else:
                env[x.arg] = vunk("missing-kw:" + x.arg)
        if a.kwarg is not None:
            env[a.kwarg.arg] = self.mk_dict(kw)
        return env

    _MUTATORS = {"append", "extend", "insert", "pop", "popitem", "clear", "update", "setdefault", "remove", "add", "discard", "sort", "reverse"}

    def _mutates_param(self, fi, name):
        """does the body of the function write into the object its parameter `name` is bound to?"""
        for x_ in ast.walk(fi.node):
            if isinstance(x_, ast.Subscript) and isinstance(x_.ctx, (ast.Store, ast.Del)) and isinstance(x_.value, ast.Name) and x_.value.id == name:
                return True
            if isinstance(x_, ast.AugAssign) and isinstance(x_.target, ast.Name) and x_.target.id == name:
                return True
            if isinstance(x_, ast.Call) and isinstance(x_.func, ast.Attribute) and x_.func.attr in self._MUTATORS and isinstance(x_.func.value, ast.Name) and x_.func.value.id == name:
                return True
        return False

    def _stores_param(self, fi, name):
        """is the object bound to parameter `name` kept beyond the call: assigned to an attribute, or returned?"""
        def is_it(v_):
            # the object itself, possibly chosen by a conditional expression / `p or default`
            if isinstance(v_, ast.Name):
                return v_.id == name
            if isinstance(v_, ast.IfExp):
                return is_it(v_.body) or is_it(v_.orelse)
            if isinstance(v_, ast.BoolOp):
                return any(is_it(z_) for z_ in v_.values)
            return False

        for x_ in ast.walk(fi.node):
            if isinstance(x_, ast.Assign) and is_it(x_.value) and any(isinstance(t_, ast.Attribute) for t_ in x_.targets):
                return True
            if isinstance(x_, ast.Return) and x_.value is not None and is_it(x_.value):
                return True
        return False

    def eval_default(self, node, fi, st):
        if isinstance(node, (ast.List, ast.Dict, ast.Set)) or (isinstance(node, ast.Call) and isinstance(node.func, ast.Name) and node.func.id in ("list", "dict", "set")):
            # one container object is created when the function is defined and shared by every call that
            # omits the argument: writing into it carries state from call to call
            a_ = fi.node.args
            pairs = list(zip([x.arg for x in (a_.posonlyargs + a_.args)][len(a_.posonlyargs + a_.args) - len(a_.defaults):], a_.defaults)) + [(x.arg, d) for x, d in zip(a_.kwonlyargs, a_.kw_defaults) if d is not None]
            for pname, d in pairs:
                if d is node and self._mutates_param(fi, pname):
                    self.event("shape-conflict", node, st, what="hidden state: a mutable default argument is written to by the function (it persists between calls)", a=pname, b=fi.short)
                elif d is node and self._stores_param(fi, pname):
                    self.event("shape-conflict", node, st, what="hidden state: a mutable default argument is stored on the object (one container shared by every instance built with the default)", a=pname, b=fi.short)
        # defaults are constants / simple expressions evaluated in module scope
        fr = Frame(fi, None, (), len(st.pc), len(self.framestack))
        self.framestack.append(fr)
        st.frames.append({})
        try:
            return self.eval(node, st)
        finally:
            st.frames.pop()
            self.framestack.pop()

    def call_function(self, clo, args, kwargs, st, node=None):
        fi = clo.fi
        if len(self.framestack) >= MAX_DEPTH:
            self.unknown_values += 1
            return vunk("depth")
        if isinstance(fi.node, ast.FunctionDef) and fi.is_abstract():
            return vunk("abstract")
        stubs = self.config.get("stubs")
        if stubs and fi.short in stubs:
            # a stub sees its arguments in the order of the parameters, however the call site spelled them
            a_ = fi.node.args
            names = [x.arg for x in a_.posonlyargs + a_.args]
            if clo.self_v is not None and names and not isinstance(fi.node, ast.Lambda):
                names = names[1:]
            pos, kwl = list(args), dict(kwargs)
            for p_ in names[len(pos):]:
                if p_ in kwl:
                    pos.append(kwl[p_])  # also left under its name: a stub may look an argument up either way
                else:
                    break
            return stubs[fi.short](self, clo, pos, kwl, st, node)
        self.inlined.add(fi.qualname)
        env = self.bind_args(fi, args, kwargs, st, clo.self_v)
        fr = Frame(fi, clo.self_v, clo.env_chain, len(st.pc), len(self.framestack))
        fr.cls = clo.cls
        if self.framestack and clo.env_chain:
            fr.loop_depth = 0
        self.framestack.append(fr)
        st.frames.append(env)
        fr.frame_index = len(st.frames) - 1
        try:
            if isinstance(fi.node, ast.Lambda):
                val = self.eval(fi.node.body, st)
                alive = True
                result = val
            else:
                alive = self.exec_block(fi.node.body, st)
                result = None
            cands = list(fr.returns)
            if isinstance(fi.node, ast.Lambda):
                cands = [((), result, None)]
            elif alive:
                cands.append((st.pc[fr.pc_base:], vconst(None), None))
            if not cands:
                # every path raised
                st.frames.pop()
                self.framestack.pop()
                self._dead = True
                return vunk("noreturn")
            # states: returns carry snapshots, the fall-through is st itself
            resolved = []
            for pcs, v, snap in cands:
                resolved.append((pcs, v, snap if snap is not None else st))
            acc_pc, acc_v, acc_st = resolved[-1]
            for pcs, v, snap in reversed(resolved[:-1]):
                cond = self._distinguishing_cond(pcs, acc_pc)
                joined = self.join_states(snap, acc_st, cond)
                acc_v = self.phi(cond, v, acc_v)
                acc_st = joined
                acc_pc = self._common_prefix(pcs, acc_pc)
            base_pc = st.pc[: fr.pc_base]
            st.become(acc_st if acc_st is not st else st)
            st.pc = base_pc + tuple(acc_pc) if len(resolved) == 1 else base_pc
            st.frames.pop()
            return acc_v
        finally:
            if self.framestack and self.framestack[-1] is fr:
                self.framestack.pop()

    @staticmethod
    def _common_prefix(a, b):
        out = []
        for x, y in zip(a, b):
            if x == y:
                out.append(x)
            else:
                break
        return tuple(out)

    def _distinguishing_cond(self, pcs, other):
        """condition (Term) under which the path with suffix ``pcs`` rather than
        ``other`` is taken: conjunction of the entries of pcs after the common prefix"""
        k = len(self._common_prefix(pcs, other))
        rest = pcs[k:]
        if not rest:
            rest2 = other[k:]
            if not rest2:
                return T("const", True)
            c = self._conj(rest2)
            return T("not", c)
        return self._conj(rest)

    @staticmethod
    def _conj(entries):
        ts = []
        for c, pol in entries:
            ts.append(c if pol else T("not", c))
        if len(ts) == 1:
            return ts[0]
        return T("and", *ts)

    # ------------------------------------------------------------------ joins
    def phi(self, cond, a, b):
        if a is b:
            return a
        if a.kind == "undef" and b.kind == "undef":
            return a
        if a.term == b.term and a.kind == b.kind and a.kind not in ("obj",):
            if a.shape == b.shape:
                return a
        clabels = self._cond_labels.get(cond, frozenset()) if hasattr(self, "_cond_labels") else frozenset()
        if a.kind == "undef" or b.kind == "undef":
            other = b if a.kind == "undef" else a
            return V("maybe", T("phi", cond, a.term, b.term), items=[other], labels=other.labels | clabels, extra=("undef_when", cond, a.kind == "undef"))
        kind = a.kind if a.kind == b.kind else ("float" if {a.kind, b.kind} <= {"int", "float"} else "unk")
        shape = None
        if a.shape is not None and b.shape is not None and len(a.shape) == len(b.shape):
            shape = tuple(x if x == y else Dim.unknown("phi") for x, y in zip(a.shape, b.shape))
        items = None
        if a.items is not None and b.items is not None and len(a.items) == len(b.items) and kind in ("tuple", "list"):
            items = [self.phi(cond, x, y) for x, y in zip(a.items, b.items)]
        obj = a.obj if a.obj is b.obj else None
        if kind == "obj" and obj is None:
            kind = "unk"
        dim = a.dim if (a.dim is not None and a.dim == b.dim) else None
        func = a.func if a.func is b.func else None
        if kind == "func" and func is None:
            func = ("phi", cond, a, b)
        extra = ("phi", cond, a, b)
        if kind == "ext" and isinstance(a.extra, dict) and isinstance(b.extra, dict):
            extra = dict(b.extra)
            extra.update({k: v for k, v in a.extra.items() if v is not None})
        return V(kind, T("phi", cond, a.term, b.term), shape=shape, items=items, obj=obj, orig=a.orig | b.orig, labels=a.labels | b.labels | clabels, dim=dim, func=func, loc=a.loc if a.loc == b.loc else None, extra=extra)

    def join_states(self, A, B, cond):
        if A is B:
            return A
        out = State()
        out.pc = self._common_prefix(A.pc, B.pc)
        n = min(len(A.frames), len(B.frames))
        for i in range(n):
            fa, fb = A.frames[i], B.frames[i]
            if fa is fb:
                out.frames.append(fa)
                continue
            d = {}
            for k in set(fa) | set(fb):
                va, vb = fa.get(k, UNDEF), fb.get(k, UNDEF)
                d[k] = va if va is vb else self.phi(cond, va, vb)
            out.frames.append(d)
        for oid in set(A.heap) | set(B.heap):
            ha, hb = A.heap.get(oid), B.heap.get(oid)
            if ha is None or hb is None:
                out.heap[oid] = dict(ha if ha is not None else hb)
                continue
            d = {}
            for k in set(ha) | set(hb):
                va, vb = ha.get(k, UNDEF), hb.get(k, UNDEF)
                d[k] = va if va is vb else self.phi(cond, va, vb)
            out.heap[oid] = d
        return out

    # ------------------------------------------------------------------ truth
    def truth(self, v, node=None, st=None):
        """True / False / None(undecided)"""
        if v.has_const:
            try:
                return bool(v.const)
            except Exception:
                return None
        if v.kind == "none":
            return False
        if v.kind in ("obj", "func", "cls", "mod", "scorer"):
            return True
        if v.kind in ("tuple", "list", "dict") and v.items is not None:
            return len(v.items) > 0
        if self.assume is not None:
            r = self.assume(v.term, node, self)
            if r is not None:
                return r
        return None

    # ------------------------------------------------------------------ statements
    def exec_block(self, stmts, st):
        for s in stmts:
            alive = self.exec_stmt(s, st)
            if not alive:
                return False
        return True

    def cur(self):
        return self.framestack[-1]

    def refine(self, v, st):
        """a value joined under a condition that the current path has decided is its branch:
        after `if x is None: raise`, x = (A if c else None) is A"""
        n = 0
        while isinstance(v.extra, tuple) and len(v.extra) == 4 and v.extra[0] == "phi" and n < 8:
            _, c, va, vb = v.extra
            take = None
            for t, val in st.pc:
                if t == c:
                    take = val
                elif isinstance(t, Term) and t.op == "not" and t.args and t.args[0] == c:
                    take = not val
                elif isinstance(c, Term) and c.op == "not" and c.args and c.args[0] == t:
                    take = not val
            if take is None:
                break
            v = va if take else vb
            n += 1
        return v

    def lookup(self, name, st, node=None):
        fr = self.cur()
        env = st.frames[-1]
        if name in env:
            v = env[name]
            if v.kind == "undef":
                return vunk("unbound:" + name)
            if v.kind == "maybe":
                self.event("maybe-unbound", node, st, name=name, value=v)
                return v.items[0] if v.items else vunk("maybe:" + name)
            return self.refine(v, st)
        for idx in reversed(fr.closure or ()):
            if idx < len(st.frames) and name in st.frames[idx]:
                v = st.frames[idx][name]
                if v.kind == "maybe":
                    return v.items[0] if v.items else vunk("maybe:" + name)
                return v
        # module scope
        r = self.P.resolve_name(fr.fi.module, name)
        if r is not None:
            return self.wrap_resolved(r, st)
        b = self.api.builtin(name)
        if b is not None:
            return b
        self.event("unresolved-name", node, st, name=name)
        return vunk("name:" + name)

    def wrap_resolved(self, r, st):
        if isinstance(r, FunctionInfo):
            return V("func", T("fn", r.qualname), func=Closure(r))
        if isinstance(r, (ClassInfo, ExternalClass)):
            return V("cls", T("cls", r.name), extra=r)
        if isinstance(r, ModuleInfo):
            return V("mod", T("mod", r.name), extra=("mod", r))
        if isinstance(r, tuple):
            if r[0] == "ext":
                return V("mod", T("ext", r[1]), extra=("ext", r[1]))
            if r[0] == "assign":
                node_ = r[2]
                if (isinstance(node_, (ast.Dict, ast.List, ast.Set)) or (isinstance(node_, ast.Call) and isinstance(node_.func, ast.Name) and node_.func.id in ("dict", "list", "set", "OrderedDict", "defaultdict"))) and self._module_mutates(r[1], node_):
                    # a module-level mutable container consulted from inside a function: results may depend on
                    # what earlier calls left there (hidden state shared between calls)
                    self.event("shape-conflict", node_, st, what="hidden state: a module-level mutable container is read inside a function", a=type(node_).__name__, b="module global")
                return self.eval_in_module(r[2], r[1], st)
        return vunk("resolved?")

    def _module_mutates(self, module, value_node):
        """is the module-level name bound to this container written to anywhere in its module (item store /
        delete, mutating method, augmented assignment, `global`)? a container that is only read is a constant"""
        tree = getattr(module, "tree", None) or getattr(module, "node", None)
        if tree is None:
            return True
        names = set()
        for s_ in getattr(tree, "body", []):
            if isinstance(s_, (ast.Assign, ast.AnnAssign)) and getattr(s_, "value", None) is value_node:
                for tg in (s_.targets if isinstance(s_, ast.Assign) else [s_.target]):
                    if isinstance(tg, ast.Name):
                        names.add(tg.id)
        if not names:
            return True
        MUT = {"append", "extend", "insert", "pop", "popitem", "clear", "update", "setdefault", "remove", "add", "discard", "sort", "reverse", "__setitem__"}
        for x_ in ast.walk(tree):
            if isinstance(x_, ast.Global) and names & set(x_.names):
                return True
            if isinstance(x_, (ast.Subscript,)) and isinstance(x_.ctx, (ast.Store, ast.Del)) and isinstance(x_.value, ast.Name) and x_.value.id in names:
                return True
            if isinstance(x_, ast.AugAssign) and isinstance(x_.target, ast.Name) and x_.target.id in names:
                return True
            if isinstance(x_, ast.Call) and isinstance(x_.func, ast.Attribute) and x_.func.attr in MUT and isinstance(x_.func.value, ast.Name) and x_.func.value.id in names:
                return True
        return False

    def eval_in_module(self, node, module, st):
        fi = FunctionInfo(ast.Lambda(args=ast.arguments(posonlyargs=[], args=[], kwonlyargs=[], kw_defaults=[], defaults=[]), body=node), module)
        return self.call_function(Closure(fi), [], {}, st)

    def assign_name(self, name, v, st):
        st.frames[-1][name] = v

    def exec_stmt(self, s, st):
        m = getattr(self, "x_" + type(s).__name__, None)
        if m is None:
            self.event("unsupported-stmt", s, st)
            return True
        return m(s, st)

    def x_Pass(self, s, st):
        return True

    def x_Expr(self, s, st):
        self.eval(s.value, st)
        return not self._consume_dead()

    def _consume_dead(self):
        d = getattr(self, "_dead", False)
        self._dead = False
        return d

    def x_Import(self, s, st):
        for a in s.names:
            st.frames[-1][a.asname or a.name.split(".")[0]] = V("mod", T("ext", a.name), extra=("ext", a.name))
        return True

    def x_ImportFrom(self, s, st):
        for a in s.names:
            q = f"{s.module}.{a.name}"
            st.frames[-1][a.asname or a.name] = V("mod", T("ext", q), extra=("ext", q))
        return True

    def x_Global(self, s, st):
        # `global name` inside a function of the analysed package: the function keeps something at module level
        # between calls (a memo, a counter, a "last seen" record) - results may depend on earlier calls
        self.event("shape-conflict", s, st, what="hidden state: a function rebinds a module-level variable (`global`): it survives from call to call", a=tuple(s.names), b="module global")
        return True

    def x_Nonlocal(self, s, st):
        return True

    def x_Assert(self, s, st):
        c = self.eval(s.test, st)
        t = self.truth(c, s.test, st)
        self.event("assert", s, st, cond=c.term, decided=t)
        return True

    def x_Delete(self, s, st):
        for t in s.targets:
            if isinstance(t, ast.Attribute):
                ov = self.eval(t.value, st)
                if ov.kind == "obj":
                    st.heap[ov.obj.id][t.attr] = UNDEF
                    self.event("delattr", s, st, attr=t.attr, obj=ov.obj)
            elif isinstance(t, ast.Name):
                st.frames[-1][t.id] = UNDEF
        return True

    def x_Assign(self, s, st):
        v = self.eval(s.value, st)
        if self._consume_dead():
            return False
        for t in s.targets:
            self.assign(t, v, st, s)
        return True

    def x_AnnAssign(self, s, st):
        if s.value is not None:
            v = self.eval(s.value, st)
            self.assign(s.target, v, st, s)
        return True

    def assign(self, target, v, st, stmt):
        if isinstance(target, ast.Name):
            self.assign_name(target.id, v, st)
        elif isinstance(target, (ast.Tuple, ast.List)) and sum(isinstance(t, ast.Starred) for t in target.elts) == 1 and v.items is not None and len(v.items) >= len(target.elts) - 1:
            # a, *rest = seq  /  *init, last = seq : the starred name takes the middle as a list
            k = next(i for i, t in enumerate(target.elts) if isinstance(t, ast.Starred))
            after = len(target.elts) - k - 1
            seq = list(v.items)
            for t, x in zip(target.elts[:k], seq[:k]):
                self.assign(t, x, st, stmt)
            self.assign(target.elts[k].value, self.mk_list(seq[k: len(seq) - after]), st, stmt)
            for t, x in zip(target.elts[k + 1:], seq[len(seq) - after:] if after else []):
                self.assign(t, x, st, stmt)
        elif isinstance(target, (ast.Tuple, ast.List)):
            items = self.unpack(v, len(target.elts), st, stmt)
            for t, x in zip(target.elts, items):
                if isinstance(t, ast.Starred):
                    self.assign(t.value, vunk("starred"), st, stmt)
                else:
                    self.assign(t, x, st, stmt)
        elif isinstance(target, ast.Attribute):
            ov = self.eval(target.value, st)
            if ov.kind == "obj":
                st.heap.setdefault(ov.obj.id, {})[target.attr] = v
                self.event("setattr", stmt, st, attr=target.attr, obj=ov.obj, value=v)
            else:
                self.event("setattr-unknown", stmt, st, attr=target.attr, value=v, recv=ov)
                if ov.kind == "arr" and target.attr in ("shape", "dtype", "strides"):
                    # a.shape = ... re-lays-out the array object itself: every holder of it (the caller) sees the new shape
                    self.event("mutate", stmt, st, how="set-" + target.attr, target=ov, value=v, targetsrc=ast.unparse(target.value))
                    if target.attr == "shape" and ov.shape is not None:
                        dims_v = list(v.items) if v.kind in ("tuple", "list") and v.items is not None else [v]
                        try:
                            new = self.api.reshape_to(self, ov, dims_v, st, stmt)
                            self.rebind(ov, new.replace(orig=ov.orig, loc=ov.loc), st)
                        except Exception:
                            pass
        elif isinstance(target, ast.Subscript):
            base = self.eval(target.value, st)
            idx = self.eval_index(target.slice, st)
            self.store_subscript(base, idx, v, st, stmt, target)
        else:
            self.event("unsupported-target", stmt, st)

    def unpack(self, v, n, st, node):
        if v.items is not None and len(v.items) == n:
            return list(v.items)
        if v.kind == "arr" and v.shape is not None and len(v.shape) >= 1:
            out = []
            for i in range(n):
                out.append(varr(T("getitem", v.term, const(i)), shape=v.shape[1:], orig=v.orig, labels=v.labels, loc=v.loc) if len(v.shape) > 1 else vint(T("getitem", v.term, const(i)), dim=None, labels=v.labels))
            return out
        if v.extra and isinstance(v.extra, tuple) and v.extra[0] == "phi" and v.extra[2].items is not None and v.extra[3].items is not None:
            a = self.unpack(v.extra[2], n, st, node)
            b = self.unpack(v.extra[3], n, st, node)
            return [self.phi(v.extra[1], x, y) for x, y in zip(a, b)]
        out = []
        for i in range(n):
            out.append(V("unk", T("getitem", v.term, const(i)), labels=v.labels, orig=v.orig))
        return out

    def store_subscript(self, base, idx, v, st, stmt, target):
        """a[idx] = v"""
        if base.kind in ("list", "dict") and base.items is not None and idx.has_const and base.kind == "list" and isinstance(idx.const, int) and -len(base.items) <= idx.const < len(base.items):
            items = list(base.items)
            items[idx.const] = v
            new = base.replace(items=items, term=T("list", *[x.term for x in items]))
            self.event("mutate", stmt, st, how="setitem", target=base, index=idx, value=v, targetsrc=ast.unparse(target.value))
            self.rebind(base, new, st)
            return
        if base.kind == "dict" and base.items is not None and idx.has_const:
            items = dict(base.items)
            items[idx.const] = v
            new = base.replace(items=items, term=T("dict", *[T("kv", const(k), items[k].term) for k in sorted(items, key=repr)]))
            self.rebind(base, new, st)
            return
        if base.kind == "arr" and isinstance(base.term, Term) and base.term.op == "T" and len(base.term.args) == 1 and base.shape is not None and len(base.shape) == 2 and ((idx.kind == "int" and idx.shape in ((), None)) or (idx.kind == "arr" and idx.shape == () and idx.extra == "int")) and not getattr(self, "_in_tview", False):
            # a write through a transposed view: row k of A^T is column k of A
            under = self.vtab.get(base.term.args[0])
            if under is not None and under.kind == "arr" and under.loc is not None and under.loc == base.loc and under.shape is not None and len(under.shape) == 2:
                live = None
                for env in list(st.frames) + list(st.heap.values()):
                    for x_ in env.values():
                        if isinstance(x_, V) and x_.kind == "arr" and x_.loc == base.loc and x_.term == under.term:
                            live = x_
                if live is not None:
                    none_ = vconst(None)
                    full_ = V("slice", T("slice", const(None), const(None), const(None)), items=[none_, none_, none_])
                    self._in_tview = True
                    try:
                        self.store_subscript(live, self.mk_tuple([full_, idx]), v, st, stmt, target)
                    finally:
                        self._in_tview = False
                    return
        self.event("mutate", stmt, st, how="setitem", target=base, index=idx, value=v, targetsrc=ast.unparse(target.value))
        self._float_index_hazard(idx, st, stmt)
        if base.kind == "arr" and isinstance(base.extra, tuple) and base.extra and base.extra[0] == "dyn" and v.kind in ("arr", "float"):
            # the buffer was allocated with the dtype of caller data: anything but values of that very array
            # (selections of it) is converted on assignment - an integer input truncates a computed float
            src_dt = base.extra[1]
            if self.api.dtype_base(v.term) != self.api.dtype_base(src_dt) and not (v.has_const and v.const == 0):
                self.event("shape-conflict", stmt, st, what="precision-loss: a computed value is stored into a buffer that has the dtype of the caller's array (an integer input truncates it)", a=repr(src_dt)[:60], b=repr(v.term)[:60])
        # shape check: value must broadcast to the indexed region
        if base.kind == "arr":
            region = self.api.index_shape(self, base, idx, st, stmt)
            if region is not None and v.shape is not None:
                self.api.broadcast(self, region, v.shape, st, stmt, what="store")
        if idx.kind == "diagidx" and base.kind == "arr" and base.shape is not None and len(base.shape) == 2 and base.shape[0] == base.shape[1]:
            # a[diag_indices] = diag(a) + c   is   a + c I
            dgo = T("diagof", base.term)
            t = v.term
            c = None
            if t.op == "add" and v.shape is not None:
                if t.args[0] == dgo:
                    c = t.args[1]
                elif t.args[1] == dgo:
                    c = t.args[0]
            if c is not None:
                new = base.replace(term=T("add", base.term, T("smul", c, T("eye", self.api.dim_term(base.shape[0])))), labels=base.labels | v.labels, has_const=False, const_=None, items=None)
                self.rebind(base, new, st)
                return
        if base.kind == "arr" and base.shape is not None and len(base.shape) == 1 and v.kind == "arr" and v.shape == base.shape and self.api.whole_range(idx, base.shape[0]) and (base.extra in (None, "float") or base.extra == v.extra):
            # a[np.arange(len(a))] = v: every entry is overwritten
            new = base.replace(term=v.term, labels=base.labels | v.labels, has_const=False, const_=None, items=None)
            self.rebind(base, new, st)
            return
        if base.kind == "arr" and base.shape is not None and len(base.shape) == 1 and v.kind == "arr" and v.shape == base.shape and idx.kind == "slice" and idx.items is not None and all(i_.kind == "none" for i_ in idx.items) and (base.extra in (None, "float") or base.extra == v.extra) and v.extra in (None, "float"):
            # a[:] = v with v of the extent of a: every entry is overwritten
            new = base.replace(term=v.term, labels=base.labels | v.labels, has_const=False, const_=None, items=None)
            self.rebind(base, new, st)
            return
        blk = self._block_store(base, idx, v)
        new = base.replace(term=blk if blk is not None else T("store", base.term, idx.term, v.term), labels=base.labels | v.labels | idx.labels, has_const=False, const_=None, items=None)
        self.rebind(base, new, st)

    def _float_index_hazard(self, idx, st, node):
        """an index that may be the float64 empty array np.array([]) (one arm of a branch) raises IndexError
        unless the access is guarded by a test of its length / size"""
        alts, seen = [idx], []
        while alts:
            a_ = alts.pop()
            seen.append(a_)
            if isinstance(a_.extra, tuple) and len(a_.extra) == 4 and a_.extra[0] == "phi":
                alts.extend([a_.extra[2], a_.extra[3]])
        if not any(x_.extra == "float-empty" for x_ in seen):
            return
        guarded = any(isinstance(c_, Term) and any(isinstance(y_, Term) and y_.op in ("len", "size") and y_.args and y_.args[0] == idx.term for y_ in c_.walk()) for c_, _pol in st.pc)
        if not guarded:
            self.event("shape-conflict", node, st, what="an index that may be the float64 empty array np.array([]) is used without a length guard (IndexError: arrays used as indices must be of integer type)", a=repr(idx.term)[:80], b="float index")

    def _block_store(self, base, idx, v):
        """Z = zeros(shape); Z[:k] = A  /  Z[:, :k] = A   is the concatenation [A, 0]"""
        bt = base.term
        if base.kind == "arr" and base.shape is not None and len(base.shape) == 1 and base.shape[0].known() and bt.op == "zeros" and idx.kind == "slice" and idx.items[2].kind == "none" and all(i_.kind == "int" or (i_.kind == "arr" and i_.shape == ()) for i_ in idx.items[:2]) and v.has_const and v.const in (1, 1.0, True) and not (idx.items[0].has_const and idx.items[1].has_const):
            # Z = zeros(n); Z[lo:hi] = 1 : the indicator of the half-open interval [lo, hi)
            n_ = base.shape[0]
            pos = V("arr", T("arange", self.api.dim_term(n_)), shape=(n_,), orig=frozenset([FRESH]), labels=frozenset(), loc=fresh_id(), extra="int")
            m1 = self.api.compare(self, ast.GtE(), pos, idx.items[0], None, None)
            m2 = self.api.compare(self, ast.Lt(), pos, idx.items[1], None, None)
            return self.api.binop(self, "bitand", m1, m2, None, None).term
        if bt.op == "astype_dyn" and bt.args[1] == T("dtype", v.term):
            bt = bt.args[0]  # a buffer of the block's own dtype stores it without a cast
        if base.kind == "arr" and base.shape is not None and bt.op == "stack" and len(bt.args) >= 3 and bt.args[-1].op == "zeros" and v.kind == "arr" and v.shape is not None and len(v.shape) == len(base.shape) and bt.args[0].op == "const":
            # [A, 0][..., k:] = B  with k the extent of A  is  [A, B]
            axis = int(bt.args[0].args[0])
            items = idx.items if idx.kind == "tuple" and idx.items is not None else [idx]
            if len(items) == axis + 1 and all(it.kind == "slice" and all(x.kind == "none" for x in it.items) for it in items[:axis]) and items[axis].kind == "slice":
                lo, hi, step = items[axis].items
                lod = Dim(lo.const) if lo.has_const and isinstance(lo.const, int) else lo.dim
                zt = bt.args[-1].args[axis] if len(bt.args[-1].args) > axis else None
                zd = zt.args[0] if zt is not None and zt.op == "dim" else (Dim(int(zt.args[0])) if zt is not None and zt.op == "const" and isinstance(zt.args[0], Fraction) else None)
                if zd is not None and zd == v.shape[axis] and hi.kind == "none" and step.kind == "none" and lod is not None and all(ax == axis or db == dv for ax, (db, dv) in enumerate(zip(base.shape, v.shape))) and base.shape[axis] == lod + v.shape[axis]:
                    return T("stack", *bt.args[:-1], v.term)
            return None
        if base.kind == "arr" and base.shape is not None and len(base.shape) >= 2 and base.shape[0].is_const() and 0 < base.shape[0].c <= 8 and idx.has_const and isinstance(idx.const, int) and not isinstance(idx.const, bool) and 0 <= idx.const < base.shape[0].c and v.kind == "arr" and v.shape is not None and tuple(v.shape) == tuple(base.shape[1:]):
            # Z = zeros((n, ...)) of fixed small height; Z[k] = row : the list of its rows
            n_ = int(base.shape[0].c)
            rows = None
            if bt.op == "zeros":
                rows = [T("zeros", *[self.api.dim_term(d) for d in base.shape[1:]])] * n_
            elif bt.op == "list" and len(bt.args) == n_:
                rows = list(bt.args)
            if rows is not None:
                rows[idx.const] = v.term
                return T("list", *rows)
        if base.kind != "arr" or base.shape is None or bt.op != "zeros" or v.kind != "arr" or v.shape is None:
            return None
        items = idx.items if idx.kind == "tuple" and idx.items is not None else [idx]
        if len(items) > len(base.shape) or len(v.shape) != len(base.shape):
            return None
        axis = None
        for ax, it in enumerate(items):
            if it.kind != "slice":
                return None
            lo, hi, step = it.items
            if step.kind != "none" or not (lo.kind == "none" or (lo.has_const and lo.const == 0)):
                return None
            if hi.kind == "none":
                continue
            if axis is not None:
                return None
            axis = ax
        if axis is None:
            return None
        for ax, (db, dv) in enumerate(zip(base.shape, v.shape)):
            if ax != axis and db != dv:
                return None
        rest = base.shape[axis] - v.shape[axis]
        if not rest.known():
            return None
        if rest == Dim(0):
            return v.term
        dims = tuple(self.api.dim_term(rest if ax == axis else d) for ax, d in enumerate(base.shape))
        return T("stack", const(axis), v.term, T("zeros", *dims))

    def rebind(self, old, new, st):
        """in-place mutation: every binding holding ``old`` now holds ``new``; other
        views of the same storage become unknown-valued"""
        # writing through a basic view v = b[idx] (out=v, v += ...) updates exactly that region of b
        view_of = old.term.args[0] if (isinstance(old.term, Term) and old.term.op == "getitem" and len(old.term.args) == 2) else None
        view_idx = old.term.args[1] if view_of is not None else getattr(old, "view", None)
        if view_idx is not None and getattr(new, "view", None) is None and new is not old:
            new.view = view_idx  # the value stays a view of the same region after it was written through

        def other(x):
            if view_of is not None and (x.term == view_of or (isinstance(x.term, Term) and x.term.op == "head" and len(x.term.args) == 3 and x.term.args[1] == view_of)):
                # (the rows handed out by zip / enumerate before the loop are views of the buffer as it is at the head)
                return x.replace(term=T("store", x.term, old.term.args[1], new.term), has_const=False, const_=None, items=None)
            if view_of is None and view_idx is not None and getattr(x, "view", None) is None and x.shape is not None and old.shape is not None and len(x.shape) == len(old.shape):
                # a second write through the same view: the region of the base it covers is overwritten again
                return x.replace(term=T("store", x.term, view_idx, new.term), has_const=False, const_=None, items=None)
            return x.replace(term=T("stale", x.term, new.term))

        for env in st.frames:
            for k, x in env.items():
                if x is old:
                    env[k] = new
                elif old.loc is not None and x.loc == old.loc and x is not new and x.kind == "arr":
                    env[k] = other(x)
        for attrs in st.heap.values():
            for k, x in attrs.items():
                if x is old:
                    attrs[k] = new
                elif old.loc is not None and x.loc == old.loc and x is not new and x.kind == "arr":
                    attrs[k] = other(x)

    def x_AugAssign(self, s, st):
        cur = self.eval(s.target, st)
        rhs = self.eval(s.value, st)
        res = self.binop(s.op, cur, rhs, st, s)
        if cur.kind == "arr" or (cur.kind == "unk" and not isinstance(s.target, ast.Name)):
            # in place on the array object
            self.event("mutate", s, st, how="augassign", target=cur, value=rhs, targetsrc=ast.unparse(s.target))
            new = res.replace(orig=cur.orig, loc=cur.loc, kind=cur.kind if cur.kind == "arr" else res.kind)
            if isinstance(s.target, ast.Subscript):
                # a[idx] op= v  : mutation of the base
                base = self.eval(s.target.value, st)
                idx = self.eval_index(s.target.slice, st)
                self.events.pop()
                self.store_subscript(base, idx, res, st, s, s.target)
                return True
            self.rebind(cur, new, st)
            # the target itself (name / attribute) now holds new (rebind handled identity)
            if isinstance(s.target, ast.Name):
                st.frames[-1][s.target.id] = new
            elif isinstance(s.target, ast.Attribute):
                ov = self.eval(s.target.value, st)
                if ov.kind == "obj":
                    st.heap[ov.obj.id][s.target.attr] = new
                    self.event("setattr", s, st, attr=s.target.attr, obj=ov.obj, value=new, aug=True)
            return True
        if cur.kind == "list" and isinstance(s.op, ast.Add):
            self.assign(s.target, res, st, s)
            return True
        if isinstance(s.target, ast.Subscript):
            base = self.eval(s.target.value, st)
            idx = self.eval_index(s.target.slice, st)
            self.store_subscript(base, idx, res, st, s, s.target)
            return True
        self.assign(s.target, res, st, s)
        return True

    def x_Return(self, s, st):
        v = self.eval(s.value, st) if s.value is not None else vconst(None)
        if self._consume_dead():
            return False
        fr = self.cur()
        snap = st.copy()
        self.event("return", s, st, value=v, state=snap, probing=getattr(self, "_probing", 0))
        fr.returns.append((st.pc[fr.pc_base:], v, snap))
        return False

    def x_Raise(self, s, st):
        exc = None
        if s.exc is not None:
            if isinstance(s.exc, ast.Call):
                exc = ast.unparse(s.exc.func)
            else:
                exc = ast.unparse(s.exc)
        self.event("raise", s, st, exc=exc)
        return False

    def x_If(self, s, st):
        c = self.eval(s.test, st)
        t = self.truth(c, s.test, st)
        self.event("branch", s.test, st, cond=c.term, decided=t, labels=c.labels)
        if t is True:
            return self.exec_block(s.body, st)
        if t is False:
            return self.exec_block(s.orelse, st)
        return self.fork(c, s.body, s.orelse, st)

    def fork(self, c, body, orelse, st):
        self._note_cond_labels(c)
        a = st.copy()
        b = st.copy()
        a.pc = st.pc + ((c.term, True),)
        b.pc = st.pc + ((c.term, False),)
        # frames returns must be kept per path: returns store snapshots, fine
        alive_a = self.exec_block(body, a)
        alive_b = self.exec_block(orelse, b)
        if alive_a and alive_b:
            j = self.join_states(a, b, c.term)
            j.pc = st.pc
            st.become(j)
            return True
        if alive_a:
            st.become(a)
            return True
        if alive_b:
            st.become(b)
            return True
        return False

    def _note_cond_labels(self, c):
        if not hasattr(self, "_cond_labels"):
            self._cond_labels = {}
        if c.labels:
            self._cond_labels[c.term] = self._cond_labels.get(c.term, frozenset()) | c.labels

    def x_With(self, s, st):
        for it in s.items:
            v = self.eval(it.context_expr, st)
            if it.optional_vars is not None:
                self.assign(it.optional_vars, v, st, s)
        return self.exec_block(s.body, st)

    def x_Try(self, s, st):
        # body without exception; each handler on the pre-state under a symbolic
        # 'exception raised' condition the configuration may decide.
        pre = st.copy()
        mark = len(self.events)
        alive = self.exec_block(s.body, st)
        if alive and s.orelse:
            # the else clause belongs to the path on which the body raised nothing
            alive = self.exec_block(s.orelse, st)
        results = [(None, st if alive else None)]
        for h in s.handlers:
            name = ast.unparse(h.type) if h.type is not None else "BaseException"
            first = None
            for x in ast.walk(ast.Module(body=s.body, type_ignores=[])):
                if isinstance(x, ast.Call):
                    first = ast.unparse(x.func)
                    break
            argt = T("const", None)
            for x in ast.walk(ast.Module(body=s.body, type_ignores=[])):
                if isinstance(x, ast.Call):
                    if x.args and isinstance(x.args[0], ast.Name):
                        env = pre.frames[-1]
                        if x.args[0].id in env:
                            argt = env[x.args[0].id].term
                    break
            cond = V("bool", T("raises", name, first or "?", argt), shape=())
            t = self.truth(cond, h, st)
            if t is None and self.assume is None:
                t = None
            self.event("except", h, st, exc=name, first_call=first, decided=t)
            if t is False:
                continue
            hs = pre.copy()
            hs.pc = pre.pc + ((cond.term, True),)
            if h.name:
                hs.frames[-1][h.name] = vunk("exc")
            ha = self.exec_block(h.body, hs)
            if t is True:
                if ha:
                    st.become(hs)
                    alive = True
                else:
                    alive = False
                results = None
                break
            results.append((cond.term, hs if ha else None))
        if results is not None:
            live = [(c, x) for c, x in results if x is not None]
            if not live:
                alive = False
            else:
                acc = live[0][1]
                for c, x in live[1:]:
                    acc = self.join_states(x, acc, c)
                acc.pc = pre.pc
                st.become(acc)
                alive = True
        if alive and s.finalbody:
            alive = self.exec_block(s.finalbody, st)
        return alive

    def x_FunctionDef(self, s, st):
        fr = self.cur()
        fi = FunctionInfo(s, fr.fi.module, None, outer=fr.fi)
        fi.name = s.name
        chain = tuple(fr.closure or ()) + (len(st.frames) - 1,)
        st.frames[-1][s.name] = V("func", T("fn", fr.fi.qualname + "." + s.name), func=Closure(fi, env_chain=chain, self_v=None, cls=getattr(fr, "cls", None)))
        return True

    # -- loops ------------------------------------------------------------
    def x_For(self, s, st):
        it = self.eval(s.iter, st)
        elems = self.api.iter_items(self, it, st)
        if elems is not None and len(elems) <= 6:
            for e in elems:
                self.assign(s.target, e, st, s)
                alive = self.exec_loop_body(s.body, st)
                if alive == "break":
                    break
                if alive is False:
                    return False
            else:
                if s.orelse:
                    return self.exec_block(s.orelse, st)
            return True
        return self.symbolic_loop(s, st, it)

    def exec_loop_body(self, body, st):
        fr = self.cur()
        fr.loop_ctl = getattr(fr, "loop_ctl", [])
        fr.loop_ctl.append([])
        base_len = len(st.pc)
        alive = self.exec_block(body, st)
        ctl = fr.loop_ctl.pop()
        if ctl:
            # break / continue happened on some path
            kinds = {k for k, _ in ctl}
            states = [x for _, x in ctl]
            acc = st if alive else None
            for k, x in ctl:
                if acc is None:
                    acc = x
                else:
                    extra = x.pc[base_len:]
                    acc = self.join_states(x, acc, T("loopctl", k, self._conj(extra)) if extra else T("loopctl", k))
            st.become(acc)
            st.pc = st.pc[:base_len]
            if "break" in kinds and not alive and len(kinds) == 1:
                return "break"
            return True
        return alive

    def x_Break(self, s, st):
        fr = self.cur()
        if getattr(fr, "loop_ctl", None):
            fr.loop_ctl[-1].append(("break", st.copy()))
        self.event("break", s, st, state=st.copy(), probing=getattr(self, "_probing", 0))
        return False

    def x_Continue(self, s, st):
        fr = self.cur()
        if getattr(fr, "loop_ctl", None):
            fr.loop_ctl[-1].append(("continue", st.copy()))
        self.event("continue", s, st)
        return False

    def x_While(self, s, st):
        return self.symbolic_loop(s, st, None)

    def symbolic_loop(self, s, st, it):
        """Summarise a loop with an unknown trip count.

        pass 1 discovers the loop-carried bindings; pass 2 analyses the body with
        those replaced by head symbols; afterwards each carried binding becomes
        loop(id, iter, init, body-value)."""
        fr = self.cur()
        self.loop_counter += 1
        fr.loop_depth += 1
        depth = fr.loop_depth
        lid = f"L{depth}"
        is_for = isinstance(s, ast.For)
        guard_term = None
        if is_for and it is not None and it.kind == "arr" and isinstance(it.term, Term) and it.term.op == "nonzero1":
            # for j in np.flatnonzero(m): body   ==   for j in range(len(m)): if m[j]: body
            msh = self.term_shape(it.term.args[0])
            if msh is not None and len(msh) == 1:
                guard_term = T("getitem", it.term.args[0], T("lv", lid))
                it = V("range", T("range", self.api.dim_term(Dim(0)), self.api.dim_term(msh[0])), labels=it.labels, extra=(Dim(0), msh[0]))
        iter_term = it.term if it is not None else T("while")
        if is_for and it is not None and it.kind == "enumerate" and isinstance(it.extra, tuple) and it.extra and it.extra[0] == "start":
            # for k, x in enumerate(xs, s): the passes are numbered s .. s + n - 1 like those of `for k in range(s, s + n)`
            n_en = self.api.length_dim(self, it)
            s_en = self.api.dim_of(it.extra[1]) if it.extra[1].kind == "int" else None
            if os.environ.get("VERIF_DEBUG_IND"):
                print("DBG enum-start", n_en, s_en, it.extra[1].kind, [self.api.shape_of(z) for z in (it.items[0].items or [])] if it.items[0].kind == "zip" else None)
            if n_en is not None and n_en.known() and s_en is not None:
                iter_term = T("range", self.api.dim_term(s_en), self.api.dim_term(s_en + n_en))
        elif is_for and it is not None and it.kind in ("zip", "enumerate"):
            # for (a, b) in zip(x, y) / for k, (a, b) in enumerate(zip(x, y)): the passes are numbered 0 .. n-1 like
            # those of `for k in range(n)`; the elements are x[k], y[k] (bound by loop_element)
            n_zip = self.api.length_dim(self, it)
            if n_zip is not None and n_zip.known():
                iter_term = T("range", self.api.dim_term(Dim(0)), self.api.dim_term(n_zip))
        if is_for and it is not None and it.kind == "count":
            iter_term = const(True)  # an unbounded counter: the loop ends by break / return only, like `while True`

        def loopvar(state):
            if not is_for:
                return
            lv = self.api.loop_element(self, it, lid, state)
            self.assign(s.target, lv, state, s)

        def run(state):
            if is_for:
                loopvar(state)
                c = None
            else:
                c = self.eval(s.test, state)
            fr.loop_ctl = getattr(fr, "loop_ctl", [])
            fr.loop_ctl.append([])
            nret = len(fr.returns)
            base_len = len(state.pc)
            alive = self.exec_block(s.body, state)
            ctl = fr.loop_ctl.pop()
            for k, x in ctl:
                extra = x.pc[base_len:]
                cond = T("loopctl", k, self._conj(extra)) if extra else T("loopctl", k, lid)
                if k == "continue" and extra:
                    cond = self._conj(extra)  # `if g: continue` then the rest of the body: an ordinary two-way branch on g
                if alive:
                    state.become(self.join_states(x, state, cond))
                else:
                    state.become(x)
                    alive = True
                state.pc = state.pc[:base_len]
            return alive, c, fr.returns[nret:]

        pre = st.copy()
        mark = len(self.events)
        nret0 = len(fr.returns)
        probe = st.copy()
        self._probing = getattr(self, "_probing", 0) + 1
        alive1, _, _ = run(probe)
        self._probing -= 1
        del self.events[mark:]
        del fr.returns[nret0:]
        changed = self._changed_bindings(pre, probe)
        # pass 2 with head symbols
        head = st.copy()
        ordinal = {}
        head_terms = {}
        for where, key in changed:
            init = self._get_binding(pre, where, key)
            k = (init.term if init is not None else None)
            ordinal[k] = ordinal.get(k, 0) + 1
            pv_ = self._get_binding(probe, where, key)
            hv = self._head_value(init, lid, ordinal[k], probe_v=pv_)
            if pv_ is not None and pv_.labels - hv.labels:
                # provenance: what one pass of the body lets flow into the carried value is part of the
                # value every later iteration starts from
                hv = hv.replace(labels=hv.labels | pv_.labels)
            head_terms[(where, key)] = hv.term
            self._set_binding(head, where, key, hv)
        alive2, cterm, rets = run(head)
        # induction variables: a carried integer advanced by a constant every iteration (j = 1; ...; j += 1) holds
        # init + step * (number of the iteration) at the start of each pass - the value `for j in count(1)` binds
        indmap = {}
        if alive2:
            for where, key in changed:
                ht = head_terms.get((where, key))
                bv = self._get_binding(head, where, key)
                init = self._get_binding(pre, where, key)
                if os.environ.get("VERIF_DEBUG_IND"):
                    print("IND?", key, init.kind if init is not None else None, bv.kind if bv is not None else None, bv.shape if bv is not None else None, repr(bv.term)[:200] if bv is not None else None)
                if ht is None or bv is None or init is None or init.kind != "int" or not (bv.kind == "int" or (bv.kind == "arr" and bv.shape in ((), None))):
                    continue
                t_ = bv.term
                if os.environ.get("VERIF_DEBUG_IND"):
                    print("IND", key, repr(t_)[:300], "| ht", repr(ht), "| iter", repr(iter_term)[:120])
                # a path that leaves the loop (break) never starts another iteration: only the continuing arm counts
                while isinstance(t_, Term) and t_.op == "phi" and len(t_.args) == 3 and isinstance(t_.args[0], Term) and t_.args[0].op == "loopctl" and t_.args[0].args and t_.args[0].args[0] == "break" and ht in (t_.args[1], t_.args[2]):
                    t_ = t_.args[2] if t_.args[1] == ht else t_.args[1]
                if isinstance(t_, Term) and t_.op == "add" and len(t_.args) == 2 and ht in t_.args:
                    stp = t_.args[1] if t_.args[0] == ht else t_.args[0]
                    if bv.kind == "int" and isinstance(stp, Term) and stp.op == "const" and not loops.mentions_head(stp, lid):
                        indmap[ht] = T("add", init.term, T("smul", stp, T("lv", lid))) if stp != const(1) else T("add", init.term, T("lv", lid))
                    elif is_for and it is not None and init.term == const(0) and isinstance(iter_term, Term) and stp == T("getitem", iter_term, T("lv", lid)) and not loops.mentions_head(iter_term, lid):
                        # a running offset (start = 0; for n in lens: ...; start += n): before pass k it is the sum of the
                        # first k lengths, cumsum([0] + lens)[k]; advanced by the current length it is entry k + 1
                        cuts = T("cumsum", T("concat", T("list", const(0)), iter_term))
                        indmap[T("add", ht, stp)] = T("getitem", cuts, T("add", T("lv", lid), const(1)))
                        indmap[T("add", stp, ht)] = T("getitem", cuts, T("add", T("lv", lid), const(1)))
                        indmap[ht] = T("getitem", cuts, T("lv", lid))
        if indmap:
            for where, key in changed:
                bv = self._get_binding(head, where, key)
                ht = head_terms.get((where, key))
                if bv is None or ht in indmap:
                    continue
                nt = subst_term(bv.term, indmap)
                if nt is not bv.term:
                    nb = bv.replace(term=nt)
                    if isinstance(bv.extra, tuple) and len(bv.extra) == 2 and bv.extra[0] == "last" and isinstance(bv.extra[1], V):
                        nb.extra = ("last", bv.extra[1].replace(term=subst_term(bv.extra[1].term, indmap)))
                    self._set_binding(head, where, key, nb)
            if cterm is not None:
                cterm = cterm.replace(term=subst_term(cterm.term, indmap))
        if guard_term is not None and alive2:
            for where, key in changed:
                ht = head_terms.get((where, key))
                bv = self._get_binding(head, where, key)
                init = self._get_binding(pre, where, key)
                if ht is not None and bv is not None and init is not None and init.kind != "undef" and bv.term != ht and bv.kind != "maybe":
                    self._set_binding(head, where, key, bv.replace(term=T("phi", guard_term, bv.term, ht), has_const=False, const_=None, items=None))
        fr.loop_depth -= 1
        # returns inside the loop body: keep them, marked as conditional on the loop
        fixed = []
        for pcs, v, snap in rets:
            fixed.append((pcs + ((T("inloop", lid, iter_term), True),), v, snap))
        fr.returns[nret0:] = fixed
        # exit state
        out = st
        cl = (cterm.labels if cterm is not None else frozenset()) | (it.labels if it is not None else frozenset())
        coupled = self._argmin_fold(it, lid, changed, pre, head, head_terms, out) if (is_for and alive2) else {}
        for where, key in changed:
            if (where, key) in coupled:
                self._set_binding(out, where, key, coupled[(where, key)])
                continue
            init = self._get_binding(pre, where, key)
            body_v = self._get_binding(head, where, key)
            if body_v is None or not alive2:
                body_v = self._get_binding(probe, where, key)
            if body_v is not None and body_v.kind == "maybe":
                body_v = body_v.items[0].replace(term=body_v.term) if body_v.items else vunk("maybe")
            if init is not None and init.kind == "maybe":
                init = init.items[0].replace(term=init.term) if init.items else None
            initt = init.term if init is not None and init.kind != "undef" else T("undef")
            cond_t = cterm.term if cterm is not None else iter_term
            if is_for and alive2:
                asc = self._append_loop_as_comp(it, lid, init, head_terms.get((where, key)), body_v)
                if asc is None:
                    asc = self._fold_loop(it, lid, init, head_terms.get((where, key)), body_v, out)
                if asc is None:
                    asc = self._store_loop(it, lid, init, head_terms.get((where, key)), body_v, out)
                if asc is not None:
                    self._set_binding(out, where, key, asc)
                    continue
            term = T("loop", lid, cond_t, initt, body_v.term if body_v is not None else T("undef"))
            base = body_v if body_v is not None else init
            shape = None
            if init is not None and init.shape is not None and base.shape is not None and len(init.shape) == len(base.shape):
                shape = tuple(a if a == b else Dim.unknown("loop") for a, b in zip(init.shape, base.shape))
            elif init is None or init.kind == "undef":
                shape = base.shape
            kind = base.kind if (init is None or init.kind in ("undef", base.kind)) else ("float" if {init.kind, base.kind} <= {"int", "float"} else base.kind)
            if shape is not None:
                # an extent that depends on the loop variable (ragged elements) does not survive the loop as
                # such: after the loop it is the extent of the value the loop left behind (sibling loops re-use labels)
                lvt_ = T("lv", lid)
                shape = tuple(Dim(0, {("t", T("shapeof", term, const(ax_))): 1}) if any(isinstance(at_, tuple) and at_[0] == "t" and loops.mentions(at_[1], lvt_) for at_, _ in d_.lin) else d_ for ax_, d_ in enumerate(shape))
            nv = V(kind if kind not in ("maybe",) else "unk", term, shape=shape, orig=(init.orig if init is not None else frozenset()) | base.orig, labels=(init.labels if init is not None else frozenset()) | base.labels | cl, loc=base.loc, obj=base.obj if kind == "obj" else None, func=base.func if kind == "func" else None, items=None)
            if kind in ("list",) :
                nv = nv.replace(items=None)
            self._set_binding(out, where, key, nv)
        if isinstance(s, (ast.For, ast.While)) and s.orelse:
            return self.exec_block(s.orelse, out)
        return True

    def _head_value(self, init, lid, ordinal, probe_v=None):
        if init is not None and init.kind == "maybe" and init.items:
            init = init.items[0].replace(term=init.term)
        if probe_v is not None and probe_v.kind == "maybe":
            probe_v = probe_v.items[0].replace(term=probe_v.term) if probe_v.items else None
        if init is None or init.kind == "undef":
            base = probe_v if probe_v is not None else vunk("head")
            t = T("head", lid, T("undef"), ordinal)
            return base.replace(term=t, has_const=False, const_=None, items=None)
        t = T("head", lid, init.term, ordinal)
        shape = init.shape
        kind = init.kind
        if probe_v is not None and probe_v.kind != init.kind:
            kind = probe_v.kind if init.kind in ("none", "undef") else ("float" if {init.kind, probe_v.kind} <= {"int", "float"} else "unk")
            shape = probe_v.shape
        elif probe_v is not None and probe_v.shape != init.shape:
            if init.shape is not None and probe_v.shape is not None and len(init.shape) == len(probe_v.shape):
                shape = tuple(a if a == b else Dim.unknown("head") for a, b in zip(init.shape, probe_v.shape))
            else:
                shape = None
        return init.replace(kind=kind, term=t, shape=shape, has_const=False, const_=None, items=None, dim=None)

    @staticmethod
    def _get_binding(state, where, key):
        if where[0] == "frame":
            if where[1] < len(state.frames):
                return state.frames[where[1]].get(key)
            return None
        return state.heap.get(where[1], {}).get(key)

    @staticmethod
    def _set_binding(state, where, key, v):
        if where[0] == "frame":
            state.frames[where[1]][key] = v
        else:
            state.heap.setdefault(where[1], {})[key] = v

    @staticmethod
    def _changed_bindings(pre, post):
        out = []
        for i, (fa, fb) in enumerate(zip(pre.frames, post.frames)):
            for k in sorted(set(fa) | set(fb)):
                if fa.get(k) is not fb.get(k):
                    a, b = fa.get(k), fb.get(k)
                    if a is not None and b is not None and a.term == b.term and a.kind == b.kind:
                        continue
                    out.append((("frame", i), k))
        for oid in sorted(set(pre.heap) | set(post.heap)):
            ha, hb = pre.heap.get(oid, {}), post.heap.get(oid, {})
            for k in sorted(set(ha) | set(hb)):
                if ha.get(k) is not hb.get(k):
                    a, b = ha.get(k), hb.get(k)
                    if a is not None and b is not None and a.term == b.term and a.kind == b.kind:
                        continue
                    out.append((("heap", oid), k))
        return out

    # ------------------------------------------------------------------ expressions
    def eval(self, node, st):
        self.exprs_evaluated += 1
        m = getattr(self, "e_" + type(node).__name__, None)
        if m is None:
            self.event("unsupported-expr", node, st)
            self.unknown_values += 1
            return vunk(type(node).__name__)
        v = m(node, st)
        if v.kind == "unk":
            self.unknown_values += 1
        elif v.kind in ("arr", "int", "float", "bool", "list") and isinstance(v.term, Term):
            self.vtab[v.term] = v
        return v

    def term_shape(self, t):
        """shape oracle: the symbolic shape the term had when it was evaluated"""
        v = self.vtab.get(t)
        if v is None:
            return None
        sh = self.api.shape_of(v)
        if sh is None or any(not d.known() for d in sh):
            return None
        return tuple(sh)

    def e_Constant(self, n, st):
        if n.value is Ellipsis:
            return V("ellipsis", T("ellipsis"))
        return vconst(n.value)

    def e_Name(self, n, st):
        return self.lookup(n.id, st, n)

    def e_NamedExpr(self, n, st):
        v = self.eval(n.value, st)
        self.assign(n.target, v, st, n)
        return v

    def e_JoinedStr(self, n, st):
        labels = frozenset()
        for x in n.values:
            if isinstance(x, ast.FormattedValue):
                labels |= self.eval(x.value, st).labels
        return V("str", unk("fstr"), labels=labels)

    def e_Lambda(self, n, st):
        fr = self.cur()
        fi = FunctionInfo(n, fr.fi.module, None, outer=fr.fi)
        chain = tuple(fr.closure or ()) + (len(st.frames) - 1,)
        # a lambda captures its defining frame by value for later calls (the frame may be gone)
        captured = dict(st.frames[-1])
        return V("func", T("lambda", fr.fi.qualname, n.lineno), func=Closure(fi, env_chain=chain, self_v=None, cls=getattr(fr, "cls", None), lam=captured))

    def mk_tuple(self, items):
        return V("tuple", T("tuple", *[x.term for x in items]), items=list(items), labels=frozenset().union(*[x.labels for x in items]) if items else frozenset(), orig=frozenset([FRESH]))

    def mk_list(self, items):
        return V("list", T("list", *[x.term for x in items]), items=list(items), labels=frozenset().union(*[x.labels for x in items]) if items else frozenset(), orig=frozenset([FRESH]), loc=fresh_id())

    def mk_dict(self, d):
        return V("dict", T("dict", *[T("kv", const(k), d[k].term) for k in sorted(d, key=repr)]), items=dict(d), labels=frozenset().union(*[x.labels for x in d.values()]) if d else frozenset(), loc=fresh_id())

    def e_Tuple(self, n, st):
        items = []
        for e in n.elts:
            if isinstance(e, ast.Starred):
                v = self.eval(e.value, st)
                if v.items is not None and v.kind in ("tuple", "list"):
                    items.extend(v.items)
                else:
                    items.append(V("unk", T("star", v.term), labels=v.labels))
            else:
                items.append(self.eval(e, st))
        return self.mk_tuple(items)

    def e_List(self, n, st):
        t = self.e_Tuple(n, st)
        return self.mk_list(t.items)

    def e_Set(self, n, st):
        t = self.e_Tuple(n, st)
        return V("set", T("set", *sorted((x.term for x in t.items), key=repr)), items=t.items, labels=t.labels)

    def e_Dict(self, n, st):
        d = {}
        ok = True
        for k, v in zip(n.keys, n.values):
            vv = self.eval(v, st)
            if k is None:
                if vv.kind == "dict" and vv.items is not None:
                    d.update(vv.items)
                else:
                    ok = False
                continue
            kk = self.eval(k, st)
            if kk.has_const:
                d[kk.const] = vv
            else:
                ok = False
        if not ok:
            return V("dict", unk("dict"))
        return self.mk_dict(d)

    def e_IfExp(self, n, st):
        c = self.eval(n.test, st)
        t = self.truth(c, n.test, st)
        self.event("branch", n.test, st, cond=c.term, decided=t, labels=c.labels)
        if t is True:
            return self.eval(n.body, st)
        if t is False:
            return self.eval(n.orelse, st)
        self._note_cond_labels(c)
        a = self.eval(n.body, st)
        b = self.eval(n.orelse, st)
        return self.phi(c.term, a, b)

    def e_BoolOp(self, n, st):
        is_and = isinstance(n.op, ast.And)
        pending = []
        last = None
        stopped = False
        for x in n.values:
            v = self.eval(x, st)
            t = self.truth(v, x, st)
            last = v
            if t is None:
                pending.append(v)
                continue
            if (is_and and t is False) or ((not is_and) and t is True):
                stopped = True
                break
        if not pending:
            return last
        labels = frozenset().union(*[z.labels for z in pending])
        if stopped:
            if is_and:
                return vconst(False)
            if all(z.kind == "bool" for z in pending):
                return vconst(True)
            acc = last
            for p in reversed(pending):
                acc = self.phi(T("truthy", p.term), p, acc)
            return acc
        if last is pending[-1]:
            if len(pending) == 1:
                return pending[0]
            if all(z.kind in ("bool", "arr") for z in pending):
                return vbool(T("and" if is_and else "or", *[z.term for z in pending]), labels=labels)
            acc = pending[-1]
            for p in reversed(pending[:-1]):
                acc = self.phi(T("truthy", p.term), acc, p) if is_and else self.phi(T("truthy", p.term), p, acc)
            return acc
        # trailing neutral constant operand
        acc = last
        for p in reversed(pending):
            acc = self.phi(T("truthy", p.term), acc, p) if is_and else self.phi(T("truthy", p.term), p, acc)
        return acc

    def e_UnaryOp(self, n, st):
        v = self.eval(n.operand, st)
        if isinstance(n.op, ast.Not):
            t = self.truth(v, n.operand, st)
            if t is not None:
                return vconst(not t)
            return vbool(T("not", v.term), labels=v.labels)
        if isinstance(n.op, ast.USub):
            if v.has_const and isinstance(v.const, (int, float)):
                return vconst(-v.const)
            return v.replace(term=T("neg", v.term), orig=frozenset([FRESH]), loc=fresh_id(), dim=(-v.dim if v.dim is not None else None), has_const=False, const_=None)
        if isinstance(n.op, ast.Invert):
            return v.replace(term=T("invert", v.term), orig=frozenset([FRESH]), loc=fresh_id(), has_const=False, const_=None)
        return v

    def e_BinOp(self, n, st):
        a = self.eval(n.left, st)
        b = self.eval(n.right, st)
        return self.binop(n.op, a, b, st, n)

    def binop(self, op, a, b, st, node):
        return self.api.binop(self, op, a, b, st, node)

    def e_Compare(self, n, st):
        left = self.eval(n.left, st)
        results = []
        for op, rn in zip(n.ops, n.comparators):
            right = self.eval(rn, st)
            results.append(self.api.compare(self, op, left, right, st, n))
            left = right
        if len(results) == 1:
            return results[0]
        ts = [self.truth(r) for r in results]
        if any(t is False for t in ts):
            return vconst(False)
        if all(t is True for t in ts):
            return vconst(True)
        und = [r for r, t in zip(results, ts) if t is None]
        if len(und) == 1:
            return und[0]
        return vbool(T("and", *[r.term for r in und]), labels=frozenset().union(*[r.labels for r in und]))

    def e_Attribute(self, n, st):
        base = self.eval(n.value, st)
        return self.getattr_v(base, n.attr, st, n)

    def getattr_v(self, base, name, st, node):
        if base.kind == "obj":
            return self.getattr_obj(base, name, st, node)
        if base.kind == "mod":
            tag, x = base.extra
            if tag == "mod":
                r = self.P.resolve_symbol(x.name, name)
                return self.wrap_resolved(r, st)
            q = x + "." + name
            c = self.api.ext_constant(q)
            if c is not None:
                return c
            return V("mod", T("ext", q), extra=("ext", q))
        if base.kind == "maybe":
            if not base.items:
                return vunk("maybe." + name)
            return self.getattr_v(base.items[0], name, st, node)
        if base.kind == "super":
            cls, selfv = base.extra
            m = selfv.obj.cls.find_method(name, after=cls) if selfv.obj.cls is not None else None
            if m is None:
                return V("func", T("supermethod", name), func=("extmethod", selfv, name))
            if getattr(m.cls, "external", False):
                return V("func", T("supermethod", name), func=("extmethod", selfv, name))
            return V("func", T("method", selfv.term, name), func=Closure(m, self_v=selfv, cls=m.cls))
        if base.kind == "cls":
            c = base.extra
            if isinstance(c, ClassInfo):
                m = c.find_method(name)
                if m is not None:
                    return V("func", T("fn", m.qualname), func=Closure(m, cls=m.cls))
            return V("unk", T("attr", base.term, name))
        return self.api.attribute(self, base, name, st, node)

    def eval_index(self, n, st):
        if isinstance(n, ast.Slice):
            lo = self.eval(n.lower, st) if n.lower is not None else vconst(None)
            hi = self.eval(n.upper, st) if n.upper is not None else vconst(None)
            step = self.eval(n.step, st) if n.step is not None else vconst(None)
            return V("slice", T("slice", lo.term, hi.term, step.term), items=[lo, hi, step], labels=lo.labels | hi.labels | step.labels)
        if isinstance(n, ast.Tuple):
            items = [self.eval_index(e, st) for e in n.elts]
            return V("tuple", T("tuple", *[x.term for x in items]), items=items, labels=frozenset().union(*[x.labels for x in items]) if items else frozenset())
        return self.eval(n, st)

    def e_Slice(self, n, st):
        return self.eval_index(n, st)

    def e_Subscript(self, n, st):
        base = self.eval(n.value, st)
        idx = self.eval_index(n.slice, st)
        return self.api.subscript(self, base, idx, st, n)

    def e_Starred(self, n, st):
        v = self.eval(n.value, st)
        return V("unk", T("star", v.term), labels=v.labels)

    def comprehension(self, n, st, elt_fn):
        """list/generator comprehension -> list V (unrolled if the iterable is known)"""
        gens = n.generators
        if len(gens) != 1:
            labels = frozenset()
            return V("list", unk("comp"), labels=labels)
        g = gens[0]
        it = self.eval(g.iter, st)
        elems = self.api.iter_items(self, it, st)
        saved = dict(st.frames[-1])
        if elems is not None and len(elems) <= 8:
            out = []
            for e in elems:
                self.assign(g.target, e, st, n)
                ok = True
                for cnd in g.ifs:
                    t = self.truth(self.eval(cnd, st), cnd, st)
                    if t is False:
                        ok = False
                    elif t is None:
                        ok = None
                if ok is None:
                    out = None
                    break
                if ok:
                    out.append(elt_fn(st))
            self._restore_locals(st, saved, n)
            if out is not None:
                return self.mk_list(out)
        # symbolic comprehension: comp(elt, iter) with bound variable bv<depth>
        fr = self.cur()
        fr.loop_depth += 1
        lid = f"C{fr.loop_depth}"
        lv = self.api.loop_element(self, it, lid, st)
        self.assign(g.target, lv, st, n)
        conds = [self.eval(cnd, st) for cnd in g.ifs]
        elt = elt_fn(st)
        fr.loop_depth -= 1
        self._restore_locals(st, saved, n)
        return self._mk_comp(it, lid, elt, [c.term for c in conds])

    def _mk_comp(self, it, lid, elt, cond_terms):
        n = self.api.length_dim(self, it) if it is not None else None
        if n is not None and n.known() and (it.kind != "range" or (it.extra is not None and it.extra[0] == Dim(0))) and it.kind in ("range", "arr", "enumerate", "zip", "list"):
            lvt = T("lv", lid)
            masks = [loops.vectorise(c, lvt, n, self.term_shape, self.api.dim_term) for c in cond_terms]
            esh = self.api.shape_of(elt)
            if all(m is not None for m in masks):
                vt = None
                if esh == ():
                    vt = loops.vectorise(elt.term, lvt, n, self.term_shape, self.api.dim_term)
                elif esh is not None:
                    vt = loops.row_selection(elt.term, lvt, n, self.term_shape)
                if vt is None and not masks and it.kind in ("range", "zip", "arr", "enumerate", "list"):
                    blk = loops.consecutive_blocks(elt.term, lvt, n, self.term_shape)
                    if blk is not None:
                        # consecutive row blocks of lengths L (np.split at the running sums)
                        return V("list", T("blocks", blk[0], blk[1]), items=None, labels=it.labels | elt.labels, orig=frozenset([FRESH]), extra=("comp", elt, None), loc=fresh_id())
                if vt is None and esh is not None and len(esh) == 2 and not masks:
                    lifted = loops.lift_broadcast(elt.term, lvt, n, self.term_shape, self.api.dim_term)
                    if lifted is not None:
                        lt_, lsh = lifted
                        self.vtab[lt_] = V("arr", lt_, shape=lsh, orig=frozenset([FRESH]), labels=it.labels | elt.labels, loc=fresh_id())
                        return V("list", lt_, items=None, labels=it.labels | elt.labels, orig=frozenset([FRESH]), extra=("comp", elt, lsh, "arr"), loc=fresh_id())
                if vt is not None:
                    if masks:
                        term = T("getitem", vt, loops.conj(masks))
                        shape = (Dim.unknown("sel"),) + tuple(esh)
                    else:
                        term = vt
                        shape = (n,) + tuple(esh)
                    return V("list", term, items=None, labels=it.labels | elt.labels, orig=frozenset([FRESH]), extra=("comp", elt, shape), loc=fresh_id())
        if not cond_terms and it.kind == "arr" and it.shape is not None and len(it.shape) == 1 and elt.shape == ():
            vt = _vectorise(elt.term, T("getitem", it.term, T("lv", lid)), it.term, T("lv", lid))
            if vt is not None:
                return V("list", vt, items=None, labels=it.labels | elt.labels, orig=frozenset([FRESH]), extra=("comp", elt, tuple(it.shape)), loc=fresh_id())
        it_term = it.term
        if n is not None and n.known() and it.kind in ("arr", "list", "enumerate", "zip") and (it.kind != "list" or it.items is None):
            # elements are read through the position lv(L): the iterable matters only by its length
            it_term = T("range", self.api.dim_term(Dim(0)), self.api.dim_term(n))
            if elt.kind == "arr" and elt.shape is not None:
                self.vtab.setdefault(elt.term, elt)
        term = T("comp", lid, it_term, elt.term, *cond_terms)
        n_items = self.api.length_dim(self, it) if not cond_terms else None
        shape = None
        if elt.shape is not None:
            shape = ((n_items if n_items is not None else Dim.unknown("comp")),) + tuple(elt.shape)
        return V("list", term, items=None, labels=it.labels | elt.labels, orig=frozenset([FRESH]), extra=("comp", elt, shape), loc=fresh_id())

    def _argmin_fold(self, it, lid, changed, pre, head, head_terms, st):
        """best = b0; dmin = d0
        for j in range(n):
            if g(j) and e(j) < dmin: best = v(j); dmin = e(j)
        is the first minimum of w = where(g, e, inf):  dmin = min(d0, min w),  best = v[argmin w] if min w < d0 else b0"""
        if it is None:
            return {}
        n = self.api.length_dim(self, it)
        if n is None or not n.known() or (it.kind == "range" and (it.extra is None or it.extra[0] != Dim(0))):
            return {}
        lvt = T("lv", lid)
        vals = {}
        for where, key in changed:
            init = self._get_binding(pre, where, key)
            body_v = self._get_binding(head, where, key)
            ht = head_terms.get((where, key))
            if body_v is not None and not loops.mentions_head(body_v.term, lid):
                continue  # assigned afresh in every iteration (the loop variable, temporaries)
            if init is None or body_v is None or ht is None or init.kind in ("undef", "maybe") or body_v.kind == "maybe":
                return {}
            t, conds = loops.split_guard(body_v.term, ht)
            vals[(where, key)] = (init, body_v, ht, t, [c for cc in conds for c in loops.flatten_and(cc)])
        # the running minimum: exactly one conjunct compares the new value with the carried one
        dkey = None
        for k, (init, body_v, ht, t, cj) in vals.items():
            hits = [c for c in cj if isinstance(c, Term) and ((c.op == "lt" and c.args[0] == t and c.args[1] == ht) or (c.op == "gt" and c.args[1] == t and c.args[0] == ht))]
            if len(hits) == 1 and not loops.mentions_head(t, lid):
                dkey = k
                guard = hits[0]
        if dkey is None or len(vals) < 2:
            return {}
        init_d, body_d, ht_d, e, cj_d = vals[dkey]
        others = [c for c in cj_d if c != guard]
        if any(loops.mentions_head(c, lid) for c in others):
            return {}
        for k, (init, body_v, ht, t, cj) in vals.items():
            if set(cj) != set(cj_d) or (k != dkey and loops.mentions_head(t, lid)):
                return {}
        dt = self.api.dim_term
        e_vec = loops.vectorise(e, lvt, n, self.term_shape, dt)
        masks = [loops.vectorise(c, lvt, n, self.term_shape, dt) for c in others]
        if e_vec is None or any(m is None for m in masks):
            return {}
        inf = const("inf")
        d0 = init_d.term
        if d0 != inf and self.term_shape(d0) == ():
            # a finite starting bound d0 is one more condition on the candidates: e(j) < d0.  The first minimum
            # of the candidates below d0 is the first minimum of all candidates whenever one is below d0
            masks = masks + [T("lt", e_vec, d0)]
        w = T("where3", loops.conj(masks), e_vec, inf) if masks else e_vec
        wmin = T("amin", w)
        found = T("lt", wmin, inf if d0 != inf and self.term_shape(d0) == () else d0)
        out = {}
        labels = frozenset().union(*[v[1].labels | v[0].labels for v in vals.values()]) | it.labels
        for k, (init, body_v, ht, t, cj) in vals.items():
            if k == dkey:
                newt = T("phi", found, wmin, init.term)
            else:
                if t == lvt:
                    sel = T("argmin", w)
                else:
                    v_vec = loops.vectorise(t, lvt, n, self.term_shape, dt)
                    if v_vec is None:
                        return {}
                    sel = T("getitem", v_vec, T("argmin", w))
                newt = T("phi", found, sel, init.term)
            out[k] = body_v.replace(term=newt, labels=labels, has_const=False, const_=None, items=None, dim=None)
        return out

    def _store_loop(self, it, lid, init, head_t, body_v, st=None):
        """for j in range(n): out[j] = e(j)   /   out[j, c] = e(j)   /   out[c, j] = e(j)
        fills the whole axis of extent n with the vector [e(j)]"""
        if it is None or init is None or body_v is None or head_t is None or init.kind != "arr" or init.shape is None:
            return None
        t = body_v.term
        conds_ = []
        if isinstance(t, Term) and t.op == "phi":
            # guarded store: `if c(j): out[j, j] = e(j)` into a zero matrix
            t, cc_ = loops.split_guard(t, head_t)
            conds_ = [c for c0 in cc_ for c in loops.flatten_and(c0)]
        if not isinstance(t, Term) or t.op != "store" or t.args[0] != head_t:
            return None
        n = self.api.length_dim(self, it)
        if n is None or not n.known() or (it.kind == "range" and (it.extra is None or it.extra[0] != Dim(0))):
            return None
        lvt = T("lv", lid)
        idx, e = t.args[1], t.args[2]
        it0 = init.term
        while isinstance(it0, Term) and it0.op == "astype" and it0.args and isinstance(it0.args[0], Term):
            it0 = it0.args[0]
        if isinstance(idx, Term) and idx.op == "tuple" and len(idx.args) == 2 and idx.args[0] == lvt and idx.args[1] == lvt and len(init.shape) == 2 and init.shape[0] == n and init.shape[1] == n and isinstance(it0, Term) and it0.op == "zeros" and self.term_shape(e) == () and not loops.mentions_head(e, lid) and not any(loops.mentions_head(c, lid) for c in conds_):
            # out = zeros((n, n)); for j: [if c(j):] out[j, j] = e(j)   is   diag(where(c, e, 0))
            vt = loops.vectorise(e, lvt, n, self.term_shape, self.api.dim_term)
            masks = [loops.vectorise(c, lvt, n, self.term_shape, self.api.dim_term) for c in conds_]
            if vt is not None and all(m is not None for m in masks):
                diag = T("where3", loops.conj(masks), vt, const(0)) if masks else vt
                return init.replace(term=T("dg", diag), labels=init.labels | body_v.labels, has_const=False, const_=None, items=None)
            return None
        if conds_:
            return None
        if loops.mentions_head(e, lid) or loops.mentions_head(idx, lid):
            return None
        esh = self.term_shape(e)
        if st is not None and esh is not None and len(esh) >= 1 and len(init.shape) == len(esh) and isinstance(idx, Term) and idx.op == "slice" and len(idx.args) == 3 and idx.args[2] == const(None) and tuple(init.shape[1:]) == tuple(esh[1:]) and esh[0].known() and init.shape[0] == n.mul(esh[0]) and not any(isinstance(at_, tuple) and at_[0] == "t" and loops.mentions(at_[1], lvt) for at_, _ in esh[0].lin):
            # out[j*m:(j+1)*m] = block(j) for every j: the blocks [block(j) for j in range(n)] joined along the first axis
            from .nf import Normalizer

            N_ = Normalizer()
            m_t = self.api.dim_term(esh[0])
            ev = self.vtab.get(e)
            if ev is not None and N_.nf(idx.args[0]) == N_.nf(T("smul", lvt, m_t)) and N_.nf(idx.args[1]) == N_.nf(T("smul", T("add", lvt, const(1)), m_t)):
                cid = "C" + lid[1:]
                m = {lvt: T("lv", cid)}
                comp = self._mk_comp(it, cid, ev.replace(term=subst_term(e, m)), [])
                joined = self.api.call_external(self, "numpy.concatenate", [comp], {}, st, None)
                if joined.kind == "arr" and joined.shape is not None and tuple(joined.shape) == tuple(init.shape):
                    return init.replace(term=joined.term, labels=init.labels | body_v.labels, has_const=False, const_=None, items=None)
            return None
        if esh is not None and len(esh) >= 1 and idx == lvt and len(init.shape) == len(esh) + 1 and init.shape[0] == n and tuple(init.shape[1:]) == tuple(esh):
            # out[j] = row(j) for every j: the rows [row(j) for j in range(n)]
            ev = self.vtab.get(e)
            if ev is not None:
                cid = "C" + lid[1:]
                m = {lvt: T("lv", cid)}
                comp = self._mk_comp(it, cid, ev.replace(term=subst_term(e, m)), [])
                if self.api.shape_of(comp) is not None:
                    carr = self.api.as_arr(comp)
                    return init.replace(term=carr.term, labels=init.labels | body_v.labels, has_const=False, const_=None, items=None)
            return None
        if esh is None or not all(d.is_const() and d.c == 1 for d in esh):
            return None
        vt = loops.vectorise(e, lvt, n, self.term_shape, self.api.dim_term)
        if vt is None:
            if os.environ.get("VERIF_DEBUG_IND"):
                print("DBG store-loop: not vectorised:", repr(e)[:300], "shape", self.term_shape(e))
            return None
        none = const(None)
        full = T("slice", none, none, none)
        if idx == lvt and len(init.shape) == 1 and init.shape[0] == n:
            return init.replace(term=vt, labels=init.labels | body_v.labels, has_const=False, const_=None, items=None)
        if isinstance(idx, Term) and idx.op == "tuple" and len(idx.args) == 2 and len(init.shape) == 2:
            a_, b_ = idx.args
            if a_ == lvt and not loops.mentions(b_, lvt) and init.shape[0] == n and self.term_shape(b_) == ():
                return init.replace(term=T("store", init.term, T("tuple", full, b_), vt), labels=init.labels | body_v.labels, has_const=False, const_=None, items=None)
            if b_ == lvt and not loops.mentions(a_, lvt) and init.shape[1] == n and self.term_shape(a_) == ():
                return init.replace(term=T("store", init.term, a_, vt), labels=init.labels | body_v.labels, has_const=False, const_=None, items=None)
        return None

    def _fold_loop(self, it, lid, init, head_t, body_v, st):
        """acc = init; for x in xs: [if c:] acc = acc (+|&|min|max) e   ==   init (op) reduce(e over xs [where c])
        when neither e nor c reads a loop-carried value"""
        if it is None or init is None or body_v is None or head_t is None or init.kind in ("undef", "list", "dict", "obj"):
            return None
        t, conds = loops.split_guard(body_v.term, head_t)
        if not isinstance(t, Term) or t.op not in loops.FOLDS or len(t.args) != 2:
            return None
        if t.args[0] == head_t:
            e = t.args[1]
        elif t.args[1] == head_t:
            e = t.args[0]
        else:
            return None
        if loops.mentions_head(e, lid) or any(loops.mentions_head(c, lid) for c in conds) or loops.mentions_head(init.term, lid):
            return None
        ev = self.vtab.get(e)
        if ev is None or self.api.shape_of(ev) is None:
            return None
        cid = "C" + lid[1:]
        m = {T("lv", lid): T("lv", cid)}
        elt = ev.replace(term=subst_term(e, m))
        comp = self._mk_comp(it, cid, elt, [subst_term(c, m) for c in conds])
        if comp.term.op == "comp":
            return None  # not vectorisable: keep the loop form
        red = loops.FOLDS[t.op]
        scalar_elems = self.api.shape_of(elt) == ()
        carr = self.api.as_arr(comp)
        kw = {} if scalar_elems else {"axis": vconst(0)}
        if red == "sum":
            r = self.api.NP["numpy.sum"](self, "numpy.sum", [carr], kw, st, None)
        else:
            fn = {"any": "numpy.any", "all": "numpy.all", "amin": "numpy.min", "amax": "numpy.max"}[red]
            r = self.api.NP[fn](self, fn, [carr], kw, st, None)
        # the neutral initial value drops out
        if (t.op == "add" and init.has_const and init.const == 0) or (t.op == "bitor" and init.term.op == "full" and init.term.args[0] == const(False)) or (t.op == "bitor" and init.has_const and init.const is False):
            res = r
        else:
            res = self.api.binop(self, t.op, init, r, st, None)
        return res

    def _append_loop_as_comp(self, it, lid, init, head_t, body_v):
        """L = []; for x in xs: [if c:] L.append(e)   ==   [e for x in xs [if c]]
        when neither e nor c reads a loop-carried value"""
        if it is None or init is None or init.kind != "list" or init.items is None or len(init.items) != 0 or body_v is None or body_v.kind != "list":
            return None
        t = body_v.term
        conds = []
        while t.op == "phi" and len(t.args) == 3:
            c, x, y = t.args
            if y == head_t:
                conds.append(c)
                t = x
            elif x == head_t:
                conds.append(T("not", c))
                t = y
            else:
                return None
        if t.op != "append" or t.args[0] != head_t:
            return None
        last = body_v.extra[1] if isinstance(body_v.extra, tuple) and body_v.extra and body_v.extra[0] == "last" and body_v.extra[1].term == t.args[1] else None
        if last is None and not conds:
            return None
        if last is None:
            last = V("unk", t.args[1], labels=body_v.labels)
        if any(loops.mentions_head(x, lid) for x in [t.args[1]] + conds):
            return None
        cid = "C" + lid[1:]
        m = {T("lv", lid): T("lv", cid)}
        elt = last.replace(term=subst_term(last.term, m))
        return self._mk_comp(it, cid, elt, [subst_term(c, m) for c in conds])

    def _restore_locals(self, st, saved, n):
        # comprehension variables do not leak
        targets = set()
        for g in n.generators:
            for x in ast.walk(g.target):
                if isinstance(x, ast.Name):
                    targets.add(x.id)
        env = st.frames[-1]
        for k in targets:
            if k in saved:
                env[k] = saved[k]
            else:
                env.pop(k, None)

    def e_ListComp(self, n, st):
        return self.comprehension(n, st, lambda s: self.eval(n.elt, s))

    def e_GeneratorExp(self, n, st):
        return self.comprehension(n, st, lambda s: self.eval(n.elt, s))

    def e_SetComp(self, n, st):
        return self.comprehension(n, st, lambda s: self.eval(n.elt, s))

    def e_DictComp(self, n, st):
        def elt(s):
            k = self.eval(n.key, s)
            v = self.eval(n.value, s)
            return self.mk_tuple([k, v])

        r = self.comprehension(n, st, elt)
        if r.items is not None and all(x.items[0].has_const for x in r.items):
            return self.mk_dict({x.items[0].const: x.items[1] for x in r.items})
        return V("dict", T("dictcomp", r.term), labels=r.labels, loc=fresh_id())

    def e_Call(self, n, st):
        # super()
        if isinstance(n.func, ast.Name) and n.func.id == "super" and not n.args:
            fr = self.cur()
            f = fr
            cls = getattr(fr, "cls", None)
            selfv = fr.self_v
            if selfv is None:
                # closure inside a method
                for idx in reversed(fr.closure or ()):
                    env = st.frames[idx]
                    if "self" in env:
                        selfv = env["self"]
                        break
            return V("super", T("super"), extra=(cls, selfv))
        fv = self.eval(n.func, st)
        args = []
        kwargs = {}
        for a in n.args:
            if isinstance(a, ast.Starred):
                v = self.eval(a.value, st)
                if v.items is not None and v.kind in ("tuple", "list"):
                    args.extend(v.items)
                else:
                    args.append(V("unk", T("star", v.term), labels=v.labels, orig=v.orig))
            else:
                args.append(self.eval(a, st))
        for k in n.keywords:
            v = self.eval(k.value, st)
            if k.arg is None:
                if v.kind == "dict" and v.items is not None:
                    for kk, vv in v.items.items():
                        kwargs[kk] = vv
                elif v.extra and isinstance(v.extra, tuple) and v.extra[0] == "phi" and all(x.kind == "dict" and x.items is not None for x in v.extra[2:4]):
                    keys = set(v.extra[2].items) | set(v.extra[3].items)
                    for kk in keys:
                        kwargs[kk] = self.phi(v.extra[1], v.extra[2].items.get(kk, UNDEF), v.extra[3].items.get(kk, UNDEF))
                else:
                    kwargs["**"] = v
            else:
                kwargs[k.arg] = v
        return self.call_value(fv, args, kwargs, st, n)

    def call_value(self, fv, args, kwargs, st, n):
        if fv.kind == "maybe":
            fv = fv.items[0] if fv.items else V("unk", fv.term, labels=fv.labels, orig=fv.orig)
        if fv.kind == "func":
            f = fv.func
            if isinstance(f, Closure):
                self.resolved_calls += 1
                if f.lam is not None:
                    # lambda: evaluate with its captured frame
                    return self.call_lambda(f, args, kwargs, st, n)
                return self.call_function(f, args, kwargs, st, n)
            if isinstance(f, tuple) and f[0] == "extmethod":
                self.resolved_calls += 1
                return self.api.ext_method(self, f[1], f[2], args, kwargs, st, n)
            if isinstance(f, tuple) and f[0] == "phi":
                _, cond, a, b = f
                ra = self.call_value(a, args, kwargs, st, n)
                rb = self.call_value(b, args, kwargs, st, n)
                return self.phi(cond, ra, rb)
            if isinstance(f, tuple) and f[0] == "builtin":
                self.resolved_calls += 1
                hook = self.config.get("call_hook")
                if hook is not None:
                    r = hook(self, "builtin:" + str(f[2]), args, kwargs, st, n)
                    if r is not None:
                        return r
                return f[1](self, args, kwargs, st, n)
            if isinstance(f, tuple) and f[0] == "bound":
                self.resolved_calls += 1
                return f[1](self, args, kwargs, st, n)
        if fv.kind == "cls":
            c = fv.extra
            self.resolved_calls += 1
            if isinstance(c, ClassInfo):
                return self.instantiate(c, args, kwargs, st, n)
            return self.api.ext_construct(self, c.qual, args, kwargs, st, n)
        if fv.kind == "mod" and fv.extra[0] == "ext":
            self.resolved_calls += 1
            return self.api.call_external(self, fv.extra[1], args, kwargs, st, n)
        if fv.kind == "scorer":
            self.resolved_calls += 1
            return self.api.call_scorer(self, fv, args, kwargs, st, n)
        if fv.kind == "obj" and fv.obj.cls is not None:
            m = fv.obj.cls.find_method("__call__")
            if m is not None:
                return self.call_function(Closure(m, self_v=fv, cls=m.cls), args, kwargs, st, n)
        self.unresolved_calls += 1
        self.event("unresolved-call", n, st, callee=fv.term)
        return self.api.opaque_call(self, fv, args, kwargs, st, n)

    def call_lambda(self, f, args, kwargs, st, n):
        # a lambda body is evaluated in a fresh frame whose enclosing frame is the captured one
        st.frames.append(dict(f.lam))
        cap_index = len(st.frames) - 1
        fr = Frame(f.fi, None, (cap_index,), len(st.pc), len(self.framestack))
        fr.cls = f.cls
        self.framestack.append(fr)
        try:
            clo = Closure(f.fi, env_chain=(cap_index,), self_v=None, cls=f.cls)
            return self.call_function(clo, args, kwargs, st, n)
        finally:
            self.framestack.pop()
            st.frames.pop()

    # ------------------------------------------------------------------ entry
    def run(self, clo, args, kwargs, st):
        """analyse a call from the outside (spec level)"""
        self._dead = False
        root = FunctionInfo(ast.parse("def __entry__(): pass").body[0], clo.fi.module)
        fr = Frame(root, None, (), len(st.pc), 0)
        fr.cls = None
        self.framestack.append(fr)
        st.frames.append({})
        try:
            return self.call_function(clo, args, kwargs, st, None)
        finally:
            st.frames.pop()
            self.framestack.pop()
