"""Loop idiom recognition: summarised loops whose carried values are folds of a per-iteration
expression are rewritten to the vector form a NumPy re-write of the loop would use, so that the
normal form sees ``for j in range(n): acc |= g[j]`` and ``np.any(g, axis=0)`` as one value.

Everything here works on terms plus a *shape oracle* (term -> symbolic shape of the value that
term denoted when the interpreter evaluated it); every rewrite states its side condition and is
applied only when the oracle confirms it (extent of the indexed axis == trip count)."""
from __future__ import annotations

from fractions import Fraction

from .terms import Dim, T, Term, const

ELEMENTWISE = {
    "add", "sub", "mul", "smul", "div", "sdiv", "pow", "neg", "sqrt", "abs", "exp", "log", "lt", "le", "gt", "ge", "eq", "ne",
    "where3", "bitand", "bitor", "invert", "emin", "emax", "mod", "floordiv", "astype", "truthy", "round", "floor", "ceil", "trunc", "sign", "square",
}
SCALAR_LOGIC = {"and": "bitand", "or": "bitor", "not": "invert"}
_NONE = const(None)
_FULL = T("slice", _NONE, _NONE, _NONE)


def _free_walk(t, lid):
    """sub-terms of t outside the body of any loop / comprehension that re-binds the label lid
    (sibling loops at the same nesting depth share a label; their bodies are closed)"""
    seen = set()
    stack = [t]
    while stack:
        x = stack.pop()
        if isinstance(x, Dim):
            for at, _ in x.lin:
                if isinstance(at, tuple):
                    stack.extend(at)
            continue
        if not isinstance(x, Term):
            if isinstance(x, tuple):
                stack.extend(x)
            continue
        if id(x) in seen:
            continue
        seen.add(id(x))
        yield x
        if x.op == "loop" and len(x.args) == 4 and x.args[0] == lid:
            stack.extend(x.args[1:3])  # iterable and initial value are evaluated outside
        elif x.op == "comp" and len(x.args) >= 3 and x.args[0] == lid:
            stack.append(x.args[1])
        else:
            stack.extend(x.args)


def mentions(t, target):
    """does the loop variable lv(lid) occur free in t"""
    if not isinstance(t, Term):
        return False
    lid = target.args[0] if isinstance(target, Term) and target.op == "lv" else None
    for y in (_free_walk(t, lid) if lid is not None else t.walk()):
        if y == target:
            return True
    return False


def mentions_head(t, lid):
    if not isinstance(t, Term):
        return False
    for y in _free_walk(t, lid):
        if (y.op == "head" and y.args and y.args[0] == lid) or y.op == "loopctl":
            return True
    return False


def vectorise(t, lv, n, shp, dim_term):
    """array term of [t(j) for j in range(n)] for a scalar-valued t, or None.

    x[j] -> x when x has extent n;  m[i, j] -> m[i];  m[j, i] -> m[:, i];  j -> arange(n);
    phi -> where;  and/or/not -> & | ~;  elementwise operations are mapped over the parts;
    any other occurrence of the loop variable makes the loop non-vectorisable."""
    memo = {}
    used = [False]

    def is_n(d):
        return d is not None and d == n

    def rec(x):
        if not isinstance(x, Term):
            return x
        if x in memo:
            return memo[x]
        r = None
        if x == lv:
            r = T("arange", dim_term(n))
            used[0] = True
        elif not mentions(x, lv):
            r = x
        elif x.op == "getitem":
            base, idx = x.args
            if not mentions(base, lv):
                sh = shp(base)
                if idx == lv and sh is not None and len(sh) == 1 and is_n(sh[0]):
                    r = base
                elif isinstance(idx, Term) and idx.op == "tuple" and len(idx.args) == 2 and sh is not None and len(sh) == 2:
                    a, b = idx.args
                    if b == lv and not mentions(a, lv) and is_n(sh[1]) and shp(a) == ():
                        r = T("getitem", base, a)
                    elif a == lv and not mentions(b, lv) and is_n(sh[0]) and shp(b) == ():
                        r = T("getitem", base, T("tuple", _FULL, b))
                if r is not None:
                    used[0] = True
        elif x.op == "reshape1" and x.args and all_ones(shp(x)):
            r = rec(x.args[0])
        elif x.op == "matmul" and all_ones(shp(x)):
            # r_j @ A @ c_j (row times matrix times column, per iteration) is the diagonal of R A C^T
            fac = []
            y = x
            while isinstance(y, Term) and y.op == "matmul":
                fac.insert(0, y.args[1])
                y = y.args[0]
            fac.insert(0, y)
            rows = vectorise_rows(fac[0], lv, n, shp)
            cols = vectorise_rows(fac[-1], lv, n, shp, column=True)
            mids = fac[1:-1]
            if rows is not None and cols is not None and len(fac) >= 2 and not any(mentions(m, lv) for m in mids):
                acc = rows
                for m in mids:
                    acc = T("matmul", acc, m)
                r = T("diagof", T("matmul", acc, T("T", cols)))
                used[0] = True
        elif x.op == "sum" and len(x.args) == 1 and isinstance(x.args[0], Term) and x.args[0].op == "mul" and len(x.args[0].args) == 2:
            # (r_j @ A) . c_j written with vectors: sum((r_j @ A) * c_j) is the diagonal entry of R A C^T
            for p_, q_ in (x.args[0].args, x.args[0].args[::-1]):
                fac = []
                y = p_
                while isinstance(y, Term) and y.op == "matmul":
                    fac.insert(0, y.args[1])
                    y = y.args[0]
                fac.insert(0, y)
                rows = vectorise_rows(fac[0], lv, n, shp)
                cols = vectorise_rows(q_, lv, n, shp)
                if rows is not None and cols is not None and not any(mentions(m, lv) for m in fac[1:]):
                    acc = rows
                    for m in fac[1:]:
                        acc = T("matmul", acc, m)
                    r = T("diagof", T("matmul", acc, T("T", cols)))
                    used[0] = True
                    break
        elif x.op == "phi" and len(x.args) == 3:
            parts = [rec(a) for a in x.args]
            r = None if any(p is None for p in parts) else T("where3", *parts)
        elif x.op in SCALAR_LOGIC:
            parts = [rec(a) for a in x.args]
            if not any(p is None for p in parts):
                r = parts[0] if False else None
                op = SCALAR_LOGIC[x.op]
                if op == "invert":
                    r = T("invert", parts[0])
                else:
                    acc = parts[0]
                    for p in parts[1:]:
                        acc = T(op, acc, p)
                    r = acc
        elif x.op in ELEMENTWISE:
            parts = [rec(a) if isinstance(a, Term) else a for a in x.args]
            op2 = x.op
            # a per-iteration scalar factor / divisor becomes a vector: the scaling is elementwise then
            if x.op == "sdiv" and len(x.args) == 2 and isinstance(x.args[1], Term) and mentions(x.args[1], lv):
                op2 = "div"
            elif x.op == "smul" and len(x.args) == 2 and isinstance(x.args[0], Term) and mentions(x.args[0], lv):
                op2 = "mul"
            r = None if any(p is None for p in parts) else T(op2, *parts)
        memo[x] = r
        return r

    out = rec(t)
    if out is None or not used[0]:
        return None
    return out


def all_ones(sh):
    return sh is not None and all(d.is_const() and d.c == 1 for d in sh)


def vectorise_rows(t, lv, n, shp, column=False):
    """(n, F) matrix whose j-th row is the row vector t(j); t is X[j] (X of shape (n, F)),
    possibly reshaped to (1, F) (or (F, 1) when column=True) and combined elementwise with
    loop-invariant operands that broadcast along the row"""
    memo = {}
    hit = [False]

    def rec(x):
        if not isinstance(x, Term):
            return x
        if x in memo:
            return memo[x]
        r = None
        if not mentions(x, lv):
            sh = shp(x)
            # invariant operand: a scalar or a vector along the row
            if sh is not None and (len(sh) <= 1 or (len(sh) == 2 and any(d.is_const() and d.c == 1 for d in sh))):
                r = x if (sh is None or len(sh) <= 1 or (sh[0].is_const() and sh[0].c == 1)) else T("T", x)
        elif x.op == "getitem" and x.args[1] == lv and not mentions(x.args[0], lv):
            sh = shp(x.args[0])
            if sh is not None and len(sh) == 2 and sh[0] == n:
                r = x.args[0]
                hit[0] = True
        elif x.op in ("reshape1", "T", "reshape") and x.args:
            sh = shp(x)
            if sh is not None and (len(sh) == 1 or (len(sh) == 2 and any(d.is_const() and d.c == 1 for d in sh))):
                r = rec(x.args[0])
        elif x.op == "matmul" and len(x.args) == 2 and not mentions(x.args[1], lv):
            # (row_j @ M) for an invariant matrix M: the rows of R @ M
            msh = shp(x.args[1])
            left = rec(x.args[0])
            if left is not None and ((msh is not None and len(msh) == 2) or (isinstance(x.args[1], Term) and x.args[1].op == "dg")):
                r = T("matmul", left, x.args[1])
        elif x.op in ELEMENTWISE:
            parts = [rec(a) if isinstance(a, Term) else a for a in x.args]
            r = None if any(p is None for p in parts) else T(x.op, *parts)
            if r is not None and x.op in ("mul", "div") and len(x.args) == 2:
                # row_j * v with v a loop-invariant vector along the row: column scaling R @ dg(v)
                for k_ in (0, 1):
                    a_, b_ = x.args[k_], x.args[1 - k_]
                    if isinstance(b_, Term) and not mentions(b_, lv) and isinstance(a_, Term) and mentions(a_, lv):
                        bsh = shp(b_)
                        if bsh is not None and len(bsh) == 1 and (x.op == "mul" or k_ == 0):
                            vec = b_ if x.op == "mul" else T("div", const(1), b_)
                            r = T("matmul", parts[k_], T("dg", vec))
        memo[x] = r
        return r

    out = rec(t)
    return out if (out is not None and hit[0]) else None


def row_selection(t, lv, n, shp):
    """G if the (array-valued) element is G[j] with G of extent n along axis 0, else None"""
    if isinstance(t, Term) and t.op == "getitem" and t.args[1] == lv and not mentions(t.args[0], lv):
        sh = shp(t.args[0])
        if sh is not None and len(sh) >= 2 and sh[0] == n:
            return t.args[0]
    return None


def conj(terms):
    acc = terms[0]
    for x in terms[1:]:
        acc = T("bitand", acc, x)
    return acc


def split_guard(body, head_t):
    """body = phi(c1, phi(c2, X, H), H)...  ->  (X, [c1, c2, ...]) ; conditions under which the
    carried value is updated, None if the else-branches are not the unchanged head"""
    conds = []
    t = body

    def neg(c):
        if isinstance(c, Term) and c.op == "not" and len(c.args) == 1:
            return c.args[0]
        return T("not", c)

    while isinstance(t, Term) and t.op == "phi" and len(t.args) == 3:
        c, x, y = t.args
        if isinstance(c, Term) and c.op == "loopctl" and len(c.args) == 2 and c.args[0] == "continue":
            c = c.args[1]  # `if g: continue` leaves the carried value as it is exactly when g holds
        if y == head_t:
            conds.append(c)
            t = x
        elif x == head_t:
            conds.append(neg(c))
            t = y
        else:
            break
    return t, conds


FOLDS = {"add": "sum", "bitor": "any", "bitand": "all", "emin": "amin", "emax": "amax", "min": "amin", "max": "amax"}


def flatten_and(c):
    if isinstance(c, Term) and c.op == "and":
        out = []
        for a in c.args:
            out.extend(flatten_and(a))
        return out
    # e < min(a, b)  ==  e < a and e < b
    if isinstance(c, Term) and c.op == "lt" and isinstance(c.args[1], Term) and c.args[1].op == "min":
        return [T("lt", c.args[0], b) for b in c.args[1].args]
    if isinstance(c, Term) and c.op == "gt" and isinstance(c.args[0], Term) and c.args[0].op == "min":
        return [T("lt", c.args[1], b) for b in c.args[0].args]
    return [c]


def lift_broadcast(t, lv, n, shp, dim_term):
    """[f(X[j], Y) for j in range(n)] with X[j] a row (D,), Y invariant of shape (m, D) and f
    elementwise is the broadcast f(X[:, None, :], Y[None, :, :]) of shape (n, m, D);
    returns (term, (n, m, D)) or None"""
    memo = {}
    info = {"m": None, "d": None, "hit": False}

    def rec(x):
        if not isinstance(x, Term):
            return x
        if x in memo:
            return memo[x]
        r = None
        if not mentions(x, lv):
            sh = shp(x)
            if sh is not None and len(sh) == 2:
                if info["m"] is None or (info["m"], info["d"]) == tuple(sh):
                    info["m"], info["d"] = sh
                    r = T("reshape1", x, const(1), dim_term(sh[0]), dim_term(sh[1]))
            elif sh is not None and len(sh) <= 1:
                r = x
        elif x.op == "getitem" and x.args[1] == lv and not mentions(x.args[0], lv):
            sh = shp(x.args[0])
            if sh is not None and len(sh) == 2 and sh[0] == n and (info["d"] is None or info["d"] == sh[1]):
                info["d"] = sh[1]
                info["hit"] = True
                r = T("reshape1", x.args[0], dim_term(n), const(1), dim_term(sh[1]))
        elif x.op == "matmul" and len(x.args) == 2 and isinstance(x.args[1], Term) and x.args[1].op == "dg" and len(x.args[1].args) == 1 and not mentions(x.args[1], lv):
            # (m, D) block scaled column-wise by a vector: the elementwise product with that vector
            vec = x.args[1].args[0]
            vsh = shp(vec)
            lhs = rec(x.args[0])
            if lhs is not None and (vsh is None or len(vsh) == 1):
                if isinstance(vec, Term) and vec.op == "div" and len(vec.args) == 2 and vec.args[0] == const(1):
                    r = T("div", lhs, vec.args[1])
                else:
                    r = T("mul", lhs, vec)
        elif x.op in ELEMENTWISE:
            parts = [rec(a) if isinstance(a, Term) else a for a in x.args]
            r = None if any(p is None for p in parts) else T(x.op, *parts)
        memo[x] = r
        return r

    out = rec(t)
    if out is None or not info["hit"] or info["m"] is None:
        return None
    return out, (n, info["m"], info["d"])


def _cum_lengths(t):
    """L if t is cumsum([0] + L) (the running block boundaries of consecutive blocks of lengths L)"""
    if isinstance(t, Term) and t.op == "cumsum" and len(t.args) == 1:
        c = t.args[0]
        if isinstance(c, Term) and c.op == "concat" and len(c.args) == 2:
            z = c.args[0]
            if isinstance(z, Term) and z.op == "list" and len(z.args) == 1 and z.args[0] == const(0):
                return c.args[1]
    return None


def consecutive_blocks(elt, lv, n, shp):
    """[A[t[i]:t[i+1]] for i in range(n)] with t = cumsum([0] + L), len(L) == n  ->  (A, L)"""
    if not (isinstance(elt, Term) and elt.op == "getitem"):
        return None
    A_t, idx = elt.args
    if mentions(A_t, lv) or not (isinstance(idx, Term) and idx.op == "slice" and len(idx.args) == 3 and idx.args[2] == _NONE):
        return None
    lo, hi = idx.args[0], idx.args[1]
    # zip(t[:-1], t[1:]) spelling: t[:-1][i] is t[i] and t[1:][i] is t[i + 1]
    if isinstance(lo, Term) and lo.op == "getitem" and lo.args[1] == lv and isinstance(lo.args[0], Term) and lo.args[0].op == "getitem" and lo.args[0].args[1] == T("slice", _NONE, const(-1), _NONE) and isinstance(hi, Term) and hi.op == "getitem" and hi.args[1] == lv and isinstance(hi.args[0], Term) and hi.args[0].op == "getitem" and hi.args[0].args[1] == T("slice", const(1), _NONE, _NONE) and hi.args[0].args[0] == lo.args[0].args[0]:
        base_t = lo.args[0].args[0]
        lo, hi = T("getitem", base_t, lv), T("getitem", base_t, T("add", lv, const(1)))
    if not (isinstance(lo, Term) and lo.op == "getitem" and lo.args[1] == lv and isinstance(hi, Term) and hi.op == "getitem" and hi.args[0] == lo.args[0]):
        return None
    nxt = hi.args[1]
    if nxt not in (T("add", lv, const(1)), T("add", const(1), lv)):
        return None
    L = _cum_lengths(lo.args[0])
    if L is None or mentions(L, lv):
        return None
    lsh = shp(L)
    if lsh is None or len(lsh) != 1 or lsh[0] != n:
        return None
    return A_t, L
