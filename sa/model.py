"""E0 - program model of /repo/src/skmatter built from source text only.

Parses every module (never imports it), resolves imports through package
``__init__`` re-exports, builds the class table with a C3 MRO (external bases
are represented by stub classes from sa/stubs_src.py when we rely on a fact
about them, otherwise by opaque ExternalClass markers) and gives function lookup
by qualified name.  Everything a spec names is looked up here; a miss raises
AnchorError, which check.py maps to exit 2 (ANALYSIS-ERROR).
"""
from __future__ import annotations

import ast
import os


class AnchorError(Exception):
    """A name a spec relies on does not resolve on the current tree."""


class AnalysisError(Exception):
    """The analysed code left the language the analysis can decide."""


PKG = "skmatter"


class FunctionInfo:
    def __init__(self, node, module, cls=None, outer=None):
        self.node = node
        self.module = module  # ModuleInfo
        self.cls = cls  # ClassInfo or None
        self.outer = outer
        self.name = getattr(node, "name", "<lambda>")

    @property
    def qualname(self):
        if self.cls is not None:
            return f"{self.module.name}.{self.cls.name}.{self.name}"
        return f"{self.module.name}.{self.name}"

    @property
    def short(self):
        if self.cls is not None:
            return f"{self.cls.name}.{self.name}"
        return self.name

    def is_property(self):
        for d in getattr(self.node, "decorator_list", []):
            if isinstance(d, ast.Name) and d.id == "property":
                return True
        return False

    def is_static(self):
        for d in getattr(self.node, "decorator_list", []):
            if isinstance(d, ast.Name) and d.id == "staticmethod":
                return True
        return False

    def is_abstract(self):
        for d in getattr(self.node, "decorator_list", []):
            if isinstance(d, ast.Name) and d.id == "abstractmethod":
                return True
        return False

    def params(self):
        a = self.node.args
        return [x.arg for x in a.posonlyargs + a.args] + [x.arg for x in a.kwonlyargs]

    def __repr__(self):
        return f"<fn {self.qualname}>"


class ExternalClass:
    def __init__(self, qual):
        self.qual = qual
        self.name = qual.rsplit(".", 1)[-1]
        self.methods = {}
        self.bases = []
        self.external = True

    def mro(self):
        return [self]

    def __repr__(self):
        return f"<ext class {self.qual}>"


class ClassInfo:
    external = False

    def __init__(self, node, module):
        self.node = node
        self.module = module
        self.name = node.name
        self.methods = {}
        self.class_attrs = {}
        for st in node.body:
            if isinstance(st, ast.FunctionDef):
                self.methods[st.name] = FunctionInfo(st, module, self)
            elif isinstance(st, ast.Assign):
                for t in st.targets:
                    if isinstance(t, ast.Name):
                        self.class_attrs[t.id] = st.value
        self.bases = []  # filled by Program
        self._mro = None

    @property
    def qual(self):
        return f"{self.module.name}.{self.name}"

    def mro(self):
        if self._mro is None:
            self._mro = _c3(self)
        return self._mro

    def find_method(self, name, after=None):
        """MRO lookup; ``after`` = class after which the search starts (super())."""
        mro = self.mro()
        start = 0
        if after is not None:
            for i, c in enumerate(mro):
                if c is after:
                    start = i + 1
                    break
        for c in mro[start:]:
            if name in c.methods:
                return c.methods[name]
        return None

    def init_params(self):
        """constructor parameter names along the MRO (sklearn get_params view +
        everything forwarded by name)."""
        out = []
        for c in self.mro():
            m = c.methods.get("__init__")
            if m is not None and not getattr(c, "external", False):
                for p in m.params()[1:]:
                    if p not in out:
                        out.append(p)
        return out

    def is_subclass_of(self, qual_or_name):
        for c in self.mro():
            if c.name == qual_or_name or getattr(c, "qual", None) == qual_or_name:
                return True
        return False

    def __repr__(self):
        return f"<class {self.qual}>"


def _c3(cls):
    def merge(seqs):
        res = []
        seqs = [list(s) for s in seqs if s]
        while seqs:
            for s in seqs:
                cand = s[0]
                if not any(cand in t[1:] for t in seqs):
                    break
            else:
                # inconsistent hierarchy: fall back to first-seen order
                cand = seqs[0][0]
            res.append(cand)
            seqs = [[x for x in s if x is not cand] for s in seqs]
            seqs = [s for s in seqs if s]
        return res

    return [cls] + merge([b.mro() for b in cls.bases] + [list(cls.bases)])


class ModuleInfo:
    def __init__(self, name, path, source, is_pkg):
        self.name = name
        self.path = path
        self.source = source
        self.is_pkg = is_pkg
        self.tree = ast.parse(source, filename=path)
        self.functions = {}
        self.classes = {}
        self.imports = {}  # local name -> ('mod', qual) | ('sym', modqual, name)
        self.all = None
        self.assigns = {}
        pkg = name if is_pkg else name.rsplit(".", 1)[0] if "." in name else ""
        for st in self.tree.body:
            if isinstance(st, ast.FunctionDef):
                self.functions[st.name] = FunctionInfo(st, self)
            elif isinstance(st, ast.ClassDef):
                self.classes[st.name] = ClassInfo(st, self)
            elif isinstance(st, ast.Import):
                for a in st.names:
                    if a.asname:
                        self.imports[a.asname] = ("mod", a.name)
                    else:
                        self.imports[a.name.split(".")[0]] = ("mod", a.name.split(".")[0])
            elif isinstance(st, ast.ImportFrom):
                if st.level:
                    parts = pkg.split(".") if pkg else []
                    up = st.level - 1
                    base = parts[: len(parts) - up] if up else parts
                    mod = ".".join(base + ([st.module] if st.module else []))
                else:
                    mod = st.module
                for a in st.names:
                    self.imports[a.asname or a.name] = ("sym", mod, a.name)
            elif isinstance(st, ast.Assign):
                for t in st.targets:
                    if isinstance(t, ast.Name):
                        self.assigns[t.id] = st.value
                        if t.id == "__all__" and isinstance(st.value, (ast.List, ast.Tuple)):
                            self.all = [e.value for e in st.value.elts if isinstance(e, ast.Constant)]


class Program:
    """All modules of the package under ``root`` (optionally with a source overlay
    ``{relative path: source}`` for in-memory twins)."""

    def __init__(self, root="/repo/src/skmatter", overlay=None, extra_modules=None):
        self.root = root
        self.modules = {}
        self.files = []
        overlay = overlay or {}
        for dirpath, dirnames, filenames in os.walk(root):
            dirnames.sort()
            for fn in sorted(filenames):
                if not fn.endswith(".py"):
                    continue
                path = os.path.join(dirpath, fn)
                rel = os.path.relpath(path, root)
                parts = rel[:-3].split(os.sep)
                is_pkg = parts[-1] == "__init__"
                if is_pkg:
                    parts = parts[:-1]
                name = ".".join([PKG] + parts)
                src = overlay.get(rel)
                if src is None:
                    with open(path, encoding="utf-8") as fh:
                        src = fh.read()
                self.modules[name] = ModuleInfo(name, path, src, is_pkg)
                self.files.append(rel)
        for name, (path, src) in (extra_modules or {}).items():
            self.modules[name] = ModuleInfo(name, path, src, False)
        self._ext_classes = {}
        # resolve class bases
        for m in self.modules.values():
            for c in m.classes.values():
                bases = []
                for b in c.node.bases:
                    r = self.resolve_expr(m, b)
                    if isinstance(r, (ClassInfo, ExternalClass)):
                        bases.append(r)
                    elif isinstance(r, tuple) and r and r[0] == "ext":
                        bases.append(self.ext_class(r[1]))
                    else:
                        bases.append(self.ext_class(ast.unparse(b)))
                c.bases = bases

    # -- resolution -------------------------------------------------------
    def ext_class(self, qual):
        # stub classes (facts about external bases we rely on)
        short = qual.rsplit(".", 1)[-1]
        stubmod = self.modules.get("skstubs")
        if stubmod is not None and short in stubmod.classes:
            return stubmod.classes[short]
        if qual not in self._ext_classes:
            self._ext_classes[qual] = ExternalClass(qual)
        return self._ext_classes[qual]

    def resolve_symbol(self, modqual, name, _depth=0):
        """resolve ``from modqual import name`` ->
        FunctionInfo | ClassInfo | ModuleInfo | ('ext', 'pkg.mod.name')"""
        if _depth > 10:
            return ("ext", f"{modqual}.{name}")
        m = self.modules.get(modqual)
        if m is None:
            sub = self.modules.get(f"{modqual}.{name}")
            if sub is not None:
                return sub
            if modqual and not modqual.startswith(PKG):
                short = name
                stubmod = self.modules.get("skstubs")
                if stubmod is not None and short in stubmod.classes:
                    return stubmod.classes[short]
            return ("ext", f"{modqual}.{name}")
        if name in m.functions:
            return m.functions[name]
        if name in m.classes:
            return m.classes[name]
        if name in m.imports:
            imp = m.imports[name]
            if imp[0] == "mod":
                return self.modules.get(imp[1], ("ext", imp[1]))
            return self.resolve_symbol(imp[1], imp[2], _depth + 1)
        sub = self.modules.get(f"{modqual}.{name}")
        if sub is not None:
            return sub
        if name in m.assigns:
            return ("assign", m, m.assigns[name])
        return ("ext", f"{modqual}.{name}")

    def resolve_name(self, module, name):
        if name in module.functions:
            return module.functions[name]
        if name in module.classes:
            return module.classes[name]
        if name in module.imports:
            imp = module.imports[name]
            if imp[0] == "mod":
                return self.modules.get(imp[1], ("ext", imp[1]))
            return self.resolve_symbol(imp[1], imp[2])
        if name in module.assigns:
            return ("assign", module, module.assigns[name])
        return None

    def resolve_expr(self, module, node):
        """resolve a dotted expression statically (Name / Attribute chain)."""
        if isinstance(node, ast.Name):
            return self.resolve_name(module, node.id)
        if isinstance(node, ast.Attribute):
            base = self.resolve_expr(module, node.value)
            if isinstance(base, ModuleInfo):
                return self.resolve_symbol(base.name, node.attr)
            if isinstance(base, tuple) and base and base[0] == "ext":
                return ("ext", base[1] + "." + node.attr)
        return None

    # -- anchors ------------------------------------------------------------
    def module(self, name):
        m = self.modules.get(name)
        if m is None:
            raise AnchorError(f"module {name} not found")
        return m

    def cls(self, qual):
        """'skmatter._selection._FPS' or 'skmatter.feature_selection.FPS'"""
        mod, _, name = qual.rpartition(".")
        r = self.resolve_symbol(mod, name)
        if not isinstance(r, ClassInfo):
            raise AnchorError(f"class {qual} not found")
        return r

    def func(self, qual):
        mod, _, name = qual.rpartition(".")
        r = self.resolve_symbol(mod, name)
        if isinstance(r, FunctionInfo):
            return r
        # maybe Class.method
        mod2, _, cname = mod.rpartition(".")
        c = self.resolve_symbol(mod2, cname)
        if isinstance(c, ClassInfo) and name in c.methods:
            return c.methods[name]
        raise AnchorError(f"function {qual} not found")

    def method(self, cls, name):
        m = cls.find_method(name)
        if m is None:
            raise AnchorError(f"method {cls.qual}.{name} not found along the MRO")
        return m

    def all_functions(self):
        for m in self.modules.values():
            if m.name == "skstubs":
                continue
            for f in m.functions.values():
                yield f
            for c in m.classes.values():
                for f in c.methods.values():
                    yield f

    def stats(self):
        nf = sum(1 for _ in self.all_functions())
        nc = sum(len(m.classes) for n, m in self.modules.items() if n != "skstubs")
        return {"files": len(self.files), "classes": nc, "functions": nf}
