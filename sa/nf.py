"""Algebraic normal form of terms (value numbering modulo ring axioms).

poly  := frozenset of (mono, coeff)                       coeff : Fraction != 0
mono  := (sfactors, chain)
         sfactors : frozenset of (atom, exponent)            commuting scalar factors
         chain    : tuple of atoms                            matmul product, in order
atom  := interned Node(op, kids...)  (kids: atoms, polys, constants, tuples of those)

Axioms applied: associativity/commutativity of +, distributivity of scalar
multiplication, Hadamard product and matmul over +, scalars commute and are
collected with exponents, (AB)^T = B^T A^T, (A^T)^T = A, x*x = x**2,
sqrt = **1/2, a/b = a*b**-1, zeros are additive zero, eye is the matmul unit,
cyclic invariance and linearity of trace, linearity of sum/mean/average,
A*v (row broadcast) = A @ dg(v), dg(a)dg(b) = dg(a∘b), unit reshapes and astype
are identities, read-after-write of subscript stores.
Products of sums are only distributed while the result stays below
MAX_MONOMIALS (otherwise the factors are kept as opaque polynomial atoms).
"""
from __future__ import annotations

from fractions import Fraction

from .terms import Dim, Term

ONE = Fraction(1)
MAX_MONOMIALS = 120


class NotInLanguage(Exception):
    pass


class Node:
    __slots__ = ("op", "kids")

    def __init__(self, op, kids):
        self.op = op
        self.kids = kids

    def __repr__(self):
        return show_atom(self)


_TABLE = {}


def A(op, *kids):
    key = (op,) + kids
    n = _TABLE.get(key)
    if n is None:
        n = Node(op, kids)
        _TABLE[key] = n
    return n


EYE = A("eye")
EMPTY_S = frozenset()
ZERO = frozenset()


def P_const(c):
    c = Fraction(c)
    if c == 0:
        return ZERO
    return frozenset([((EMPTY_S, ()), c)])


def P_atom(atom, scalar=False):
    if scalar:
        return frozenset([((frozenset([(atom, ONE)]), ()), ONE)])
    return frozenset([((EMPTY_S, (atom,)), ONE)])


def _mk(d):
    if any(x.op == "poly" and e == 1 for (s, chain) in d for x, e in s):
        return _unwrap_polys(d)
    return frozenset((m, c) for m, c in d.items() if c != 0)


def _unwrap_polys(d):
    """a scalar factor that is a parenthesised sum with exponent 1 is multiplied out again
    (arises from sqrt(...)**2)"""
    out = {}
    for (s, chain), c in d.items():
        if c == 0:
            continue
        polys = [x for x, e in s if x.op == "poly" and e == 1]
        if not polys or any(len(x.kids[0]) > 12 for x in polys):
            out[(s, chain)] = out.get((s, chain), 0) + c
            continue
        rest = frozenset((x, e) for x, e in s if not (x.op == "poly" and e == 1))
        acc = frozenset([((rest, chain), c)])
        for x in polys:
            acc = p_had(x.kids[0], acc)
        for m, k in acc:
            out[m] = out.get(m, 0) + k
    return frozenset((m, c) for m, c in out.items() if c != 0)


def p_add(a, b, sign=1):
    if not b:
        return a
    d = dict(a)
    for m, c in b:
        d[m] = d.get(m, 0) + sign * c
    return _mk(d)


def _merge_s(sa, sb):
    if not sb:
        return sa
    if not sa:
        return sb
    d = dict(sa)
    for a, e in sb:
        d[a] = d.get(a, 0) + e
    return frozenset((a, e) for a, e in d.items() if e != 0)


def p_scale(a, c):
    if c == 1:
        return a
    return _mk({m: k * c for m, k in a})


def _opaque(p):
    """a polynomial kept as one (non-scalar) factor"""
    a = single_atom(p)
    return a if a is not None else A("poly", p)


def _too_big(a, b):
    return len(a) * len(b) > MAX_MONOMIALS and len(a) > 1 and len(b) > 1


def p_matmul(a, b):
    if _too_big(a, b):
        a = P_atom(_opaque(a))
        b = P_atom(_opaque(b))
    d = {}
    for (sa, ca), ka in a:
        for (sb, cb), kb in b:
            chain = ca + cb
            if ca and cb:
                chain = tuple(x for x in chain if x is not EYE)
                if not chain:
                    chain = (EYE,)
            chain, extra = _merge_dg(chain)
            if extra is None:
                continue
            ss, kk = extra
            m = (_merge_s(_merge_s(sa, sb), ss), chain)
            d[m] = d.get(m, 0) + ka * kb * kk
    return _mk(d)


def _merge_dg(chain):
    """dg(a) @ dg(b) = dg(a∘b); returns (chain, (scalar factors, coeff)) or (.., None) if zero"""
    if not any(x.op == "dg" for x in chain):
        return chain, (EMPTY_S, ONE)
    out = []
    s = EMPTY_S
    k = ONE
    for x in chain:
        if out and x.op == "dg" and out[-1].op == "dg":
            out[-1] = A("dg", p_had(out[-1].kids[0], x.kids[0]))
        else:
            out.append(x)
    res = []
    for x in out:
        if x.op == "dg":
            p = x.kids[0]
            if not p:
                return (), None
            if len(p) == 1:
                ((ps, pc), pk), = p
                if not pc:
                    s = _merge_s(s, ps)
                    k = k * pk
                    continue  # dg(scalar) = scalar * eye
                if ps or pk != 1:
                    s = _merge_s(s, ps)
                    k = k * pk
                    x = A("dg", frozenset([((EMPTY_S, pc), ONE)]))
        res.append(x)
    if not res and out:
        res = [EYE]
    return tuple(res), (s, k)


def chain_atom(chain):
    if len(chain) == 1:
        return chain[0]
    return A("chain", *chain)


def p_had(a, b):
    """elementwise product (bilinear, commutative)"""
    if _too_big(a, b):
        a = P_atom(_opaque(a))
        b = P_atom(_opaque(b))
    d = {}
    for (sa, ca), ka in a:
        for (sb, cb), kb in b:
            s = _merge_s(sa, sb)
            if not ca:
                chain = cb
            elif not cb:
                chain = ca
            else:
                xa, xb = chain_atom(ca), chain_atom(cb)
                fa = list(xa.kids[0]) if xa.op == "had" else [(xa, ONE)]
                fb = list(xb.kids[0]) if xb.op == "had" else [(xb, ONE)]
                dd = {}
                for f, e in fa + fb:
                    dd[f] = dd.get(f, 0) + e
                fs = frozenset((f, e) for f, e in dd.items() if e != 0)
                polys = [f for f, e in fs if f.op == "poly" and e == 1]
                if polys and (any(f.op == "poly" and e != 1 for f, e in fa) or any(f.op == "poly" and e != 1 for f, e in fb)):
                    # sqrt(p) * sqrt(p) is p again: the parenthesised sum is multiplied back out
                    rest_fs = frozenset((f, e) for f, e in fs if f is not polys[0])
                    rest_chain = () if not rest_fs else ((next(iter(rest_fs))[0],) if (len(rest_fs) == 1 and next(iter(rest_fs))[1] == 1) else (A("had", rest_fs),))
                    sub = p_had(frozenset([((s, rest_chain), ka * kb)]), polys[0].kids[0])
                    for m2, k2 in sub:
                        d[m2] = d.get(m2, 0) + k2
                    continue
                if not fs:
                    chain = ()
                elif len(fs) == 1 and next(iter(fs))[1] == 1:
                    chain = (next(iter(fs))[0],)
                else:
                    chain = (A("had", fs),)
            m = (s, chain)
            d[m] = d.get(m, 0) + ka * kb
    return _mk(d)


def _rat_pow(k, e):
    if e.denominator == 1:
        if k == 0 and e < 0:
            return None
        return k ** int(e)
    if k <= 0:
        return None
    num = k.numerator ** (1.0 / e.denominator)
    den = k.denominator ** (1.0 / e.denominator)
    rn, rd = round(num), round(den)
    if rn ** e.denominator == k.numerator and rd ** e.denominator == k.denominator:
        return Fraction(rn, rd) ** e.numerator
    return None


def p_pow(a, e):
    """a ** e for a constant rational exponent"""
    e = Fraction(e)
    if e == 1:
        return a
    if e == 0:
        return P_const(1)
    if len(a) == 1:
        ((s, chain), k), = a
        kk = _rat_pow(k, e)
        if kk is not None and len(chain) == 1 and chain[0].op == "dg" and e > 0:
            s2 = frozenset((x, ex * e) for x, ex in s)
            return frozenset([((s2, (A("dg", p_pow(chain[0].kids[0], e)),)), kk)])
        if kk is not None:
            s2 = frozenset((x, ex * e) for x, ex in s)
            if not chain:
                return frozenset([((s2, ()), kk)])
            xa = chain_atom(chain)
            fa = list(xa.kids[0]) if xa.op == "had" else [(xa, ONE)]
            fs = frozenset((f, ex * e) for f, ex in fa)
            atom = next(iter(fs))[0] if (len(fs) == 1 and next(iter(fs))[1] == 1) else A("had", fs)
            if atom.op == "poly":
                # (sqrt(p)) ** 2 is p again: multiply the parenthesised sum back out
                return p_had(frozenset([((s2, ()), kk)]), atom.kids[0])
            return frozenset([((s2, (atom,)), kk)])
    if not a:
        return ZERO if e > 0 else P_atom(A("div0"), scalar=True)
    if e.denominator == 1 and 2 <= e <= 3 and len(a) ** int(e) <= MAX_MONOMIALS:
        out = a
        for _ in range(int(e) - 1):
            out = p_had(out, a)
        return out
    if len(a) > 1:
        # content: (c * x * q) ** e = c ** e * x ** e * q ** e for the factors common to every monomial
        common = None
        for (s, chain), k in a:
            ds = dict(s)
            common = ds if common is None else {x: min(ex, common[x]) for x, ex in ds.items() if x in common and (ex > 0) == (common[x] > 0)}
        common = {x: ex for x, ex in (common or {}).items() if ex != 0}
        ks = [k for _, k in a]
        from math import gcd

        num = 0
        den = 1
        for k in ks:
            num = gcd(num, abs(Fraction(k).numerator))
            den = den * Fraction(k).denominator // gcd(den, Fraction(k).denominator)
        # every k = n_k/d_k; common rational factor = gcd(n_k * den/d_k)/den
        nn = 0
        for k in ks:
            nn = gcd(nn, abs(int(Fraction(k) * den)))
        content = Fraction(nn, den) if nn else Fraction(1)
        ck = _rat_pow(content, e)
        if ck is None:
            content, ck = Fraction(1), Fraction(1)
        if common or content != 1:
            d = {}
            for (s, chain), k in a:
                ds = dict(s)
                for x, ex in common.items():
                    ds[x] = ds[x] - ex
                s2 = frozenset((x, ex) for x, ex in ds.items() if ex != 0)
                d[(s2, chain)] = Fraction(k) / content
            rest = _mk(d)
            fac = frozenset([((frozenset((x, ex * e) for x, ex in common.items()), ()), ck)])
            return p_had(fac, p_pow(rest, e))
    if len(a) > 1 and all(len(chain) <= 1 for (s, chain), k in a) and all(chain for (s, chain), k in a):
        # clearing denominators elementwise: (v + c / v) ** e = v ** -e * (v * v + c) ** e for a vector v that
        # every term carries (its most negative power is taken out)
        per = [(dict(chain[0].kids[0]) if chain[0].op == "had" else {chain[0]: ONE}) for (s, chain), k in a]
        common = None
        for dct in per:
            common = dict(dct) if common is None else {x: min(ex, common[x]) for x, ex in dct.items() if x in common}
        common = {x: ex for x, ex in (common or {}).items() if ex < 0}
        if common:
            d = {}
            for ((s, chain), k), dct in zip(a, per):
                dd = dict(dct)
                for x, ex in common.items():
                    dd[x] = dd[x] - ex
                fs = frozenset((f, ex) for f, ex in dd.items() if ex != 0)
                ch = () if not fs else ((next(iter(fs))[0],) if (len(fs) == 1 and next(iter(fs))[1] == 1) else (A("had", fs),))
                d[(s, ch)] = d.get((s, ch), 0) + k
            rest = _mk(d)
            cf = frozenset((x, ex * e) for x, ex in common.items())
            catom = next(iter(cf))[0] if (len(cf) == 1 and next(iter(cf))[1] == 1) else A("had", cf)
            if all(ch for (s_, ch), k_ in rest):
                return p_had(frozenset([((EMPTY_S, (catom,)), ONE)]), p_pow(rest, e))
    scalar = all(not chain for (s, chain), k in a)
    atom = A("poly", a)
    if scalar:
        return frozenset([((frozenset([(atom, e)]), ()), ONE)])
    return frozenset([((EMPTY_S, (A("had", frozenset([(atom, e)])),)), ONE)])


_MENTION_CACHE = {}


def _mentions(x, target):
    """does the node / poly / tuple structure contain the node `target`"""
    if x is target:
        return True
    if isinstance(x, Node):
        key = (id(x), id(target))
        r = _MENTION_CACHE.get(key)
        if r is None:
            r = any(_mentions(k, target) for k in x.kids)
            _MENTION_CACHE[key] = r
        return r
    if isinstance(x, (tuple, frozenset)):
        return any(_mentions(k, target) for k in x)
    return False


def _split_content(p, invariant):
    """p = fac * rest with fac the product of the scalar factors (and the rational content)
    common to every monomial of p that satisfy `invariant`"""
    if not p:
        return P_const(1), p
    common = None
    for (s, chain), k in p:
        ds = {x: ex for x, ex in s if invariant(x)}
        common = ds if common is None else {x: (min(ex, common[x]) if ex > 0 else max(ex, common[x])) for x, ex in ds.items() if x in common and (ex > 0) == (common[x] > 0)}
    common = {x: ex for x, ex in (common or {}).items() if ex != 0}
    content = Fraction(1)
    if len(p) == 1:
        content = Fraction(next(iter(p))[1])
    if not common and content == 1:
        return P_const(1), p
    d = {}
    for (s, chain), k in p:
        ds = dict(s)
        for x, ex in common.items():
            ds[x] = ds[x] - ex
        d[(frozenset((x, ex) for x, ex in ds.items() if ex != 0), chain)] = Fraction(k) / content
    return frozenset([((frozenset(common.items()), ()), content)]), _mk(d)


SYMMETRIC_OPS = {"eye", "dg", "zeros"}


def t_atom(atom, symmetric):
    if atom.op in SYMMETRIC_OPS or atom in symmetric:
        return atom
    if atom.op == "t":
        return atom.kids[0]
    if atom.op == "had":
        return A("had", frozenset((t_atom(f, symmetric), e) for f, e in atom.kids[0]))
    if atom.op == "chain":
        return A("chain", *[t_atom(x, symmetric) for x in reversed(atom.kids)])
    if atom.op == "poly":
        return A("poly", p_T(atom.kids[0], symmetric))
    return A("t", atom)


def p_T(a, symmetric=frozenset()):
    d = {}
    for (s, chain), k in a:
        m = (s, tuple(t_atom(x, symmetric) for x in reversed(chain)))
        d[m] = d.get(m, 0) + k
    return _mk(d)


def single_atom(p):
    """if the poly is exactly one atom with coefficient 1 return it"""
    if len(p) == 1:
        ((s, chain), k), = p
        if k == 1 and not s and len(chain) == 1:
            return chain[0]
        if k == 1 and not chain and len(s) == 1:
            (x, e), = s
            if e == 1:
                return x
    return None


def _scalar_factors(chain):
    """commuting factors of a scalar-valued product: an elementwise product of scalars is
    the product of its factors (with their exponents)"""
    if len(chain) == 1 and chain[0].op == "had":
        return chain[0].kids[0]
    return frozenset([(chain_atom(chain), ONE)])


def wrap(p):
    if not p:
        return Fraction(0)
    if len(p) == 1:
        ((s, chain), k), = p
        if not s and not chain:
            return k
    a = single_atom(p)
    if a is not None:
        return a
    if len(p) == 1:
        ((s, chain), k), = p
        if k == 1 and not chain and s:
            # a product of commuting factors has the same canonical node as the elementwise product
            return A("had", s)
    return A("poly", p)


_NONE = None


def _none():
    return A("const", None)


def _mk_slice(axis, hi):
    sl = A("slice", _none(), hi, _none())
    if axis == 0:
        return sl
    return A("tuple", A("slice", _none(), _none(), _none()), sl)


def _is_zero_t(t):
    return isinstance(t, Term) and t.op == "const" and isinstance(t.args[0], (int, float, Fraction)) and not isinstance(t.args[0], bool) and t.args[0] == 0


def _listed_columns(t):
    """[A[:, c0], A[:, c1], ...] if t is A[:, [c0, c1, ...]] with a literal list of at least two constant columns"""
    if isinstance(t, Term) and t.op == "getitem" and isinstance(t.args[1], Term) and t.args[1].op == "tuple" and len(t.args[1].args) == 2 and _term_full_slice(t.args[1].args[0]):
        l_ = t.args[1].args[1]
        if isinstance(l_, Term) and l_.op == "list" and len(l_.args) >= 2 and all(isinstance(c_, Term) and c_.op == "const" for c_ in l_.args):
            return [Term("getitem", t.args[0], Term("tuple", t.args[1].args[0], c_)) for c_ in l_.args]
    return None


def _column_fill(t):
    """stack(1, c0, ..., c_{m-1}) if t writes every column k = 0 .. m-1 of a fresh n x m table exactly once"""
    cols = {}
    x = t
    while isinstance(x, Term) and x.op == "store" and len(x.args) == 3:
        idx = x.args[1]
        if not (isinstance(idx, Term) and idx.op == "tuple" and len(idx.args) == 2 and _term_full_slice(idx.args[0]) and isinstance(idx.args[1], Term) and idx.args[1].op == "const" and isinstance(idx.args[1].args[0], (int, Fraction)) and not isinstance(idx.args[1].args[0], bool)):
            return None
        k = int(idx.args[1].args[0])
        if k in cols or k < 0:
            return None
        cols[k] = x.args[2]
        x = x.args[0]
    while isinstance(x, Term) and x.op == "astype" and x.args and isinstance(x.args[0], Term):
        x = x.args[0]
    if not (isinstance(x, Term) and x.op in ("zeros", "empty") and len(x.args) == 2 and isinstance(x.args[1], Term) and x.args[1].op == "const" and isinstance(x.args[1].args[0], (int, Fraction))):
        return None
    m = int(x.args[1].args[0])
    if m < 2 or sorted(cols) != list(range(m)):
        return None
    return Term("stack", Term("const", Fraction(1)), *[cols[k] for k in range(m)])


def _arange_bound(z):
    """k if z is the index vector 0 .. k-1 (np.arange(k), np.arange(n)[:k], with or without an integer cast)"""
    while isinstance(z, Term) and z.op == "astype" and z.args and isinstance(z.args[0], Term):
        z = z.args[0]
    if isinstance(z, Term) and z.op == "arange" and len(z.args) == 1 and isinstance(z.args[0], Term):
        return z.args[0]
    if isinstance(z, Term) and z.op == "getitem" and len(z.args) == 2 and isinstance(z.args[0], Term) and _arange_bound(z.args[0]) is not None and isinstance(z.args[1], Term) and z.args[1].op == "slice" and len(z.args[1].args) == 3 and _is_none_t(z.args[1].args[0]) and _is_none_t(z.args[1].args[2]) and isinstance(z.args[1].args[1], Term) and not _is_none_t(z.args[1].args[1]):
        return z.args[1].args[1]
    return None


def _truth_of(c):
    """the truth value of a condition, written as `any` of a mask where it is one:
    a non-zero count of m, min(v) < c, max(v) > c  are  any(m), any(v < c), any(v > c)"""
    if not isinstance(c, Term):
        return c
    if c.op == "count" and len(c.args) == 1 and isinstance(c.args[0], Term):
        return Term("any", c.args[0])
    if c.op in ("lt", "le", "gt", "ge") and len(c.args) == 2:
        def _mm(z):
            # x[argmin(x)] is min(x), x[argmax(x)] is max(x)
            if isinstance(z, Term) and z.op == "getitem" and isinstance(z.args[1], Term) and z.args[1].op in ("argmin", "argmax") and len(z.args[1].args) == 1 and z.args[1].args[0] == z.args[0]:
                return Term("amin" if z.args[1].op == "argmin" else "amax", z.args[0])
            return z
        l_, r_ = _mm(c.args[0]), _mm(c.args[1])
        if isinstance(l_, Term) and len(l_.args) == 1 and ((l_.op == "amin" and c.op in ("lt", "le")) or (l_.op == "amax" and c.op in ("gt", "ge"))) and not (isinstance(r_, Term) and r_.op in ("amin", "amax")):
            return Term("any", Term(c.op, l_.args[0], r_))
        if isinstance(r_, Term) and len(r_.args) == 1 and ((r_.op == "amin" and c.op in ("gt", "ge")) or (r_.op == "amax" and c.op in ("lt", "le"))) and not (isinstance(l_, Term) and l_.op in ("amin", "amax")):
            return Term("any", Term(c.op, l_, r_.args[0]))
    return c


def _is_none_t(x):
    return isinstance(x, Term) and x.op == "const" and x.args[0] is None


def _term_full_slice(x):
    return isinstance(x, Term) and x.op == "slice" and all(_is_none_t(q) for q in x.args)


def _term_prefix_axis(idx):
    """axis of a Term index of the form [:h] / [:, :h]"""
    def pre(x):
        return isinstance(x, Term) and x.op == "slice" and len(x.args) == 3 and _is_none_t(x.args[0]) and _is_none_t(x.args[2]) and not _is_none_t(x.args[1])

    if pre(idx):
        return 0
    if isinstance(idx, Term) and idx.op == "tuple" and len(idx.args) == 2 and _term_full_slice(idx.args[0]) and pre(idx.args[1]):
        return 1
    return None


def _nonneg_const(x):
    return isinstance(x, Term) and x.op == "const" and isinstance(x.args[0], Fraction) and x.args[0] >= 0


def _setdiff_pattern(t):
    """flatnonzero(~isin(arange(n), b)): the positions are the values themselves, setdiff1d(arange(n), b)"""
    if isinstance(t, Term) and t.op == "nonzero1" and len(t.args) == 1:
        m = t.args[0]
        if isinstance(m, Term) and m.op == "invert" and isinstance(m.args[0], Term) and m.args[0].op == "isin":
            x, b = m.args[0].args[0], m.args[0].args[1]
            if isinstance(x, Term) and x.op == "arange" and len(x.args) == 1:
                return Term("setdiff1d", x, b)
    return None


def _argwhere_flat(t):
    """np.concatenate(np.argwhere(m)) for a rank-1 mask m is np.flatnonzero(m)"""
    if isinstance(t, Term) and t.op == "stack" and len(t.args) == 2 and isinstance(t.args[0], Term) and t.args[0].op == "const" and t.args[0].args[0] == 0 and isinstance(t.args[1], Term) and t.args[1].op == "argwhere" and len(t.args[1].args) == 2 and t.args[1].args[1] == ("rank", Term("const", Fraction(1))):
        return Term("nonzero1", t.args[1].args[0])
    return t


def _mentions_term(t, sub):
    if t == sub:
        return True
    return isinstance(t, Term) and any(_mentions_term(x, sub) for x in t.args if isinstance(x, (Term, tuple))) if not isinstance(t, tuple) else any(_mentions_term(x, sub) for x in t)


def _sorted_tail(z):
    """a[count(s >= c):] for a descending-sorted vector s (the singular values LAPACK returns) selects the entries
    with s < c: the mask `s < c` (likewise `>` / `<=`); None if z is not of that form"""
    if not (isinstance(z, Term) and z.op == "slice" and len(z.args) == 3 and _is_none_t(z.args[1]) and _is_none_t(z.args[2])):
        return None
    lo = z.args[0]
    while isinstance(lo, Term) and lo.op == "int" and len(lo.args) == 1:
        lo = lo.args[0]
    if not (isinstance(lo, Term) and lo.op == "count" and len(lo.args) == 1 and isinstance(lo.args[0], Term) and len(lo.args[0].args) == 2):
        return None
    c = lo.args[0]
    a_, b_ = c.args
    def desc(t_):
        return isinstance(t_, Term) and t_.op == "svd_S"
    if c.op == "le" and desc(b_):      # c <= s
        return Term("lt", b_, a_)
    if c.op == "ge" and desc(a_):      # s >= c
        return Term("lt", a_, b_)
    if c.op == "lt" and desc(b_):      # c < s
        return Term("le", b_, a_)
    if c.op == "gt" and desc(a_):      # s > c
        return Term("le", a_, b_)
    return None


def _flag_mask_positions(m):
    """m = (all False; m[idx] = True): the positions flagged, in increasing order without repeats = unique(idx)"""
    if not (isinstance(m, Term) and m.op == "store" and len(m.args) == 3):
        return None
    base, idx, val = m.args
    while isinstance(base, Term) and base.op == "astype" and base.args and isinstance(base.args[0], Term):
        base = base.args[0]
    all_false = isinstance(base, Term) and (base.op == "zeros" or (base.op == "full" and isinstance(base.args[0], Term) and base.args[0].op == "const" and base.args[0].args[0] is False))
    is_true = isinstance(val, Term) and val.op == "const" and val.args[0] is True
    if all_false and is_true and isinstance(idx, Term) and idx.op not in ("slice", "tuple", "const", "lv"):
        return Term("unique", idx)
    return None


def _canon_idx_term(idx):
    """index terms modulo: flatnonzero(mask) used as an index == the mask; trailing full slices"""
    if not isinstance(idx, Term):
        return idx
    fm_ = _flag_mask_positions(idx.args[0] if idx.op == "nonzero1" and idx.args else idx)
    if fm_ is not None:
        return fm_
    st_ = _sorted_tail(idx)
    if st_ is not None:
        return st_
    if idx.op == "tuple" and len(idx.args) == 2 and _term_full_slice(idx.args[0]) and _sorted_tail(idx.args[1]) is not None:
        idx = Term("tuple", idx.args[0], _sorted_tail(idx.args[1]))
    idx = _argwhere_flat(idx)
    if idx.op == "tuple":
        idx = Term("tuple", *[_argwhere_flat(z) for z in idx.args])
    if idx.op == "nonzero1":
        return _setdiff_pattern(idx) or idx.args[0]
    if idx.op == "tuple":
        items = [(_setdiff_pattern(z) or z.args[0]) if isinstance(z, Term) and z.op == "nonzero1" else z for z in idx.args]
        while len(items) > 1 and _term_full_slice(items[-1]):
            items.pop()
        if len(items) == 1:
            return items[0]
        if tuple(items) != tuple(idx.args):
            return Term("tuple", *items)
    return idx


def _prefix_slice(fi):
    """(axis, hi) if the frozen index is a[:hi] or a[:, :hi]"""
    def is_prefix(x):
        return isinstance(x, Node) and x.op == "slice" and len(x.kids) == 3 and x.kids[0] is _none() and x.kids[2] is _none() and x.kids[1] is not _none()

    def is_full(x):
        return isinstance(x, Node) and x.op == "slice" and all(k is _none() for k in x.kids)

    if is_prefix(fi):
        return (0, fi.kids[1])
    if isinstance(fi, Node) and fi.op == "tuple" and len(fi.kids) == 2 and is_full(fi.kids[0]) and is_prefix(fi.kids[1]):
        return (1, fi.kids[1].kids[1])
    return None


def _nested_counts(a, b):
    """min(#{x > s}, #{x > t}, ...) over one vector x is #{x > max(s, t, ...)}; None if a, b are not of that form"""
    cts = []
    for z in (a, b):
        zs = z.kids if isinstance(z, Node) and z.op == "min" else (z,)
        for c in zs:
            if not (isinstance(c, Node) and c.op == "count" and len(c.kids) == 1 and isinstance(c.kids[0], Node) and c.kids[0].op == "lt" and len(c.kids[0].kids) == 2):
                return None
            cts.append(c.kids[0])
    if len({id(c.kids[1]) for c in cts}) != 1:
        return None
    thr = []
    for c in cts:
        t_ = c.kids[0]
        thr.extend(t_.kids if isinstance(t_, Node) and t_.op == "max" else (t_,))
    uniq = sorted({id(t_): t_ for t_ in thr}.values(), key=id)
    big = uniq[0] if len(uniq) == 1 else A("max", *uniq)
    return A("count", A("lt", big, cts[0].kids[1]))


def _combine_bounds(a, b):
    if a is b:
        return a
    nc = _nested_counts(a, b)
    if nc is not None:
        return nc
    if isinstance(b, Node) and b.op == "min" and a in b.kids:
        return b
    if isinstance(a, Node) and a.op == "min" and b in a.kids:
        return a
    return A("min", *sorted([a, b], key=id))


def _suffix_slice(fi):
    """axis if the frozen index is a[lo:] or a[:, lo:]"""
    def is_suffix(x):
        return isinstance(x, Node) and x.op == "slice" and len(x.kids) == 3 and x.kids[1] is _none() and x.kids[2] is _none() and x.kids[0] is not _none()

    def is_full(x):
        return isinstance(x, Node) and x.op == "slice" and all(k is _none() for k in x.kids)

    if is_suffix(fi):
        return 0
    if isinstance(fi, Node) and fi.op == "tuple" and len(fi.kids) == 2 and is_full(fi.kids[0]) and is_suffix(fi.kids[1]):
        return 1
    return None


def _slice_atom(x, axis, hi):
    """x[:hi] / x[:, :hi] with composition of nested prefix slices and transposes"""
    if x.op == "t":
        return A("t", _slice_atom(x.kids[0], 1 - axis, hi))
    if x.op == "had" and len(x.kids[0]) == 1:
        # an elementwise power commutes with taking a prefix: (v ** e)[:k] = v[:k] ** e
        (f, e), = x.kids[0]
        return A("had", frozenset([(_slice_atom(f, axis, hi), e)]))
    if x.op == "getitem":
        inner = _prefix_slice(x.kids[1])
        if inner is not None and inner[0] == axis:
            return A("getitem", x.kids[0], _mk_slice(axis, _combine_bounds(inner[1], hi)))
        # a[:, idx][:, :k] = a[:, idx[:k]]  (fancy index on the sliced axis)
        fi = x.kids[1]
        sl0 = A("slice", _none(), hi, _none())
        if axis == 0 and isinstance(fi, Node) and fi.op not in ("slice", "tuple", "const"):
            return A("getitem", x.kids[0], A("getitem", fi, sl0))
        if axis == 1 and isinstance(fi, Node) and fi.op == "tuple" and len(fi.kids) == 2 and isinstance(fi.kids[0], Node) and fi.kids[0].op == "slice" and all(k is _none() for k in fi.kids[0].kids) and isinstance(fi.kids[1], Node) and fi.kids[1].op not in ("slice", "const"):
            return A("getitem", x.kids[0], A("tuple", fi.kids[0], A("getitem", fi.kids[1], sl0)))
    return A("getitem", x, _mk_slice(axis, hi))


_EW = {"add", "sub", "mul", "smul", "div", "sdiv", "pow", "neg", "sqrt", "abs", "exp", "log", "const", "sym", "dim"}


def _unmask(v, mask):
    """f(x[mask], y[mask], ...) -> f(x, y, ...) for elementwise f; None if not of that form"""
    memo = {}

    def rec(t):
        if not isinstance(t, Term):
            return t
        if t in memo:
            return memo[t]
        if t.op == "getitem" and isinstance(t.args[0], Term) and t.args[0].op == "store" and _canon_idx_term(t.args[0].args[1]) == mask and _canon_idx_term(t.args[1]) == mask:
            r = rec(t.args[0].args[2])
        elif t.op == "getitem" and _canon_idx_term(t.args[1]) == mask:
            r = t.args[0]
        elif t.op in ("const", "dim"):
            r = t
        elif t.op == "store" and len(t.args) == 3 and isinstance(t.args[1], Term) and t.args[1].op in ("lt", "le", "gt", "ge", "eq", "ne", "invert", "bitand", "bitor") and isinstance(t.args[2], Term) and t.args[2].op == "const":
            # an elementwise masked fill commutes with a selection of rows
            ub, uc = rec(t.args[0]), rec(t.args[1])
            r = None if (ub is None or uc is None) else Term("store", ub, uc, t.args[2])
        elif (t.op in _EW and t.op != "sym") or t.op in ("where3", "lt", "le", "gt", "ge", "eq", "ne", "invert", "bitand", "bitor"):
            parts = [rec(a) for a in t.args]
            r = None if any(p is None for p in parts) else Term(t.op, *parts)
        elif t.op == "sym":
            r = t
        elif t.op in _ROW_REDUCTIONS and len(t.args) >= 2 and any(isinstance(x, tuple) and x and x[0] == "axis" and isinstance(x[1], Term) and x[1].op == "const" and isinstance(x[1].args[0], Fraction) and (x[1].args[0] >= 1 or x[1].args[0] == -1) for x in t.args[1:]):
            # a reduction along a trailing axis commutes with a selection of rows
            inner = rec(t.args[0])
            r = None if inner is None else Term(t.op, inner, *t.args[1:])
        else:
            r = None
        memo[t] = r
        return r

    return rec(v)


def _nonempty_guard(c, idx):
    """is the condition exactly `len(idx) > 0` (in one of its spellings) for the stored index"""
    if not isinstance(c, Term):
        return False
    zero, one = Term("const", Fraction(0)), Term("const", Fraction(1))

    def is_len(z):
        return isinstance(z, Term) and z.op == "len" and len(z.args) == 1 and (z.args[0] == idx or (isinstance(idx, Term) and idx.op == "nonzero1" and z.args[0] == idx))

    if c.op == "truthy" and len(c.args) == 1:
        return is_len(c.args[0])
    if len(c.args) != 2:
        return False
    x, y = c.args
    if c.op == "gt":
        return is_len(x) and y == zero
    if c.op == "lt":
        return is_len(y) and x == zero
    if c.op == "ne":
        return (is_len(x) and y == zero) or (is_len(y) and x == zero)
    if c.op == "ge":
        return is_len(x) and y == one
    if c.op == "le":
        return is_len(y) and x == one
    return False


def _empty_guard(c, idx):
    """is the condition exactly `len(idx) == 0` (in one of its spellings) for the stored index"""
    if not isinstance(c, Term):
        return False
    zero, one = Term("const", Fraction(0)), Term("const", Fraction(1))

    def is_len(z):
        return isinstance(z, Term) and z.op in ("len", "size") and len(z.args) == 1 and z.args[0] == idx

    if len(c.args) != 2:
        return False
    x, y = c.args
    if c.op == "eq":
        return (is_len(x) and y == zero) or (is_len(y) and x == zero)
    if c.op == "lt":
        return is_len(x) and y == one
    if c.op == "le":
        return is_len(x) and y == zero
    if c.op == "gt":
        return is_len(y) and x == one
    if c.op == "ge":
        return is_len(y) and x == zero
    return False


def _polar_pairs(p):
    """U(M) @ Vt(M) of one SVD of M is the orthogonal polar factor of M"""
    if not any(len(chain) >= 2 for (s, chain), k in p):
        return p
    d = {}
    hit = False
    for (s, chain), k in p:
        out = []
        i = 0
        while i < len(chain):
            x = chain[i]
            if i + 1 < len(chain) and x.op == "svd_U" and chain[i + 1].op == "svd_Vt" and x.kids == chain[i + 1].kids:
                out.append(A("polar", x.kids[0]))
                hit = True
                i += 2
            elif i + 1 < len(chain) and x.op == "t" and x.kids[0].op == "svd_Vt" and chain[i + 1].op == "t" and chain[i + 1].kids[0].op == "svd_U" and x.kids[0].kids == chain[i + 1].kids[0].kids:
                out.append(A("t", A("polar", x.kids[0].kids[0])))
                hit = True
                i += 2
            else:
                out.append(x)
                i += 1
        m = (s, tuple(out))
        d[m] = d.get(m, 0) + k
    return _mk(d) if hit else p


def _is_inf(x):
    return isinstance(x, Node) and x.op == "const" and x.kids and x.kids[0] == "inf"


def _mk_where(c, x, y):
    """where(c, x, y) with canonical polarity and without unreachable nested branches"""
    while isinstance(c, Node) and c.op in ("invert", "not") and len(c.kids) == 1:
        c, x, y = c.kids[0], y, x
    if isinstance(x, Node) and x.op == "where3" and x.kids[0] is c:
        x = x.kids[1]
    if isinstance(y, Node) and y.op == "where3" and y.kids[0] is c:
        y = y.kids[2]
    if x is y or x == y:
        return P_atom(x) if isinstance(x, Node) else P_const(x)
    if c is EYE:
        return P_atom(A("fill_diagonal", y, x))  # where(eye, c, M): M with its diagonal set to c
    if isinstance(y, Node) and y.op == "store" and len(y.kids) == 3 and (y.kids[2] is x or y.kids[2] == x) and isinstance(x, Node) and x.op in ("sym", "dim") and not _mentions(c, y.kids[0]):
        # where(m, v, A with A[i] = v) = where(m, v, A) with [i] = v: one scalar written at the mask and at i, in either order
        inner = wrap(_mk_where(c, x, y.kids[0]))
        return P_atom(A("store", inner, y.kids[1], x))
    return P_atom(A("where3", c, x, y))


_ROW_REDUCTIONS = {"amin", "amax", "sum", "mean", "any", "all", "argmin", "argmax", "norm", "prod", "count", "nanmin", "nanmax", "lse"}


def _complement(x, y):
    """frozen masks x, y with y == not x"""
    for p, q in ((x, y), (y, x)):
        if isinstance(q, Node) and q.op in ("invert", "not") and len(q.kids) == 1 and q.kids[0] is p:
            return True
    return False


def _const_index(f):
    return isinstance(f, Fraction)


class Normalizer:
    def _scalar_pos(self, t):
        """syntactically a single integer position: a loop variable, an integer literal, an argmin/argmax, a declared scalar"""
        if not isinstance(t, Term):
            return False
        if t.op == "lv":
            return True
        if t.op == "const":
            return isinstance(t.args[0], (int, Fraction)) and not isinstance(t.args[0], bool) and Fraction(t.args[0]).denominator == 1
        if t.op in ("argmin", "argmax") and len(t.args) == 1:
            return True
        if t.op == "int" and len(t.args) == 1:
            return self._scalar_pos(t.args[0])
        if t.op == "sym":
            return t.args[0] in self.scalar_syms
        return False

    def __init__(self, symmetric=(), scalar_syms=(), rewrite=None, vector_syms=()):
        self.cache = {}
        self.symmetric = frozenset(symmetric)
        self.scalar_syms = set(scalar_syms)
        self.vector_syms = set(vector_syms)  # symbols known to be 1-D: u @ (v @ M) = (v @ M) @ u for vectors u, v
        self.rewrite = rewrite

    def nf(self, t):
        if not isinstance(t, Term):
            return P_atom(A("py", self.freeze(t)))
        r = self.cache.get(t)
        if r is None:
            r = self._nf(t)
            self.cache[t] = r
        return r

    def _merge_phi_stores(self, t):
        """phi(c, store(b, i, x), store(b, i, y)) -> store(b, i, phi(c, x, y)); t itself otherwise"""
        if isinstance(t, Term) and t.op == "phi" and len(t.args) == 3:
            c, p, q = t.args
            if isinstance(p, Term) and isinstance(q, Term) and p.op == "store" and q.op == "store" and len(p.args) == 3 and len(q.args) == 3 and self.freeze(p.args[1]) == self.freeze(q.args[1]) and self.nf(p.args[0]) == self.nf(q.args[0]):
                return Term("store", p.args[0], p.args[1], Term("phi", c, p.args[2], q.args[2]))
        return t

    def freeze(self, x):
        if isinstance(x, Term):
            if x.op == "const" and isinstance(x.args[0], Fraction):
                return x.args[0]
            return wrap(self.nf(x))
        if isinstance(x, tuple):
            return tuple(self.freeze(y) for y in x)
        if isinstance(x, Dim):
            return wrap(self.dim_poly(x))
        return x

    def scalar(self, t):
        """poly of a scalar-valued term: its atoms go to the commuting factors"""
        p = self.nf(t)
        d = {}
        for (s, chain), k in p:
            if chain:
                s = _merge_s(s, _scalar_factors(chain))
            m = (s, ())
            d[m] = d.get(m, 0) + k
        return _mk(d)

    def _nf(self, t):
        if self.rewrite is not None:
            r = self.rewrite(t, self)
            if r is not None:
                return r
        op, a = t.op, t.args
        if op == "const":
            v = a[0]
            if isinstance(v, Fraction):
                return P_const(v)
            return P_atom(A("const", v if isinstance(v, (bool, str)) or v is None else repr(v)), scalar=True)
        if op == "sym":
            if a[0] in self.scalar_syms:
                return P_atom(A("sym", a[0]), scalar=True)
            return P_atom(A("sym", a[0]))
        if op == "dim":
            return self.dim_poly(a[0])
        if op == "add":
            return p_add(self.nf(a[0]), self.nf(a[1]))
        if op == "sub":
            return p_add(self.nf(a[0]), self.nf(a[1]), -1)
        if op == "neg":
            return p_scale(self.nf(a[0]), -1)
        if op == "smul":
            return p_had(self.scalar(a[0]), self.nf(a[1]))
        if op == "sdiv":
            return p_had(self.nf(a[0]), p_pow(self.scalar(a[1]), -1))
        if op == "mul":
            for x_, y_ in ((a[0], a[1]), (a[1], a[0])):
                if isinstance(x_, Term) and x_.op == "outer" and len(x_.args) == 2:
                    # (u v^T) * A elementwise = dg(u) @ A @ dg(v)
                    return self.nf(Term("matmul", Term("dg", x_.args[0]), Term("matmul", y_, Term("dg", x_.args[1]))))
            return p_had(self.nf(a[0]), self.nf(a[1]))
        if op == "div":
            return p_had(self.nf(a[0]), p_pow(self.nf(a[1]), -1))
        if op == "matmul":
            return _polar_pairs(p_matmul(self.nf(a[0]), self.nf(a[1])))
        if op == "procrustes" and len(a) == 2:
            # orthogonal Procrustes: argmin_R |A R - B| is the orthogonal polar factor U V^T of A^T B
            return P_atom(A("polar", wrap(p_matmul(p_T(self.nf(a[0]), self.symmetric), self.nf(a[1])))))
        if op == "norm" and len(a) == 1:
            # Frobenius / Euclidean norm = sqrt(sum of squares)
            x = self.nf(a[0])
            return p_pow(self._as_scalar(self.linear_reduce("sum", (Term("nfpoly"),), inner=p_had(x, x))), Fraction(1, 2))
        if op == "pow":
            e = a[1]
            if isinstance(e, Term) and e.op == "const" and isinstance(e.args[0], Fraction):
                return p_pow(self.nf(a[0]), e.args[0])
            return P_atom(A("pow", wrap(self.nf(a[0])), wrap(self.nf(e))))
        if op == "sqrt":
            return p_pow(self.nf(a[0]), Fraction(1, 2))
        if op == "T" and len(a) == 1 and isinstance(a[0], Term) and a[0].op == "loop" and len(a[0].args) == 4:
            # a table filled row by row and transposed once at the end is the table filled column by column
            L_, it_, init_, body_ = a[0].args
            i0_ = init_
            while isinstance(i0_, Term) and i0_.op == "astype" and i0_.args and isinstance(i0_.args[0], Term):
                i0_ = i0_.args[0]
            if isinstance(i0_, Term) and i0_.op in ("zeros", "empty") and len(i0_.args) == 2 and isinstance(body_, Term) and body_.op == "store" and len(body_.args) == 3 and isinstance(body_.args[0], Term) and body_.args[0].op == "head" and body_.args[0].args[0] == L_ and body_.args[1] == Term("lv", L_):
                init2 = Term(i0_.op, i0_.args[1], i0_.args[0])
                head2 = Term("head", L_, init2, *body_.args[0].args[2:])
                full_ = Term("slice", Term("const", None), Term("const", None), Term("const", None))
                return self.nf(Term("loop", L_, it_, init2, Term("store", head2, Term("tuple", full_, Term("lv", L_)), body_.args[2])))
        if op == "T" and len(a) == 1 and isinstance(a[0], Term):
            x_ = a[0]
            # (A[rows])^T = A^T[:, rows] for a row selection (mask / index vector)
            if x_.op == "getitem" and isinstance(x_.args[1], Term) and x_.args[1].op in ("lt", "le", "gt", "ge", "invert", "bitand", "bitor", "nonzero1", "argsort", "unique", "setdiff1d", "sort") and isinstance(x_.args[0], Term):
                return self.nf(Term("getitem", Term("T", x_.args[0]), Term("tuple", Term("slice", Term("const", None), Term("const", None), Term("const", None)), x_.args[1])))
        if op in ("sum", "mean", "amin", "amax", "any", "all", "prod", "count", "average", "argmin", "argmax") and len(a) >= 2 and isinstance(a[0], Term) and a[0].op == "T" and len(a[0].args) == 1 and not any(isinstance(z_, tuple) and z_ and z_[0] == "weights" for z_ in a[1:]):
            # a reduction along an axis of A^T is the reduction along the other axis of A (matrices)
            axs_ = [z_ for z_ in a[1:] if isinstance(z_, tuple) and len(z_) == 2 and z_[0] == "axis" and isinstance(z_[1], Term) and z_[1].op == "const" and z_[1].args[0] in (0, 1)]
            if len(axs_) == 1:
                rest_ = [(("axis", Term("const", Fraction(1 - int(z_[1].args[0])))) if z_ is axs_[0] else z_) for z_ in a[1:]]
                return self.nf(Term(op, a[0].args[0], *rest_))
        if op == "stack" and len(a) >= 3 and isinstance(a[0], Term) and a[0].op == "const" and a[0].args[0] == 0 and all(isinstance(b_, Term) for b_ in a[1:]) and any(b_.op == "T" and len(b_.args) == 1 for b_ in a[1:]):
            # blocks of transposed matrices stacked by rows: the transpose of the blocks stacked by columns
            return self.nf(Term("T", Term("stack", Term("const", Fraction(1)), *[(b_.args[0] if b_.op == "T" and len(b_.args) == 1 else Term("T", b_)) for b_ in a[1:]])))
        if op == "T":
            return p_T(self.nf(a[0]), self.symmetric)
        if op in ("reshape1", "astype", "bcast"):
            return self.nf(a[0])
        if op == "norm" and len(a) == 2 and isinstance(a[1], tuple) and a[1] and a[1][0] == "axis":
            # Euclidean norm along an axis = sqrt of the sum of squares along it
            x = self.nf(a[0])
            return p_pow(self.linear_reduce("sum", (None, a[1]), inner=p_had(x, x)), Fraction(1, 2))
        if op == "zeros":
            return ZERO
        if op == "full" and isinstance(a[0], Term) and a[0].op == "const" and (a[0].args[0] is False or a[0].args[0] == 0) and a[0].args[0] is not None and not isinstance(a[0].args[0], str):
            return ZERO  # np.full(n, 0 / False) == np.zeros(n)
        if op == "eye":
            return P_atom(EYE)
        if op == "astype_dyn" and len(a) >= 1 and isinstance(a[0], Term) and (a[0].op == "zeros" or _is_zero_t(a[0])):
            return self.nf(a[0])  # zeros in whatever dtype are zeros
        if op == "dg":
            p = self.nf(a[0])
            chain, extra = _merge_dg((A("dg", p),))
            if extra is None:
                return ZERO
            ss, kk = extra
            return frozenset([((ss, chain), kk)])
        if op == "trace":
            return self.linear_reduce("trace", a, cyclic=True)
        if op in ("sum", "mean", "average"):
            return self.linear_reduce(op, a)
        if op == "full" and len(a) >= 2 and isinstance(a[0], Term) and a[0].op == "const" and (a[0].args[0] is True or (isinstance(a[0].args[0], (int, Fraction)) and not isinstance(a[0].args[0], bool) and a[0].args[0] == 1)):
            return self.nf(Term("ones", *a[1:]))  # np.full(shape, True / 1) == np.ones(shape)
        if op in ("lt", "le", "gt", "ge") and _truth_of(t) is not t:
            return self.nf(_truth_of(t))  # min(v) < c is any(v < c), max(v) > c is any(v > c)
        if op == "phi":
            c0 = a[0]
            if isinstance(c0, Term) and c0.op == "not" and len(c0.args) == 1:
                return self.nf(Term("phi", c0.args[0], a[2], a[1]))  # if not c: A else: B
            if isinstance(c0, Term) and c0.op in ("eq", "ne") and len(c0.args) == 2 and any(_is_zero_t(z) for z in c0.args) and not all(_is_zero_t(z) for z in c0.args):
                # `if n == 0` is `if not n`, `if n != 0` is `if n`, for a count n
                z_ = c0.args[1] if _is_zero_t(c0.args[0]) else c0.args[0]
                if isinstance(z_, Term) and z_.op == "count":
                    return self.nf(Term("phi", z_, a[2], a[1]) if c0.op == "eq" else Term("phi", z_, a[1], a[2]))
            # the same slot of the same array written on both arms: one store of the selected value
            mg = self._merge_phi_stores(t)
            if mg is not t:
                return self.nf(mg)
            x, y = self.nf(a[1]), self.nf(a[2])
            if x == y:
                return x
            # what both arms add is added regardless: phi(c, u + p, u + q) = u + phi(c, p, q)
            dx, dy = dict(x), dict(y)
            common = {m: k for m, k in dx.items() if dy.get(m) == k}
            if common and len(common) < max(len(dx), len(dy)):
                rx = _mk({m: k for m, k in dx.items() if m not in common})
                ry = _mk({m: k for m, k in dy.items() if m not in common})
                return p_add(_mk(common), P_atom(A("phi", self.freeze(_truth_of(a[0])), wrap(rx), wrap(ry))))
            # `if len(idx) > 0: b[idx] = v` : a store through an empty index is the identity
            # only the exact guard "the index array is non-empty" (len(idx) > 0, 0 < len(idx),
            # len(idx) != 0, len(idx) >= 1, truthiness of len) on the taken branch qualifies
            st_t, other = a[1], a[2]
            if isinstance(st_t, Term) and st_t.op == "store" and self.nf(st_t.args[0]) == self.nf(other) and _nonempty_guard(a[0], st_t.args[1]):
                return self.nf(st_t)
            # the mirrored spelling: `if len(idx) == 0: return b` before `b[idx] = v`
            st_t, other = a[2], a[1]
            if isinstance(st_t, Term) and st_t.op == "store" and self.nf(st_t.args[0]) == self.nf(other) and _empty_guard(a[0], st_t.args[1]):
                return self.nf(st_t)
            return P_atom(A("phi", self.freeze(_truth_of(a[0])), wrap(x), wrap(y)))
        if op in ("len", "size") and len(a) == 1 and isinstance(a[0], Term):
            # number of selected entries: len(flatnonzero(m)) = len(v[m]) = count(m) (v a vector, m a mask over it)
            x_ = a[0]
            if x_.op == "nonzero1" and len(x_.args) == 1:
                return self.nf(Term("count", x_.args[0]))
            if op == "len" and x_.op == "getitem" and isinstance(x_.args[1], Term) and x_.args[1].op in ("any", "all", "lt", "le", "gt", "ge", "eq", "ne", "invert", "bitand", "bitor", "isin", "isnan"):
                return self.nf(Term("count", x_.args[1]))
        if op == "nonzero1" and _setdiff_pattern(t) is not None:
            return self.nf(_setdiff_pattern(t))
        if op == "nonzero1" and len(a) == 1 and _flag_mask_positions(a[0]) is not None:
            return self.nf(_flag_mask_positions(a[0]))
        if op == "nonzero1" and len(a) == 1 and isinstance(a[0], Term):
            # the positions of an all-true vector of extent n: arange(n)
            m_ = a[0]
            while m_.op == "astype" and m_.args and isinstance(m_.args[0], Term) and m_.args[1] == "bool":
                m_ = m_.args[0]
            if (m_.op == "ones" and len(m_.args) == 1 and m_ is not a[0]) or (m_.op == "full" and len(m_.args) == 2 and isinstance(m_.args[0], Term) and m_.args[0].op == "const" and m_.args[0].args[0] is True):
                return self.nf(Term("arange", m_.args[-1]))
        if op == "lstsq" and len(a) >= 2:
            # the minimum-norm least-squares solution of A Z = B is pinv(A) @ B (same relative cut-off)
            return p_matmul(P_atom(A("pinv", self.freeze(a[0]), *[self.freeze(x) for x in a[2:]])), self.nf(a[1]))
        if op == "pinv":
            return P_atom(A("pinv", *[self.freeze(x) for x in a]))
        if op == "truthy" and len(a) == 1 and isinstance(a[0], Term) and a[0].op in ("lt", "le", "gt", "ge", "eq", "ne", "and", "or", "not", "truthy", "is", "isnot", "in", "notin", "bitand", "bitor", "invert", "any", "all"):
            return self.nf(a[0])  # bool() of something that already is a truth value
        if op == "not" and isinstance(a[0], Term) and a[0].op == "not":
            return self.nf(a[0].args[0])
        if op == "invert" and len(a) == 1 and isinstance(a[0], Term) and a[0].op in ("all", "any") and a[0].args and isinstance(a[0].args[0], Term) and a[0].args[0].op in ("eq", "ne") and len(a[0].args[0].args) == 2:
            # De Morgan over an axis: ~all(x == y) = any(x != y), ~any(x != y) = all(x == y) (exact complements, NaN included)
            in_ = a[0].args[0]
            return self.nf(Term("any" if a[0].op == "all" else "all", Term("ne" if in_.op == "eq" else "eq", *in_.args), *a[0].args[1:]))
        if op == "cumsum" and len(a) == 1 and isinstance(a[0], Term) and a[0].op == "concat" and len(a[0].args) == 2 and isinstance(a[0].args[0], Term) and a[0].args[0].op == "list" and len(a[0].args[0].args) == 1 and _is_zero_t(a[0].args[0].args[0]):
            # running sums of [0] + v: a zero followed by the running sums of v
            return self.nf(Term("stack", Term("const", Fraction(0)), a[0].args[0], Term("cumsum", a[0].args[1])))
        if op == "getitem":
            base, idx = self._merge_phi_stores(a[0]), a[1]
            # a mask built by flagging positions selects those positions, in increasing order: unique(positions)
            if _flag_mask_positions(idx) is not None:
                idx = _flag_mask_positions(idx)
            elif isinstance(idx, Term) and idx.op == "tuple" and any(_flag_mask_positions(z) is not None for z in idx.args):
                idx = Term("tuple", *[(_flag_mask_positions(z) or z) for z in idx.args])
            # x[i:i+1] selects element i and keeps a unit axis (an identity reshape)
            if isinstance(idx, Term) and idx.op == "slice1":
                idx = idx.args[0]
            elif isinstance(idx, Term) and idx.op == "tuple" and any(isinstance(z, Term) and z.op == "slice1" for z in idx.args):
                idx = Term("tuple", *[z.args[0] if isinstance(z, Term) and z.op == "slice1" else z for z in idx.args])
                full = all(isinstance(z, Term) and z.op == "slice" and all(isinstance(q, Term) and q.op == "const" and q.args[0] is None for q in z.args) for z in idx.args[1:])
                if full:
                    idx = idx.args[0]
            # rows after columns = columns after rows: A[:, c][r] = A[r][:, c] for a row selection r (index vector / mask)
            if isinstance(base, Term) and base.op == "getitem" and isinstance(base.args[1], Term) and base.args[1].op == "tuple" and len(base.args[1].args) == 2 and _term_full_slice(base.args[1].args[0]) and isinstance(idx, Term) and idx.op in ("unique", "nonzero1", "argsort", "setdiff1d", "sort", "lt", "le", "gt", "ge", "invert", "bitand", "bitor"):
                return self.nf(Term("getitem", Term("getitem", base.args[0], idx), base.args[1]))
            # arange(n)[~isin(arange(n), b)]: the values of the range not contained in b, setdiff1d(arange(n), b)
            if isinstance(base, Term) and base.op == "arange" and len(base.args) == 1 and isinstance(idx, Term) and idx.op == "invert" and isinstance(idx.args[0], Term) and idx.args[0].op == "isin" and idx.args[0].args[0] == base:
                return self.nf(Term("setdiff1d", base, idx.args[0].args[1]))
            # selections in reversed order: x[::-1][m[::-1]] = x[flatnonzero(m)[::-1]] = x[m][::-1] (same along axis 1)
            REV = Term("slice", Term("const", None), Term("const", None), Term("const", Fraction(-1)))
            def _split_ax(i_):
                if isinstance(i_, Term) and i_.op == "tuple" and len(i_.args) == 2 and _term_full_slice(i_.args[0]):
                    return 1, i_.args[1]
                return 0, i_
            def _mk_ax(ax_, i_):
                return i_ if ax_ == 0 else Term("tuple", Term("slice", Term("const", None), Term("const", None), Term("const", None)), i_)
            ax_o, io = _split_ax(idx)
            if isinstance(io, Term) and io.op == "getitem" and io.args[1] == REV and isinstance(io.args[0], Term):
                sel = io.args[0]
                if sel.op == "nonzero1":
                    return self.nf(Term("getitem", Term("getitem", base, _mk_ax(ax_o, sel.args[0])), _mk_ax(ax_o, REV)))
                if isinstance(base, Term) and base.op == "getitem" and sel.op in ("lt", "le", "gt", "ge", "eq", "ne", "bitand", "bitor", "invert"):
                    ax_i, ii = _split_ax(base.args[1])
                    if ax_i == ax_o and ii == REV:
                        return self.nf(Term("getitem", Term("getitem", base.args[0], _mk_ax(ax_o, sel)), _mk_ax(ax_o, REV)))
            idx = _canon_idx_term(idx)  # a[np.flatnonzero(m)] selects the same entries as a[m]
            # a[i][:, s] = a[i, s] for a first-axis selection i and a basic slice s
            if isinstance(base, Term) and base.op == "getitem" and isinstance(idx, Term) and idx.op == "tuple" and len(idx.args) == 2 and _term_full_slice(idx.args[0]) and isinstance(idx.args[1], Term) and idx.args[1].op == "slice":
                inner_i = base.args[1]
                if isinstance(inner_i, Term) and inner_i.op in ("unique", "nonzero1", "argsort", "list", "setdiff1d", "arange", "flatten", "ravel", "sort"):  # index vectors only: a scalar index would drop the axis
                    return self.nf(Term("getitem", base.args[0], Term("tuple", inner_i, idx.args[1])))
            # row l of A^T is column l of A
            if isinstance(base, Term) and base.op == "T" and len(base.args) == 1 and isinstance(idx, Term) and (idx.op == "lv" or (idx.op == "const" and isinstance(idx.args[0], Fraction))):
                return self.nf(Term("getitem", base.args[0], Term("tuple", Term("slice", Term("const", None), Term("const", None), Term("const", None)), idx)))
            # arange(n)[:k] = arange(k) ; arange(n)[mask] = flatnonzero(mask) ; a[arange(k)] = a[:k]
            if isinstance(base, Term) and base.op == "arange" and len(base.args) == 1 and isinstance(idx, Term):
                if idx.op == "slice" and len(idx.args) == 3 and _is_none_t(idx.args[0]) and _is_none_t(idx.args[2]) and not _is_none_t(idx.args[1]):
                    return self.nf(Term("arange", idx.args[1]))
                if idx.op in ("lt", "le", "gt", "ge", "invert", "bitand", "bitor", "eq", "ne"):
                    return self.nf(Term("nonzero1", idx))
            if _arange_bound(idx) is not None:
                return self.nf(Term("getitem", base, Term("slice", Term("const", None), _arange_bound(idx), Term("const", None))))
            if isinstance(idx, Term) and idx.op == "tuple" and len(idx.args) == 2 and _term_full_slice(idx.args[0]) and _arange_bound(idx.args[1]) is not None:
                return self.nf(Term("getitem", base, Term("tuple", idx.args[0], Term("slice", Term("const", None), _arange_bound(idx.args[1]), Term("const", None)))))
            # selecting entries of an elementwise power: (x**k)[sel] = (x[sel])**k
            if isinstance(base, Term) and base.op == "pow" and len(base.args) == 2 and isinstance(base.args[1], Term) and base.args[1].op == "const" and isinstance(base.args[0], Term) and isinstance(idx, Term) and idx.op in ("lt", "le", "gt", "ge", "nonzero1", "invert", "bitand", "bitor"):
                return self.nf(Term("pow", Term("getitem", base.args[0], idx), base.args[1]))
            # [e(j) for j in range(n)][k] = e(k) for a position k counted by a loop
            if isinstance(base, Term) and base.op == "comp" and len(base.args) == 3 and isinstance(base.args[1], Term) and base.args[1].op == "range" and len(base.args[1].args) == 2 and (_is_zero_t(base.args[1].args[0]) or repr(base.args[1].args[0]) in ("0", "dim(0)")) and isinstance(idx, Term) and idx.op == "lv" and isinstance(base.args[2], Term):
                from .interp import subst_term as _subst

                return self.nf(_subst(base.args[2], {Term("lv", base.args[0]): idx}))
            if isinstance(base, Term) and base.op == "comp" and len(base.args) == 3 and isinstance(base.args[1], Term) and base.args[1].op == "range" and len(base.args[1].args) == 2 and (_is_zero_t(base.args[1].args[0]) or repr(base.args[1].args[0]) in ("0", "dim(0)")) and isinstance(idx, Term) and idx.op == "tuple" and len(idx.args) >= 2 and isinstance(idx.args[0], Term) and idx.args[0].op == "lv" and isinstance(base.args[2], Term):
                # [e(j) for j in range(n)][k, rest] = e(k)[rest]
                from .interp import subst_term as _subst

                rest_ = idx.args[1] if len(idx.args) == 2 else Term("tuple", *idx.args[1:])
                return self.nf(Term("getitem", _subst(base.args[2], {Term("lv", base.args[0]): idx.args[0]}), rest_))
            # a[lo:hi][k] = a[lo + k] for a position k >= 0 counted by a loop (wherever defined)
            if isinstance(base, Term) and base.op == "getitem" and isinstance(base.args[1], Term) and base.args[1].op == "slice" and len(base.args[1].args) == 3 and _is_none_t(base.args[1].args[2]) and isinstance(idx, Term) and idx.op == "lv":
                lo_ = base.args[1].args[0]
                if _is_none_t(lo_) or _is_zero_t(lo_):
                    return self.nf(Term("getitem", base.args[0], idx))
                if isinstance(lo_, Term) and lo_.op == "const" and isinstance(lo_.args[0], (int, Fraction)) and not isinstance(lo_.args[0], bool) and lo_.args[0] > 0:
                    return self.nf(Term("getitem", base.args[0], Term("add", idx, lo_)))
            # a[i][j] = a[i, j] for two scalar positions
            if isinstance(base, Term) and base.op == "getitem" and self._scalar_pos(base.args[1]) and self._scalar_pos(idx):
                return self.nf(Term("getitem", base.args[0], Term("tuple", base.args[1], idx)))
            # a[:h][j] = a[j] and a[:, :h][:, j] = a[:, j] for a fixed element j >= 0 (wherever defined)
            while isinstance(base, Term) and base.op == "getitem":
                ax = _term_prefix_axis(base.args[1])
                if ax is None:
                    break
                its = idx.args if isinstance(idx, Term) and idx.op == "tuple" else (idx,)
                if len(its) > ax and _nonneg_const(its[ax]) and all(_term_full_slice(z) for z in its[:ax]):
                    base = base.args[0]
                    continue
                break
            fi = self.freeze(idx)
            fz = fi
            while isinstance(fz, Node) and fz.op in ("int",) and len(fz.kids) == 1:
                fz = fz.kids[0]
            if isinstance(fz, Node) and fz.op in ("argmin", "argmax") and len(fz.kids) == 1 and fz.kids[0] is wrap(self.nf(base)):
                # x[argmin(x)] is min(x)
                return self.nf(Term("amin" if fz.op == "argmin" else "amax", base))
            b = base
            while isinstance(b, Term) and b.op == "store":
                fj = self.freeze(b.args[1])
                if fj == fi:
                    return self.nf(b.args[2])
                if _const_index(fi) and _const_index(fj):
                    b = b.args[0]
                    continue
                break
            pb = self.nf(b)
            ax = _prefix_slice(fi)
            if ax is not None and pb:
                return self._slice_poly(pb, ax[0], ax[1], fi)
            sx = _suffix_slice(fi)
            if sx is not None and pb:
                r = self._suffix_poly(pb, sx, fi)
                if r is not None:
                    return r
            return P_atom(A("getitem", wrap(pb), fi))
        if op == "store" and len(a) == 3 and isinstance(a[1], Term) and a[1].op == "diagidx" and isinstance(a[2], Term) and a[2].op == "const":
            return self.nf(Term("fill_diagonal", a[0], a[2]))  # a[np.diag_indices_from(a)] = c
        if op == "store" and _column_fill(t) is not None:
            return self.nf(_column_fill(t))  # a table filled column by column, every column once: the columns side by side
        if op == "stack" and len(a) >= 2 and isinstance(a[0], Term) and a[0].op == "const" and a[0].args[0] == 1 and any(isinstance(b_, Term) and ((b_.op == "stack" and len(b_.args) >= 2 and b_.args[0] == a[0]) or _listed_columns(b_) is not None) for b_ in a[1:]):
            # nested column blocks / a block of listed columns A[:, [c0, c1]]: flattened to single blocks
            flat_ = []
            for b_ in a[1:]:
                if isinstance(b_, Term) and b_.op == "stack" and len(b_.args) >= 2 and b_.args[0] == a[0]:
                    flat_.extend(b_.args[1:])
                elif _listed_columns(b_) is not None:
                    flat_.extend(_listed_columns(b_))
                else:
                    flat_.append(b_)
            return self.nf(Term("stack", a[0], *flat_))
        if op == "store":
            base, idx, val = a
            if _term_full_slice(idx) and isinstance(val, Term) and val.op in ("where3", "emin", "emax") and base in val.args:
                # b[:] = where(c, x, b) / minimum(b, x): an elementwise update of b itself has b's shape, so every
                # entry is overwritten and the result is that value
                return self.nf(val)
            # a region written twice keeps the second value: (A with [i] = v1) with [i] = v2  is  A with [i] = v2
            while isinstance(base, Term) and base.op == "store" and len(base.args) == 3 and base.args[1] == idx:
                base = base.args[0]
            # b[:k] = [e0, ..., e_{k-1}]  is  b[0] = e0; ...; b[k-1] = e_{k-1}
            if isinstance(idx, Term) and idx.op == "slice" and _is_none_t(idx.args[0]) and _is_none_t(idx.args[2]) and isinstance(idx.args[1], Term) and idx.args[1].op == "const" and isinstance(val, Term) and val.op == "list" and isinstance(idx.args[1].args[0], (int, Fraction)) and not isinstance(idx.args[1].args[0], bool) and idx.args[1].args[0] == len(val.args) and 0 < len(val.args) <= 8:
                t2 = base
                for k_, e_ in enumerate(val.args):
                    t2 = Term("store", t2, Term("const", Fraction(k_)), e_)
                return self.nf(t2)
            # an index array obtained from a mask selects the same entries as the mask
            idx = _canon_idx_term(idx)
            # Z = 0; Z[:, m] = A[:, m] @ dg(u[m])   is   A @ dg(where(m, u, 0))   (column selection)
            if isinstance(idx, Term) and idx.op == "tuple" and len(idx.args) == 2 and _term_full_slice(idx.args[0]) and isinstance(val, Term) and val.op == "matmul" and not self.nf(base):
                m_t = idx.args[1]
                lhs, rhs = val.args
                if isinstance(lhs, Term) and lhs.op == "getitem" and lhs.args[1] == idx and isinstance(rhs, Term) and rhs.op == "dg":
                    u0 = _unmask(rhs.args[0], m_t)
                    if u0 is not None:
                        return self.nf(Term("matmul", lhs.args[0], Term("dg", Term("where3", m_t, u0, Term("const", Fraction(0))))))
            fi = self.freeze(idx)
            if isinstance(base, Term) and base.op == "store" and self.freeze(base.args[1]) == fi:
                base = base.args[0]
            if isinstance(idx, Term) and idx.op in ("lt", "le", "gt", "ge", "eq", "ne", "not", "and", "or", "bitand", "bitor", "invert", "isnan"):
                # b[mask] = f(x[mask])  is the elementwise selection where(mask, f(x), b)
                v2 = _unmask(val, idx)
                if v2 is not None:
                    return self.nf(Term("where3", idx, v2, base))
            return P_atom(A("store", wrap(self.nf(base)), fi, wrap(self.nf(val))))
        if op == "where3" and len(a) == 3 and isinstance(a[0], Term) and a[0].op == "store" and len(a[0].args) == 3:
            # where(m, x, c) with the mask m = (all True, then m[idx] = False): x with x[idx] = c
            mb, midx, mval = a[0].args
            def _allconst(b_, flag):
                return isinstance(b_, Term) and ((b_.op == "ones" and flag) or (b_.op == "zeros" and not flag) or (b_.op == "full" and isinstance(b_.args[0], Term) and b_.args[0].op == "const" and b_.args[0].args[0] is flag) or (b_.op == "astype" and _allconst(b_.args[0], flag)))
            def _is(v_, flag):
                return isinstance(v_, Term) and v_.op == "const" and (v_.args[0] is flag or (not isinstance(v_.args[0], (str, type(None))) and v_.args[0] == (1 if flag else 0)))
            if _allconst(mb, True) and _is(mval, False) and isinstance(a[2], Term) and a[2].op == "const":
                return self.nf(Term("store", a[1], midx, a[2]))
            if _allconst(mb, False) and _is(mval, True) and isinstance(a[1], Term) and a[1].op == "const":
                return self.nf(Term("store", a[2], midx, a[1]))
        if op in ("svd_flip_u", "svd_flip_v") and len(a) == 2 and all(isinstance(x, Term) and x.op == "getitem" for x in a):
            # the sign convention is fixed per component: it commutes with re-ordering the components of
            # both factors in the same way (columns of U, rows of Vt)
            (ub, ui), (vb, vi) = a[0].args, a[1].args
            if isinstance(ui, Term) and ui.op == "tuple" and len(ui.args) == 2 and _term_full_slice(ui.args[0]) and ui.args[1] == vi and isinstance(vi, Term) and vi.op == "slice" and (vi == Term("slice", Term("const", None), Term("const", None), Term("const", Fraction(-1))) or (_is_none_t(vi.args[0]) and _is_none_t(vi.args[2]))):
                # (also with the leading k components kept: each component's sign is decided from its own column)
                inner = Term(op, ub, vb)
                return self.nf(Term("getitem", inner, ui if op == "svd_flip_u" else vi))
        if op == "diagof" and len(a) == 1:
            # the diagonal is linear; of a product of two matrices it is a sum of elementwise products:
            # diag(P @ Q)_i = sum_j P_ij Q_ji ,  diag(A^T @ B)_j = sum_i A_ij B_ij
            out = ZERO
            for (s, chain), k in self.nf(a[0]):
                coef = frozenset([((s, ()), k)])
                if len(chain) == 2 and not any(x.op in ("dg", "eye", "zeros") for x in chain):
                    A_, B_ = chain
                    if A_.op == "t":
                        pa, pb, ax = P_atom(A_.kids[0]), P_atom(B_), 0
                    else:
                        pa, pb, ax = P_atom(A_), P_atom(t_atom(B_, self.symmetric)), 1
                    term = self.linear_reduce("sum", (None, ("axis", Term("const", Fraction(ax)))), inner=p_had(pa, pb))
                elif len(chain) == 3 and chain[1].op == "dg" and not any(x.op in ("dg", "eye", "zeros") for x in (chain[0], chain[2])) and chain[0].op != "t":
                    # diag(P @ dg(w) @ Q)_i = sum_j P_ij w_j Q_ji : the row sums of P * w * Q^T
                    A_, D_, B_ = chain
                    inner_ = p_had(p_had(P_atom(A_), D_.kids[0]), P_atom(t_atom(B_, self.symmetric)))
                    term = self.linear_reduce("sum", (None, ("axis", Term("const", Fraction(1)))), inner=inner_)
                else:
                    term = P_atom(A("diagof", chain_atom(chain) if chain else A("one")))
                out = p_add(out, p_had(coef, term))
            return out
        if op == "lse" and len(a) == 1 and isinstance(a[0], Term) and a[0].op == "stack" and len(a[0].args) >= 3 and isinstance(a[0].args[0], Term) and a[0].args[0].op == "const" and a[0].args[0].args[0] == 0:
            # log-sum-exp over joined pieces does not depend on their order (nor on their shapes)
            def flat(p_):
                while isinstance(p_, Term) and p_.op in ("reshape", "reshape1", "ravel", "flatten") and p_.args:
                    p_ = p_.args[0]
                return p_
            parts = sorted((self.freeze(flat(p_)) for p_ in a[0].args[1:]), key=lambda n_: show_any(n_))
            return P_atom(A("lse", A("joined", *parts)), scalar=True)
        if op == "sorted" and len(a) == 1:
            return self.nf(Term("sort", a[0]))  # the sorted values (as a list or as an array)
        if op == "where3" and len(a) == 3 and isinstance(a[0], Term) and a[0].op in ("lt", "le", "gt", "ge") and len(a[0].args) == 2 and {a[1], a[2]} == set(a[0].args) and a[1] != a[2]:
            # where(p < q, p, q) is the elementwise minimum (where(p < q, q, p) the maximum)
            p_, q_ = a[0].args
            smaller_first = a[0].op in ("lt", "le")
            picks_first = a[1] == p_
            name_ = "emin" if smaller_first == picks_first else "emax"
            return self.nf(Term(name_, *sorted([p_, q_], key=repr)))
        if op == "where3" and len(a) == 3:
            # inside the branch taken where c holds, a nested where(c, p, q) is p (and q in the other branch)
            c_ = a[0]
            def _prune(t_, keep):
                if not isinstance(t_, Term):
                    return t_
                if t_.op == "where3" and len(t_.args) == 3 and t_.args[0] == c_:
                    return _prune(t_.args[1 if keep else 2], keep)
                if t_.op not in ("add", "sub", "mul", "div", "pow", "neg", "sqrt", "abs", "exp", "log", "smul", "sdiv", "round", "where3", "astype", "cast", "lt", "le", "gt", "ge", "eq", "ne", "bitand", "bitor", "invert", "minimum", "maximum"):
                    return t_  # only elementwise operations carry the condition entry by entry
                new_args = tuple(_prune(x_, keep) if isinstance(x_, Term) else x_ for x_ in t_.args)
                return t_ if all(n_ is o_ for n_, o_ in zip(new_args, t_.args)) else Term(t_.op, *new_args)
            a1_, a2_ = _prune(a[1], True), _prune(a[2], False)
            if isinstance(a2_, Term) and a2_.op == "store" and len(a2_.args) == 3 and a2_.args[2] == a1_ and isinstance(a1_, Term) and a1_.op in ("sym", "const", "dim") and not _mentions_term(a[0], a2_.args[0]):
                # where(m, v, A with A[i] = v) = (where(m, v, A)) with [i] = v : the same scalar written at the mask and at i
                return self.nf(Term("store", Term("where3", a[0], a1_, a2_.args[0]), a2_.args[1], a1_))
            return _mk_where(self.freeze(a[0]), self.freeze(a1_), self.freeze(a2_))
        if op == "comp" and len(a) >= 3 and isinstance(a[2], Term):
            # [k * e(x) for x in xs] = k * [e(x) for x in xs] for a factor k that does not vary with x
            pe = self.nf(a[2])
            lvn = self.freeze(Term("lv", a[0]))
            # k + e(x): a scalar addend that does not vary with x is added to every element (broadcast)
            outside = ZERO
            if len(a) == 3 and len(pe) > 1:
                inv_m = {m: k for m, k in pe if not _mentions(m[0], lvn) and not _mentions(m[1], lvn)}
                var_m = {m: k for m, k in pe if m not in inv_m}
                if inv_m and var_m:
                    outside = _mk(inv_m)
                    pe = _mk(var_m)
            fac, rest = _split_content(pe, lambda n: not _mentions(n, lvn))
            node = A("comp", a[0], self.freeze(a[1]), wrap(rest), *[self.freeze(x) for x in a[3:]])
            return p_add(outside, p_had(fac, P_atom(node)))
        if op == "stack" and len(a) == 2 and isinstance(a[1], Term) and a[1].op == "argwhere" and len(a[1].args) == 2 and a[1].args[1] == ("rank", Term("const", Fraction(1))) and isinstance(a[0], Term) and a[0].op == "const" and a[0].args[0] == 0:
            # np.concatenate(np.argwhere(m)) lists the indices of a 1-D mask: np.flatnonzero(m)
            return self.nf(Term("nonzero1", a[1].args[0]))
        if op == "stack" and len(a) == 3 and isinstance(a[0], Term) and a[0].op == "const" and a[0].args[0] == 1 and isinstance(a[1], Term) and isinstance(a[2], Term):
            # [x + C @ M[:, :k],  y + C @ M[:, k:]] = [x, y] + C @ M : a product split by columns at the block boundary
            p1, p2 = self.nf(a[1]), self.nf(a[2])
            d1, d2, out = dict(p1), dict(p2), {}
            for (s, chain), c in p1:
                if not chain or chain[-1].op != "getitem":
                    continue
                pre = _prefix_slice(chain[-1].kids[1])
                if pre is None or pre[0] != 1:
                    continue
                M = chain[-1].kids[0]
                rest = A("getitem", M, A("tuple", A("slice", _none(), _none(), _none()), A("slice", pre[1], _none(), _none())))
                m2 = (s, chain[:-1] + (rest,))
                if d2.get(m2) == c and d1.get((s, chain)) == c:
                    del d1[(s, chain)], d2[m2]
                    out[(s, chain[:-1] + (M,))] = out.get((s, chain[:-1] + (M,)), 0) + c
            if out:
                inner = P_atom(A("stack", self.freeze(a[0]), wrap(_mk(d1)), wrap(_mk(d2))))
                if not d1 and not d2:
                    inner = ZERO
                return p_add(inner, _mk(out))
        if op == "stack" and len(a) == 2 and isinstance(a[1], Term):
            pl = self.nf(a[1])
            if len(pl) == 1:
                ((s, chain), k), = pl
                if len(chain) == 1 and (s or k != 1):
                    return frozenset([((s, (A("stack", self.freeze(a[0]), chain[0]),)), k)])
        if op in ("unique",) and len(a) == 1 and isinstance(a[0], Term) and a[0].op in ("reshape", "ravel", "flatten") :
            return self.nf(Term(op, a[0].args[0]))  # np.unique flattens its input
        if op == "unk":
            return P_atom(A("unk", a[0], a[1]))
        if op == "count" and len(a) == 1 and isinstance(a[0], Term) and a[0].op in ("gt", "lt", "ge", "le") and len(a[0].args) == 2:
            # singular values are sorted in decreasing order:  #{ s[:n] > c } = min(n, #{ s > c })
            c = a[0]
            big, small = (c.args[0], c.args[1]) if c.op in ("gt", "ge") else (c.args[1], c.args[0])
            if isinstance(big, Term) and big.op == "getitem" and isinstance(big.args[0], Term) and big.args[0].op in ("svd_S", "svds_S", "rsvd_S") and isinstance(big.args[1], Term) and big.args[1].op == "slice":
                lo, hi, step = big.args[1].args
                if lo.op == "const" and lo.args[0] in (None, 0) and step.op == "const" and step.args[0] in (None, 1) and not (hi.op == "const" and hi.args[0] is None):
                    inner = Term("count", Term(c.op if c.op in ("gt", "ge") else c.op, *( (big.args[0], small) if c.op in ("gt", "ge") else (small, big.args[0]) )))
                    return self.nf(Term("min", hi, inner))
        if op in ("gt", "ge") and len(a) == 2:
            # a > b  ==  b < a
            return self.nf(Term("lt" if op == "gt" else "le", a[1], a[0]))
        if op == "lt" and len(a) == 2:
            x, y = self.freeze(a[0]), self.freeze(a[1])
            # min(where(m, v, inf)) < inf  ==  any(m)   when m itself bounds v (a conjunct v < c), so v is finite on m
            if _is_inf(y) and isinstance(x, Node) and x.op == "amin" and len(x.kids) == 1 and isinstance(x.kids[0], Node) and x.kids[0].op == "where3" and _is_inf(x.kids[0].kids[2]):
                m, v = x.kids[0].kids[0], x.kids[0].kids[1]
                conj = m.kids if isinstance(m, Node) and m.op == "bitand" else (m,)
                if any(isinstance(c_, Node) and c_.op == "lt" and c_.kids[0] is v and not _is_inf(c_.kids[1]) for c_ in conj):
                    return P_atom(A("any", m))
            return P_atom(A("lt", x, y))
        if op in ("eq", "ne") and len(a) == 2:
            x, y = self.freeze(a[0]), self.freeze(a[1])
            if id(x) > id(y) if (isinstance(x, Node) and isinstance(y, Node)) else repr(x) > repr(y):
                x, y = y, x
            return P_atom(A(op, x, y))
        if op in ("floor", "ceil") and len(a) == 1:
            # floor(x + 1/2) and ceil(x - 1/2) are the nearest-integer map (up to ties)
            p = self.nf(a[0])
            half = Fraction(1, 2) if op == "floor" else Fraction(-1, 2)
            d = dict(p)
            if d.get((EMPTY_S, ()), 0) == half:
                del d[(EMPTY_S, ())]
                return P_atom(A("round", wrap(_mk(d))))
        if op in ("bitand", "bitor"):
            kids = []
            for x in a:
                fx = self.freeze(x)
                if isinstance(fx, Node) and fx.op == op:
                    kids.extend(fx.kids)
                else:
                    kids.append(fx)
            # zeros (all-False) is neutral for |
            if op == "bitor":
                kids = [k_ for k_ in kids if not (isinstance(k_, Fraction) and k_ == 0)] or kids[:1]
            uniq = []
            for k_ in kids:
                if not any(k_ is u or k_ == u for u in uniq):
                    uniq.append(k_)
            uniq.sort(key=lambda z: id(z) if isinstance(z, Node) else hash(z))
            if len(uniq) == 1:
                return P_atom(uniq[0]) if isinstance(uniq[0], Node) else P_const(uniq[0])
            return P_atom(A(op, *uniq))
        if op == "getitem" and isinstance(a[1], Term) and a[1].op in ("argmin", "argmax") and len(a[1].args) == 1 and a[1].args[0] == a[0]:
            # x[argmin(x)] is min(x)
            return self.nf(Term("amin" if a[1].op == "argmin" else "amax", a[0]))
        if op in ("amax", "amin") and len(a) == 1 and isinstance(a[0], Term) and a[0].op in ("svd_S", "rsvd_S"):
            # singular values come sorted in decreasing order: the largest is the first one
            return self.nf(Term("getitem", a[0], Term("const", Fraction(0 if op == "amax" else -1))))
        if op == "min" and len(a) >= 2 and all(isinstance(x, Term) and x.op == "count" and len(x.args) == 1 and isinstance(x.args[0], Term) and x.args[0].op in ("lt", "gt") and len(x.args[0].args) == 2 for x in a):
            # the number of entries above each of several thresholds, the smallest of these counts: the number of
            # entries above the largest threshold (the sets are nested)
            pairs = [(x.args[0].args[0], x.args[0].args[1]) if x.args[0].op == "lt" else (x.args[0].args[1], x.args[0].args[0]) for x in a]
            if len({p_[1] for p_ in pairs}) == 1:
                thr = sorted({p_[0] for p_ in pairs}, key=repr)
                big = thr[0] if len(thr) == 1 else Term("max", *thr)
                return self.nf(Term("count", Term("lt", big, pairs[0][1])))
        if op in ("min", "max"):
            kids = []
            for x in a:
                fx = self.freeze(x)
                if isinstance(fx, Node) and fx.op == op:
                    kids.extend(fx.kids)
                else:
                    kids.append(fx)
            kids = sorted(set(kids), key=id)
            if len(kids) == 1 and isinstance(kids[0], Node):
                return P_atom(kids[0], scalar=True)
            return P_atom(A(op, *kids), scalar=True)
        return P_atom(A(op, *[self.freeze(x) for x in a]))

    def dim_poly(self, d):
        """scalar polynomial of a symbolic integer (linear form over size atoms)"""
        out = P_const(d.c)
        for atom, k in d.lin:
            out = p_add(out, p_scale(self.dim_atom(atom), k))
        return out

    def dim_atom(self, atom):
        if isinstance(atom, str):
            return P_atom(A("size", atom), scalar=True)
        tag = atom[0]
        if tag == "t":
            return self.scalar(atom[1])
        if tag == "min":
            # min(#{s > a}, #{s > b}) = #{s > max(a, b)} (nested sets)
            cts = []
            for x in atom[1:]:
                lin = list(getattr(x, "lin", ()))
                if getattr(x, "c", None) == 0 and len(lin) == 1 and lin[0][1] == 1 and isinstance(lin[0][0], tuple) and lin[0][0][0] == "t" and isinstance(lin[0][0][1], Term) and lin[0][0][1].op == "count":
                    cts.append(lin[0][0][1])
            if len(cts) == len(atom) - 1 and len(cts) >= 2:
                r_ = self.nf(Term("min", *cts))
                a1_ = single_atom(r_)
                if a1_ is not None and a1_.op == "count":
                    return r_
        if tag in ("min", "max"):
            kids = sorted((wrap(self.dim_poly(x)) for x in atom[1:]), key=id)
            # flatten nested min/max of the same kind
            flat = []
            for kx in kids:
                if isinstance(kx, Node) and kx.op == tag:
                    flat.extend(kx.kids)
                else:
                    flat.append(kx)
            flat = sorted(set(flat), key=id)
            if len(flat) == 1:
                return P_atom(flat[0], scalar=True) if isinstance(flat[0], Node) else P_const(flat[0])
            return P_atom(A(tag, *flat), scalar=True)
        if tag == "mul":
            return p_had(self.dim_poly(atom[1]), self.dim_poly(atom[2]))
        if tag == "fdiv":
            return P_atom(A("fdiv", wrap(self.dim_poly(atom[1])), wrap(self.dim_poly(atom[2]))), scalar=True)
        return P_atom(A("size", repr(atom)), scalar=True)

    def _as_scalar(self, p):
        d = {}
        for (s, chain), k in p:
            if chain:
                s = _merge_s(s, _scalar_factors(chain))
            d[(s, ())] = d.get((s, ()), 0) + k
        return _mk(d)

    def _suffix_poly(self, p, axis, fi):
        """suffix slice [lo:] on axis 0 / 1 distributed over sums and pushed into the first / last
        factor of matmul chains (rows of the first factor, columns of the last); None if a
        factor is not a plain matrix atom"""
        d = {}
        for (s, chain), k in p:
            if not chain:
                return None
            pos = 0 if axis == 0 else len(chain) - 1
            x = chain[pos]
            if x.op in ("dg", "t", "had", "eye"):
                return None
            m = (s, chain[:pos] + (A("getitem", x, fi),) + chain[pos + 1:])
            d[m] = d.get(m, 0) + k
        return _mk(d)

    def _slice_poly(self, p, axis, hi, fi):
        """prefix slice [:hi] on axis 0 (rows of the first factor) or axis 1 (columns of
        the last factor) distributed over sums and pushed into matmul chains"""
        d = {}
        for (s, chain), k in p:
            if not chain:
                atom = A("getitem", A("poly", frozenset([((s, chain), k)])), fi)
                m = (EMPTY_S, (atom,))
                d[m] = d.get(m, 0) + 1
                continue
            pos = 0 if axis == 0 else len(chain) - 1
            x = chain[pos]
            if axis == 1 and x.op == "dg":
                # columns of A @ dg(v): slice both
                newx = A("dg", self._slice_poly(x.kids[0], 0, hi, _mk_slice(0, hi)))
                if len(chain) >= 2:
                    prev = _slice_atom(chain[pos - 1], 1, hi)
                    newchain = chain[: pos - 1] + (prev, newx)
                else:
                    newchain = (newx,)
            elif axis == 0 and x.op == "dg":
                newx = A("dg", self._slice_poly(x.kids[0], 0, hi, _mk_slice(0, hi)))
                if len(chain) >= 2:
                    nxt = _slice_atom(chain[1], 0, hi)
                    newchain = (newx, nxt) + chain[2:]
                else:
                    newchain = (newx,)
            else:
                newx = _slice_atom(x, axis, hi)
                newchain = chain[:pos] + (newx,) + chain[pos + 1:]
            m = (s, newchain)
            d[m] = d.get(m, 0) + k
        return _mk(d)

    def linear_reduce(self, op, a, cyclic=False, inner=None):
        if inner is None:
            inner = self.nf(a[0])
        if op in ("sum", "mean", "average") and len(a) >= 2 and not any(isinstance(z_, tuple) and z_ and z_[0] == "weights" for z_ in a[1:]):
            # the same reduction written on the transposed table (along the other axis): the spelling with fewer transposes
            axs_ = [z_ for z_ in a[1:] if isinstance(z_, tuple) and len(z_) == 2 and z_[0] == "axis" and isinstance(z_[1], Term) and z_[1].op == "const" and z_[1].args[0] in (0, 1)]
            if len(axs_) == 1:
                alt_ = p_T(inner, self.symmetric)
                if show_any(wrap(alt_)).count("ᵀ") < show_any(wrap(inner)).count("ᵀ"):
                    inner = alt_
                    a = (a[0],) + tuple((("axis", Term("const", Fraction(1 - int(z_[1].args[0])))) if z_ is axs_[0] else z_) for z_ in a[1:])
        rest = tuple(self.freeze(x) for x in a[1:])
        if op == "average":
            w = [r for r in rest if isinstance(r, tuple) and r and r[0] == "weights"]
            ax = [r for r in rest if isinstance(r, tuple) and r and r[0] == "axis"]
            others = [r for r in rest if r not in w and r not in ax]
            if w and not others:
                # weighted average along the leading (axis 0 / 1-D) or trailing (axis 1) axis:
                # (w @ A) / sum(w)   resp.   (A @ w) / sum(w)
                wt = [x for x in a[1:] if isinstance(x, tuple) and x and x[0] == "weights"][0][1]
                pw = self.nf(wt)
                sw = self.linear_reduce("sum", (wt,))
                axis = ax[0][1] if ax else Fraction(0)
                if axis == Fraction(0):
                    prod = p_matmul(pw, inner)
                    if self.vector_syms:
                        # u @ (v @ M ...) for two vectors u, v is the scalar (v @ M ...) @ u: one canonical order
                        def isvec(n_):
                            return isinstance(n_, Node) and n_.op == "sym" and n_.kids and n_.kids[0] in self.vector_syms
                        prod = _mk({(s_, (ch_[1:] + ch_[:1]) if (len(ch_) >= 3 and isvec(ch_[0]) and isvec(ch_[1])) else ch_): k_ for (s_, ch_), k_ in prod})
                    return p_had(prod, p_pow(self._as_scalar(sw), -1))
                if axis == Fraction(1):
                    return p_had(p_matmul(inner, pw), p_pow(self._as_scalar(sw), -1))
        has_w = any(isinstance(r, tuple) and r and r[0] == "weights" for r in rest)
        if op == "average" and not has_w:
            op = "mean"
        nn = [x for x in a[1:] if isinstance(x, tuple) and x and x[0] == "n"]
        if nn:
            rest = tuple(r for r in rest if not (isinstance(r, tuple) and r and r[0] == "n"))
            if op == "mean":
                # mean = sum / extent
                return p_had(self.linear_reduce("sum", (None,) + tuple(x for x in a[1:] if x not in nn), cyclic, inner), p_pow(self.scalar(nn[0][1]), -1))
        has_axis = any(isinstance(r, tuple) and r and r[0] == "axis" for r in rest)
        out = ZERO
        for (s, chain), k in inner:
            if cyclic and len(chain) > 1:
                rots = [chain[i:] + chain[:i] for i in range(len(chain))]
                tchain = tuple(t_atom(x, self.symmetric) for x in reversed(chain))
                rots += [tchain[i:] + tchain[:i] for i in range(len(tchain))]
                chain = min(rots, key=lambda c: tuple(id(x) for x in c))
            if op == "sum" and not has_axis and not rest and len(chain) == 1 and chain[0].op == "sum" and all(isinstance(r, tuple) and r and r[0] == "axis" for r in chain[0].kids[1:]):
                chain = (chain[0].kids[0],)  # the total of partial sums is the total
            if op == "sum" and not has_axis and not rest and len(chain) == 1 and chain[0].op == "diagof" and len(chain[0].kids) == 1:
                # the sum of the diagonal is the trace
                inner_atom = chain[0].kids[0]
                ip = frozenset([((EMPTY_S, tuple(inner_atom.kids) if inner_atom.op == "chain" else (inner_atom,)), ONE)]) if inner_atom.op != "poly" else inner_atom.kids[0]
                out = p_add(out, self.linear_reduce("trace", (None,), cyclic=True, inner=p_had(frozenset([((s, ()), k)]), ip)))
                continue
            if op == "sum" and not has_axis and not rest and len(chain) == 1 and chain[0].op == "had":
                # sum_ij P_ij Q_ij = trace(P Q^T)  (and sum of squares = trace(P P^T)): one canonical form
                fs = list(chain[0].kids[0])
                pq = None
                if len(fs) == 2 and all(e == 1 for _, e in fs):
                    pq = (fs[0][0], fs[1][0])
                elif len(fs) == 1 and fs[0][1] == 2:
                    pq = (fs[0][0], fs[0][0])
                if pq is not None:
                    def as_poly(atom):
                        if atom.op == "chain":
                            return frozenset([((EMPTY_S, tuple(atom.kids)), ONE)])
                        if atom.op == "poly":
                            return atom.kids[0]
                        return frozenset([((EMPTY_S, (atom,)), ONE)])

                    prod = p_matmul(as_poly(pq[0]), p_T(as_poly(pq[1]), self.symmetric))
                    inner2 = p_had(frozenset([((s, ()), k)]), prod)
                    out = p_add(out, self.linear_reduce("trace", (None,), cyclic=True, inner=inner2))
                    continue
            if op == "sum" and has_axis and len(rest) == 1 and len(chain) == 1 and chain[0].op == "sum" and len(chain[0].kids) == 2 and chain[0].kids[1] == ("axis", Fraction(0)) and rest[0] == ("axis", Fraction(1)):
                # a vector of column sums can only meet a sum along axis 1 as a row broadcast over a matrix
                # (the normal form does not keep the broadcast): every row then sums to the grand total
                total = A("sum", chain[0].kids[0])
                out = p_add(out, frozenset([((_merge_s(s, frozenset([(total, ONE)])), ()), k)]))
                continue
            if op == "sum" and has_axis and len(rest) == 1 and len(chain) >= 2:
                # column sums of dg(w) @ R are w @ R ; row sums of R @ dg(w) are R @ w
                ax_ = rest[0][1] if isinstance(rest[0], tuple) and rest[0][0] == "axis" else None
                if ax_ == Fraction(0) and chain[0].op == "dg":
                    out = p_add(out, p_had(frozenset([((s, ()), k)]), p_matmul(chain[0].kids[0], frozenset([((EMPTY_S, chain[1:]), ONE)]))))
                    continue
                if ax_ == Fraction(1) and chain[-1].op == "dg":
                    out = p_add(out, p_had(frozenset([((s, ()), k)]), p_matmul(frozenset([((EMPTY_S, chain[:-1]), ONE)]), chain[-1].kids[0])))
                    continue
            atom = A(op, chain_atom(chain) if chain else A("one"), *rest)
            if cyclic or not has_axis:
                m = (_merge_s(s, frozenset([(atom, ONE)])), ())
            else:
                m = (s, (atom,))
            out = p_add(out, frozenset([(m, k)]))
        return out


# ---------------------------------------------------------------------------
# pretty printing (deterministic: sorted by text)
# ---------------------------------------------------------------------------


def show_any(x, depth=0):
    if isinstance(x, Node):
        return show_atom(x, depth)
    if isinstance(x, frozenset):
        return show_poly(x, depth)
    if isinstance(x, tuple):
        if x and isinstance(x[0], str) and len(x) == 2:
            return f"{x[0]}={show_any(x[1], depth)}"
        return "(" + ", ".join(show_any(y, depth) for y in x) + ")"
    if isinstance(x, Fraction):
        return str(x) if x.denominator < 1000 else repr(float(x))
    return str(x)


def show_atom(a, depth=0):
    if depth > 7:
        return "…"
    if not isinstance(a, Node):
        return show_any(a, depth)
    op, k = a.op, a.kids
    d = depth + 1
    if op in ("sym", "size"):
        return ("#" if op == "size" else "") + str(k[0])
    if op == "const":
        return repr(k[0])
    if op == "t":
        return show_atom(k[0], d) + "ᵀ"
    if op == "poly":
        return "(" + show_poly(k[0], d) + ")"
    if op == "chain":
        return "(" + " @ ".join(show_atom(x, d) for x in k) + ")"
    if op == "had":
        return "(" + " ∘ ".join(sorted(show_atom(f, d) + (f"^{e}" if e != 1 else "") for f, e in k[0])) + ")"
    if op == "getitem":
        return f"{show_any(k[0], d)}[{show_any(k[1], d)}]"
    if op == "slice":
        return ":".join("" if (isinstance(x, Node) and x.op == "const" and x.kids[0] is None) else show_any(x, d) for x in k)
    if op in ("py", "dimv"):
        return show_any(k[0], d)
    if op == "tuple":
        return ", ".join(show_any(x, d) for x in k)
    return f"{op}(" + ", ".join(show_any(x, d) for x in k) + ")"


def show_poly(p, depth=0):
    if not p:
        return "0"
    if depth > 7:
        return "…"
    parts = []
    for (s, chain), k in p:
        fs = sorted(show_atom(x, depth + 1) + (f"^{e}" if e != 1 else "") for x, e in s)
        if chain:
            fs.append(" @ ".join(show_atom(x, depth + 1) for x in chain))
        body = "·".join(fs) if fs else "1"
        if k == 1:
            parts.append(body)
        elif k == -1:
            parts.append("-" + body)
        else:
            ks = str(k) if k.denominator < 1000 else repr(float(k))
            parts.append(f"{ks}·{body}" if fs else ks)
    return " + ".join(sorted(parts)).replace("+ -", "- ")


# ---------------------------------------------------------------------------
# structural difference of two normal forms: the smallest sub-structures that differ
# ---------------------------------------------------------------------------


def nf_diff(a, b, limit=12):
    """list of (a_sub, b_sub) pairs: maximal common context stripped away"""
    sites = []
    seen = set()

    def is_poly(x):
        return isinstance(x, frozenset) and all(isinstance(m, tuple) and len(m) == 2 and isinstance(m[0], tuple) for m in x) if x else isinstance(x, frozenset)

    def add(x, y):
        key = (id(x) if isinstance(x, Node) else x, id(y) if isinstance(y, Node) else y)
        try:
            if key in seen:
                return
            seen.add(key)
        except TypeError:
            pass
        if len(sites) < limit:
            sites.append((x, y))

    def rec(x, y):
        if x is y or x == y:
            return
        if isinstance(x, Node) and isinstance(y, Node):
            if x.op == y.op and len(x.kids) == len(y.kids) and x.op not in ("sym", "const", "size"):
                for p, q in zip(x.kids, y.kids):
                    rec(p, q)
                return
            add(x, y)
            return
        if is_poly(x) and is_poly(y) and (x or y):
            dx, dy = dict(x), dict(y)
            common = [m for m in dx if m in dy and dx[m] == dy[m]]
            rx = {m: k for m, k in dx.items() if m not in common}
            ry = {m: k for m, k in dy.items() if m not in common}
            if len(rx) == 1 and len(ry) == 1:
                (mx, kx), = rx.items()
                (my, ky), = ry.items()
                (sx, cx), (sy, cy) = mx, my
                if kx == ky and len(cx) == len(cy) and (sx == sy or (len(sx) == len(sy) == 1)) and sum(1 for p, q in zip(cx, cy) if p is not q) <= 1 + (0 if sx == sy else -1) + 1:
                    if sx != sy:
                        (fx, ex), = sx
                        (fy, ey), = sy
                        if ex == ey:
                            rec(fx, fy)
                        else:
                            add(frozenset([((sx, ()), Fraction(1))]), frozenset([((sy, ()), Fraction(1))]))
                    for p, q in zip(cx, cy):
                        rec(p, q)
                    return
            add(frozenset(rx.items()), frozenset(ry.items()))
            return
        if isinstance(x, tuple) and isinstance(y, tuple) and len(x) == len(y):
            for p, q in zip(x, y):
                rec(p, q)
            return
        if isinstance(x, frozenset) and isinstance(y, frozenset) and not is_poly(x):
            # had-factor sets {(atom, exp)}
            cx, cy = x - y, y - x
            if len(cx) == 1 and len(cy) == 1:
                (fx, ex), = cx
                (fy, ey), = cy
                if ex == ey:
                    rec(fx, fy)
                    return
            add(cx, cy)
            return
        add(x, y)

    rec(a, b)
    return sites


def show_diff(a, b, limit=4, width=260):
    out = []
    for x, y in nf_diff(a, b)[:limit]:
        out.append(f"[{show_any(x)[:width]}]  vs  [{show_any(y)[:width]}]")
    return out


def node_size(x, _seen=None):
    """number of distinct nodes of a normal-form structure"""
    seen = set() if _seen is None else _seen
    stack = [x]
    n = 0
    while stack:
        y = stack.pop()
        if isinstance(y, Node):
            if id(y) in seen:
                continue
            seen.add(id(y))
            n += 1
            stack.extend(y.kids)
        elif isinstance(y, (tuple, frozenset)):
            stack.extend(y)
        else:
            n += 1
    return n


def diff_stats(a, b):
    sites = nf_diff(a, b, limit=50)
    sizes = [node_size(x) + node_size(y) for x, y in sites]
    return len(sites), (max(sizes) if sizes else 0), sum(sizes)
