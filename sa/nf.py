"""Algebraic normal form of terms (value numbering modulo ring axioms).

poly  := frozenset-like sorted tuple of (mono, coeff)      coeff : Fraction
mono  := (sfactors, chain)
         sfactors : sorted tuple of (atom, exponent)         commuting scalar factors
         chain    : tuple of atoms                            matmul product, in order
atom  := hashable tuple  (op, ...)  with normalised children

Axioms applied: associativity/commutativity of +, distributivity of scalar
multiplication, Hadamard product and matmul over +, scalars commute and are
collected with exponents, (AB)^T = B^T A^T, (A^T)^T = A, x*x = x**2,
sqrt = **1/2, a/b = a*b**-1, zeros are additive zero, eye is the matmul unit,
cyclic invariance and linearity of trace, linearity of sum/mean/average,
A*v (row broadcast) = A @ dg(v), unit reshapes and astype are identities.
"""
from __future__ import annotations

from fractions import Fraction

from .terms import Dim, Term

ONE = Fraction(1)


class NotInLanguage(Exception):
    pass


def P_const(c):
    c = Fraction(c)
    if c == 0:
        return ()
    return ((((), ()), c),)


def P_atom(atom, scalar=False):
    if scalar:
        return (((((atom, ONE),), ()), ONE),)
    return ((((), (atom,)), ONE),)


def _mk(d):
    return tuple(sorted(((m, c) for m, c in d.items() if c != 0), key=lambda x: repr(x[0])))


def p_add(a, b, sign=1):
    d = dict(a)
    for m, c in b:
        d[m] = d.get(m, 0) + sign * c
    return _mk(d)


def _merge_s(sa, sb):
    d = dict(sa)
    for a, e in sb:
        d[a] = d.get(a, 0) + e
    return tuple(sorted(((a, e) for a, e in d.items() if e != 0), key=lambda x: repr(x[0])))


def p_scale(a, c):
    return _mk({m: k * c for m, k in a})


def p_matmul(a, b):
    d = {}
    for (sa, ca), ka in a:
        for (sb, cb), kb in b:
            chain = tuple(x for x in ca + cb if x != ("eye",)) if (ca and cb) else ca + cb
            if not chain and (ca or cb):
                chain = (("eye",),)
            chain, extra_k = _merge_dg(chain)
            if extra_k is None:
                continue
            ss, kk = extra_k
            m = (_merge_s(_merge_s(sa, sb), ss), chain)
            d[m] = d.get(m, 0) + ka * kb * kk
    return _mk(d)


def _merge_dg(chain):
    """dg(a) @ dg(b) = dg(a∘b); returns (chain, (scalar factors, coeff)) or (.., None) if zero"""
    out = []
    s = ()
    k = ONE
    for x in chain:
        if out and x[0] == "dg" and out[-1][0] == "dg":
            p = p_had(out[-1][1], x[1])
            out[-1] = ("dg", p)
        else:
            out.append(x)
    res = []
    for x in out:
        if x[0] == "dg":
            p = x[1]
            if not p:
                return (), None
            if len(p) == 1:
                # pull scalars and coefficient out of the diagonal
                (ps, pc), pk = p[0]
                if ps or pk != 1:
                    s = _merge_s(s, ps)
                    k = k * pk
                    if not pc:
                        continue  # dg(scalar) = scalar * eye
                    x = ("dg", ((((), pc), ONE),))
        res.append(x)
    if not res and out:
        res = [("eye",)]
    return tuple(res), (s, k)


def chain_atom(chain):
    if len(chain) == 1:
        return chain[0]
    return ("chain",) + tuple(chain)


def p_had(a, b):
    """elementwise product (bilinear, commutative)"""
    d = {}
    for (sa, ca), ka in a:
        for (sb, cb), kb in b:
            s = _merge_s(sa, sb)
            if not ca:
                chain = cb
            elif not cb:
                chain = ca
            else:
                xa, xb = chain_atom(ca), chain_atom(cb)
                fa = list(xa[1]) if xa[0] == "had" else [(xa, ONE)]
                fb = list(xb[1]) if xb[0] == "had" else [(xb, ONE)]
                dd = {}
                for f, e in fa + fb:
                    dd[f] = dd.get(f, 0) + e
                fs = tuple(sorted(((f, e) for f, e in dd.items() if e != 0), key=lambda x: repr(x[0])))
                if not fs:
                    chain = ()
                elif len(fs) == 1 and fs[0][1] == 1:
                    chain = (fs[0][0],)
                else:
                    chain = (("had", fs),)
            m = (s, chain)
            d[m] = d.get(m, 0) + ka * kb
    return _mk(d)


def p_pow(a, e):
    """a ** e for a constant rational exponent"""
    e = Fraction(e)
    if e == 1:
        return a
    if e == 0:
        return P_const(1)
    if len(a) == 1:
        (s, chain), k = a[0]
        ok = True
        try:
            if e.denominator == 1:
                kk = k ** int(e)
            else:
                # rational power of a rational: only exact roots
                import math

                num = k.numerator ** (1 / e.denominator)
                den = k.denominator ** (1 / e.denominator)
                rn, rd = round(num), round(den)
                if k > 0 and rn ** e.denominator == k.numerator and rd ** e.denominator == k.denominator:
                    kk = Fraction(rn, rd) ** e.numerator
                else:
                    ok = False
        except Exception:
            ok = False
        if ok:
            s2 = tuple((x, ex * e) for x, ex in s)
            if not chain:
                return ((((tuple(sorted(s2, key=lambda x: repr(x[0])))), ()), kk),)
            xa = chain_atom(chain)
            fa = list(xa[1]) if xa[0] == "had" else [(xa, ONE)]
            fs = tuple(sorted(((f, ex * e) for f, ex in fa), key=lambda x: repr(x[0])))
            atom = fs[0][0] if (len(fs) == 1 and fs[0][1] == 1) else ("had", fs)
            return (((tuple(sorted(s2, key=lambda x: repr(x[0]))), (atom,)), kk),)
    # power of a sum: opaque
    scalar = all(not chain for (s, chain), k in a)
    atom = ("poly", a)
    if scalar:
        return ((((((atom, e),)), ()), ONE),)
    return ((((), (("had", ((atom, e),)),)), ONE),)


SYMMETRIC_OPS = {"eye", "dg", "zeros"}


def t_atom(atom, symmetric):
    if atom[0] in SYMMETRIC_OPS or atom in symmetric:
        return atom
    if atom[0] == "t":
        return atom[1]
    if atom[0] == "had":
        return ("had", tuple(sorted(((t_atom(f, symmetric), e) for f, e in atom[1]), key=lambda x: repr(x[0]))))
    if atom[0] == "chain":
        return ("chain",) + tuple(t_atom(x, symmetric) for x in reversed(atom[1:]))
    if atom[0] == "poly":
        return ("poly", p_T(atom[1], symmetric))
    if atom[0] in ("inv", "pinv") and len(atom) == 2:
        return (atom[0], p_T(atom[1], symmetric))
    if atom[0] == "rank1":  # known 1-D value
        return atom
    return ("t", atom)


def p_T(a, symmetric=frozenset()):
    d = {}
    for (s, chain), k in a:
        m = (s, tuple(t_atom(x, symmetric) for x in reversed(chain)))
        d[m] = d.get(m, 0) + k
    return _mk(d)


def single_atom(p):
    """if the poly is exactly one atom with coefficient 1 return it"""
    if len(p) == 1:
        (s, chain), k = p[0]
        if k == 1 and not s and len(chain) == 1:
            return chain[0]
        if k == 1 and not chain and len(s) == 1 and s[0][1] == 1:
            return s[0][0]
    return None


def wrap(p):
    a = single_atom(p)
    return a if a is not None else ("poly", p)


def _const_index(f):
    return isinstance(f, Fraction) or (isinstance(f, tuple) and len(f) == 2 and f[0] == "const" and isinstance(f[1], (int, Fraction)))


class Normalizer:
    def __init__(self, symmetric=(), scalar_syms=(), opaque_ok=True, rewrite=None):
        self.cache = {}
        self.symmetric = frozenset(symmetric)
        self.scalar_syms = set(scalar_syms)
        self.unknown_ops = set()
        self.rewrite = rewrite

    def nf(self, t):
        if not isinstance(t, Term):
            return P_atom(("py", self.freeze(t)))
        r = self.cache.get(t)
        if r is None:
            r = self._nf(t)
            self.cache[t] = r
        return r

    def freeze(self, x):
        if isinstance(x, Term):
            if x.op == "const" and isinstance(x.args[0], Fraction):
                return x.args[0]
            return wrap(self.nf(x))
        if isinstance(x, tuple):
            return tuple(self.freeze(y) for y in x)
        if isinstance(x, Dim):
            return ("dim", repr(x))
        return x

    def scalar(self, t):
        """poly of a scalar-valued term: its atoms go to the commuting factors"""
        p = self.nf(t)
        d = {}
        for (s, chain), k in p:
            if chain:
                s = _merge_s(s, tuple((x, ONE) for x in chain))
            m = (s, ())
            d[m] = d.get(m, 0) + k
        return _mk(d)

    def _nf(self, t):
        if self.rewrite is not None:
            r = self.rewrite(t, self)
            if r is not None:
                return r
        op, a = t.op, t.args
        if op == "const":
            v = a[0]
            if isinstance(v, Fraction):
                return P_const(v)
            if isinstance(v, bool) or v is None or isinstance(v, str):
                return P_atom(("const", v), scalar=True)
            return P_atom(("const", repr(v)), scalar=True)
        if op == "sym":
            if a[0] in self.scalar_syms:
                return P_atom(("sym", a[0]), scalar=True)
            return P_atom(("sym", a[0]))
        if op == "dim":
            d = a[0]
            # linear form over size symbols -> scalar polynomial
            out = P_const(d.c)
            for atom, k in d.lin:
                out = p_add(out, p_scale(P_atom(("size", repr(atom) if not isinstance(atom, str) else atom), scalar=True), k))
            return out
        if op == "add":
            return p_add(self.nf(a[0]), self.nf(a[1]))
        if op == "sub":
            return p_add(self.nf(a[0]), self.nf(a[1]), -1)
        if op == "neg":
            return p_scale(self.nf(a[0]), -1)
        if op == "smul":
            return p_had(self.scalar(a[0]), self.nf(a[1]))
        if op == "sdiv":
            return p_had(self.nf(a[0]), p_pow(self.scalar(a[1]), -1))
        if op == "mul":
            return p_had(self.nf(a[0]), self.nf(a[1]))
        if op == "div":
            return p_had(self.nf(a[0]), p_pow(self.nf(a[1]), -1))
        if op == "matmul":
            return p_matmul(self.nf(a[0]), self.nf(a[1]))
        if op == "pow":
            e = a[1]
            if isinstance(e, Term) and e.op == "const" and isinstance(e.args[0], Fraction):
                return p_pow(self.nf(a[0]), e.args[0])
            return P_atom(("pow", wrap(self.nf(a[0])), wrap(self.nf(e))))
        if op == "sqrt":
            return p_pow(self.nf(a[0]), Fraction(1, 2))
        if op == "T":
            return p_T(self.nf(a[0]), self.symmetric)
        if op in ("reshape1", "astype", "stale0"):
            return self.nf(a[0])
        if op == "zeros":
            return ()
        if op == "eye":
            return P_atom(("eye",))
        if op == "dg":
            p = self.nf(a[0])
            chain, extra = _merge_dg((("dg", p),))
            if extra is None:
                return ()
            ss, kk = extra
            return (((ss, chain), kk),)
        if op == "trace":
            return self.linear_reduce("trace", a, cyclic=True)
        if op in ("sum", "mean", "average"):
            return self.linear_reduce(op, a)
        if op == "phi":
            x, y = self.nf(a[1]), self.nf(a[2])
            if x == y:
                return x
            return P_atom(("phi", self.freeze(a[0]), wrap(x), wrap(y)))
        if op == "getitem":
            base, idx = a[0], a[1]
            fi = self.freeze(idx)
            # read-after-write through a chain of stores
            b = base
            while isinstance(b, Term) and b.op == "store":
                fj = self.freeze(b.args[1])
                if fj == fi:
                    return self.nf(b.args[2])
                if _const_index(fi) and _const_index(fj):
                    b = b.args[0]  # distinct constant slots
                    continue
                break
            return P_atom(("getitem", wrap(self.nf(b)), fi))
        if op == "store":
            base, idx, val = a
            fi = self.freeze(idx)
            if isinstance(base, Term) and base.op == "store" and self.freeze(base.args[1]) == fi:
                base = base.args[0]  # overwritten slot
            return P_atom(("store", wrap(self.nf(base)), fi, wrap(self.nf(val))))
        if op == "unk":
            return P_atom(("unk", a[0], a[1]))
        # generic: opaque atom with normalised children
        return P_atom((op,) + tuple(self.freeze(x) for x in a))

    def linear_reduce(self, op, a, cyclic=False):
        inner = self.nf(a[0])
        rest = tuple(self.freeze(x) for x in a[1:])
        if op == "average" and not any(isinstance(r, tuple) and r and r[0] == "weights" for r in rest):
            op = "mean"
        out = ()
        for (s, chain), k in inner:
            if cyclic and len(chain) > 1:
                rots = [chain[i:] + chain[:i] for i in range(len(chain))]
                chain = min(rots, key=repr)
                # trace(A) = trace(A^T)
                tchain = tuple(t_atom(x, self.symmetric) for x in reversed(chain))
                trots = [tchain[i:] + tchain[:i] for i in range(len(tchain))]
                chain = min([chain] + trots, key=repr)
            if not chain:
                atom = (op, ("one",)) + rest
            else:
                atom = (op, chain_atom(chain)) + rest
            scalar_result = cyclic or not any(isinstance(r, tuple) and r and r[0] == "axis" for r in rest)
            if scalar_result:
                m = (_merge_s(s, ((atom, ONE),)), ())
            else:
                m = (s, (atom,))
            out = p_add(out, ((m, k),))
        return out


# ---------------------------------------------------------------------------
# pretty printing
# ---------------------------------------------------------------------------


def show_atom(a, depth=0):
    if depth > 8:
        return "…"
    if not isinstance(a, tuple):
        return str(a)
    if not a:
        return "()"
    op = a[0]
    d = depth + 1
    if op == "sym":
        return str(a[1])
    if op == "size":
        return f"#{a[1]}"
    if op == "const":
        return repr(a[1])
    if op == "t":
        return show_atom(a[1], d) + "ᵀ"
    if op == "poly":
        return "(" + show_poly(a[1], d) + ")"
    if op == "chain":
        return "(" + " @ ".join(show_atom(x, d) for x in a[1:]) + ")"
    if op == "had":
        return "(" + " ∘ ".join(show_atom(f, d) + (f"^{e}" if e != 1 else "") for f, e in a[1]) + ")"
    if op == "getitem":
        return f"{show_atom(a[1], d)}[{show_atom(a[2], d)}]"
    if op == "slice":
        return ":".join("" if (isinstance(x, tuple) and x[:2] == ("const", None)) else show_atom(x, d) for x in a[1:])
    if op == "py":
        return show_atom(a[1], d)
    if op == "dg" and len(a) == 2 and isinstance(a[1], tuple) and (not a[1] or isinstance(a[1][0], tuple) and len(a[1][0]) == 2 and isinstance(a[1][0][1], Fraction)):
        return "dg(" + show_poly(a[1], d) + ")"
    if isinstance(op, str):
        return f"{op}(" + ", ".join(show_atom(x, d) for x in a[1:]) + ")"
    return "(" + ", ".join(show_atom(x, d) for x in a) + ")"


def show_poly(p, depth=0):
    if not p:
        return "0"
    parts = []
    for (s, chain), k in p:
        fs = [show_atom(x, depth + 1) + (f"^{e}" if e != 1 else "") for x, e in s]
        if chain:
            fs.append(" @ ".join(show_atom(x, depth + 1) for x in chain))
        body = "·".join(fs) if fs else "1"
        if k == 1:
            parts.append(body)
        elif k == -1:
            parts.append("-" + body)
        else:
            ks = str(k) if k.denominator < 1000 else repr(float(k))
            parts.append(f"{ks}·{body}" if fs else ks)
    return " + ".join(parts).replace("+ -", "- ")
