"""Protocol scripts for every public entry point of skmatter: how each public
class is constructed and which call sequence is analysed with which symbolic
inputs.  A frozen, repository-specific table (confirmed by reading the code);
used by C09 (effects) and by the Shape sweeps of the other properties."""
from __future__ import annotations

from .harness import arr, extobj, index, integer, scalar
from .interp import State
from .terms import Dim, V, vconst

# sizes: N train samples, M features, P targets, V held-out samples


def XY(n="N", m="M", p="P", y1d=False, sfx=""):
    X = arr("X" + sfx, n, m)
    y = arr("y" + sfx, n) if y1d else arr("y" + sfx, n, p)
    return X, y


class Proto:
    def __init__(self, name, cls, ctor=None, steps=None, order=(), assume=None, config=None, post_ctor=None):
        self.name = name
        self.cls = cls
        self.ctor = ctor or {}
        self.steps = steps or []
        self.order = order
        self.assume = assume
        self.config = config or {}
        self.post_ctor = post_ctor


def run(ctx, proto, st=None, I=None):
    """returns (I, st, obj, [(method, result, event_mark_before, event_mark_after)])"""
    I = I or ctx.interp(order=proto.order, assume=proto.assume, **proto.config)
    st = st or State()
    mark0 = len(I.events)
    o = ctx.construct(I, st, proto.cls, **proto.ctor)
    if proto.post_ctor:
        proto.post_ctor(I, st, o)
    out = [("__init__", o, mark0, len(I.events))]
    I._reader_changes = []
    fitted_private = set()
    for meth, args, kwargs in proto.steps:
        m0 = len(I.events)
        # (a lazily computed cache going from None to its value is not a change of fitted state)
        before = {k: v.term for k, v in st.heap.get(o.obj.id, {}).items() if v.kind not in ("none", "undef")} if getattr(o, "obj", None) is not None else {}
        before_names = set(st.heap.get(o.obj.id, {})) if getattr(o, "obj", None) is not None else set()
        r = ctx.call_method(I, st, o, meth, *args, **kwargs)
        out.append((meth, r, m0, len(I.events)))
        if meth in ("fit", "fit_transform") and getattr(o, "obj", None) is not None:
            # private attributes that fit wrote (and the constructor did not) are fitted state as well
            fitted_private |= {k for k, v in st.heap.get(o.obj.id, {}).items() if k.startswith("_") and k not in before and v.kind == "arr"}
        if meth not in ("fit", "fit_transform", "set_params", "partial_fit") and getattr(o, "obj", None) is not None:
            after = st.heap.get(o.obj.id, {})
            changed = sorted(k for k, t in before.items() if k in after and after[k].term != t and ((k.endswith("_") and not k.startswith("_")) or (k.startswith("_") and not k.startswith("__") and k in fitted_private)))
            # a reader that leaves a new array behind on the estimator (a result buffer kept for re-use) hands out
            # storage that its next call overwrites
            created = sorted(k for k, v in after.items() if k not in before_names and v.kind == "arr")
            I._reader_changes.append((meth, changed + [f"{k} (created)" for k in created]))
    return I, st, o, out


def assume_default(term, node, interp):
    """decisions for data-dependent conditions that are not part of any
    obligation: exceptional paths are not taken"""
    r = repr(term)
    if term.op == "raises":
        if term.args[0] == "NotFittedError" and len(term.args) > 2:
            a = term.args[2]
            # a regressor built in place (or a clone of one) is unfitted; one that
            # went through .fit is fitted; a caller-supplied object: both paths
            r = repr(a)
            if a.op == "after" or "after(" in r:
                return False
            if a.op in ("new", "clone"):
                return True
            if a.op == "sym":
                return None
        return False
    return None


def selector_protocols():
    out = []
    for pkg, axis in (("feature", 1), ("sample", 0)):
        for cname, kw in (("FPS", {}), ("CUR", {}), ("PCovFPS", {"mixing": scalar("alpha", 0, 1, False, True)}), ("PCovCUR", {"mixing": scalar("alpha", 0, 1, False, False)})):
            X, y = XY()
            X2, y2 = XY(sfx="2")
            steps = [("fit", (X, y), {}), ("fit", (X, y), {"warm_start": True}), ("get_support", (), {}), ("get_support", (), {"indices": True})]
            if "FPS" in cname:
                # the distance read-outs, before and after a warm start
                steps = [("fit", (X, y), {}), ("get_select_distance", (), {}), ("get_distance", (), {}), ("fit", (X, y), {"warm_start": True}), ("get_select_distance", (), {}), ("get_support", (), {}), ("get_support", (), {"indices": True})]
            if pkg == "feature":
                steps.append(("transform", (arr("Xt", "V", "M"),), {}))
            ctor = dict(kw)
            ctor["n_to_select"] = integer("S")
            out.append(Proto(f"{pkg}.{cname}", f"skmatter.{pkg}_selection.{cname}", ctor, steps, assume=assume_default, order=[("S", "<=", "M" if axis == 1 else "N")]))
            # non-default configurations: early stop on a score threshold, other initialisations
            for ttype in ("absolute", "relative"):
                Xt_, yt_ = XY()
                out.append(Proto(f"{pkg}.{cname}[{ttype} threshold]", f"skmatter.{pkg}_selection.{cname}", dict(ctor, score_threshold=scalar("thr"), score_threshold_type=ttype), [("fit", (Xt_, yt_), {}), ("fit", (Xt_, yt_), {"warm_start": True})], assume=assume_default, order=[("S", "<=", "M" if axis == 1 else "N")]))
            # the other spellings of the requested count: a fraction of the candidates, everything (None)
            for nm_, val_ in (("fraction", scalar("frac", 0, 1, False, True)), ("all", None)):
                Xf_, yf_ = XY()
                Xg_, yg_ = XY(sfx="2")
                out.append(Proto(f"{pkg}.{cname}[n_to_select={nm_}]", f"skmatter.{pkg}_selection.{cname}", dict(kw, n_to_select=val_), [("fit", (Xf_, yf_), {}), ("fit", (Xg_, yg_), {})], assume=assume_default))
            if "FPS" in cname:
                Xr_, yr_ = XY()
                out.append(Proto(f"{pkg}.{cname}[initialize=random]", f"skmatter.{pkg}_selection.{cname}", dict(ctor, initialize="random"), [("fit", (Xr_, yr_), {}), ("fit", (Xr_, yr_), {})], assume=assume_default, order=[("S", "<=", "M" if axis == 1 else "N")]))
            if cname in ("FPS", "CUR"):
                Xn = arr("Xn", "N", "M")
                out.append(Proto(f"{pkg}.{cname}[no y]", f"skmatter.{pkg}_selection.{cname}", ctor, [("fit", (Xn,), {})], assume=assume_default, order=[("S", "<=", "M" if axis == 1 else "N")]))
    X, y = XY()
    out.append(Proto("sample.VoronoiFPS", "skmatter.sample_selection.VoronoiFPS", {"n_to_select": integer("S")}, [("fit", (X, y), {}), ("fit", (X, y), {"warm_start": True}), ("get_support", (), {})], assume=assume_default, order=[("S", "<=", "N")]))
    X, y = XY()
    out.append(Proto("sample.VoronoiFPS[full_fraction]", "skmatter.sample_selection.VoronoiFPS", {"n_to_select": integer("S"), "full_fraction": scalar("ff", 0, 1, True, False)}, [("fit", (X,), {})], assume=assume_default, order=[("S", "<=", "N")]))
    X, y = XY(y1d=True)
    out.append(Proto("sample.DirectionalConvexHull", "skmatter.sample_selection.DirectionalConvexHull", {"low_dim_idx": [0, 1]}, [("fit", (X, y), {}), ("score_samples", (arr("Xq", "V", "M"), arr("yq", "V")), {}), ("score_feature_matrix", (arr("Xq2", "V", "M"),), {})], assume=assume_default))
    return out


def decomposition_protocols():
    out = []
    for space in ("feature", "sample"):
        for reg in ("default", "precomputed", "precomputedW"):
            X, Y = XY()
            ctor = {"mixing": scalar("alpha", 0, 1, True, True), "space": space, "n_components": integer("K"), "svd_solver": "full"}
            fit_args, fit_kw = (X, Y), {}
            if reg.startswith("precomputed"):
                ctor["regressor"] = "precomputed"
                if reg.endswith("W"):
                    fit_kw = {"W": arr("W", "M", "P")}
            Xv, Yv = XY(n="V", sfx="v")
            steps = [("fit", fit_args, fit_kw), ("transform", (Xv,), {}), ("predict", (Xv,), {}), ("predict", (), {"T": arr("T", "V", "K")}), ("inverse_transform", (arr("T2", "V", "K"),), {}), ("score", (Xv, Yv), {})]
            out.append(Proto(f"PCovR[{space},{reg}]", "skmatter.decomposition.PCovR", ctor, steps, assume=assume_default, order=[("K", "<=", "N"), ("K", "<=", "M")]))
    for solver in ("arpack", "randomized"):
        X, Y = XY()
        out.append(Proto(f"PCovR[{solver}]", "skmatter.decomposition.PCovR", {"mixing": scalar("alpha", 0, 1, True, True), "space": "feature", "n_components": integer("K"), "svd_solver": solver}, [("fit", (X, Y), {})], assume=assume_default, order=[("K", "<", "N"), ("K", "<", "M")]))
    # the truncated solver with the route forced against the shape of the data
    for space, rel in (("sample", ">"), ("feature", "<")):
        X, Y = XY()
        out.append(Proto(f"PCovR[arpack,space={space},N{rel}M]", "skmatter.decomposition.PCovR", {"mixing": scalar("alpha", 0, 1, True, True), "space": space, "n_components": integer("K"), "svd_solver": "arpack"}, [("fit", (X, Y), {})], assume=assume_default, order=[("K", "<", "N"), ("K", "<", "M"), ("N", rel, "M")]))
    X, Y = XY(y1d=True)
    out.append(Proto("PCovR[1-D y]", "skmatter.decomposition.PCovR", {"mixing": scalar("alpha", 0, 1, True, True), "space": "feature", "n_components": integer("K"), "svd_solver": "full"}, [("fit", (X, Y), {}), ("predict", (arr("Xv", "V", "M"),), {}), ("score", (arr("Xv2", "V", "M"), arr("Yv2", "V")), {})], assume=assume_default, order=[("K", "<=", "N"), ("K", "<=", "M")]))
    # a single target given as a vector, crossed with the route and the regressor kind
    for space in ("feature", "sample"):
        for reg in ("default", "precomputed", "precomputedW"):
            if (space, reg) == ("feature", "default"):
                continue  # the protocol above
            X, Y = XY(y1d=True)
            ctor = {"mixing": scalar("alpha", 0, 1, True, True), "space": space, "n_components": integer("K"), "svd_solver": "full"}
            fit_kw = {}
            if reg.startswith("precomputed"):
                ctor["regressor"] = "precomputed"
                if reg.endswith("W"):
                    fit_kw = {"W": arr("W", "M")}
            out.append(Proto(f"PCovR[1-D y,{space},{reg}]", "skmatter.decomposition.PCovR", ctor, [("fit", (X, Y), fit_kw), ("predict", (arr("Xv", "V", "M"),), {}), ("score", (arr("Xv2", "V", "M"), arr("Yv2", "V")), {})], assume=assume_default, order=[("K", "<=", "N"), ("K", "<=", "M")]))
    for center in (False, True):
        for reg in ("default", "precomputed"):
            X, Y = XY()
            ctor = {"mixing": scalar("alpha", 0, 1, True, True), "n_components": integer("K"), "svd_solver": "full", "center": center, "kernel": "rbf", "gamma": scalar("gamma", 0, None, True, True), "fit_inverse_transform": True}
            fit_kw = {}
            if reg == "precomputed":
                ctor["regressor"] = "precomputed"
                fit_kw = {"W": arr("W", "N", "P")}
            Xv, Yv = XY(n="V", sfx="v")
            steps = [("fit", (X, Y), fit_kw), ("transform", (Xv,), {}), ("predict", (Xv,), {}), ("inverse_transform", (arr("T2", "V", "K"),), {}), ("score", (Xv, Yv), {})]
            out.append(Proto(f"KernelPCovR[center={center},{reg}]", "skmatter.decomposition.KernelPCovR", ctor, steps, assume=assume_default, order=[("K", "<=", "N")]))
    # precomputed kernels: the caller's arrays are used as kernels directly
    for center in (False, True):
        K, Y = arr("Ktrain", "N", "N"), arr("Y", "N", "P")
        steps = [("fit", (K, Y), {}), ("transform", (arr("Ktest", "V", "N"),), {}), ("predict", (arr("Ktest2", "V", "N"),), {}), ("score", (K, Y), {})]  # (with a precomputed kernel only the training kernel is a valid score input)
        out.append(Proto(f"KernelPCovR[precomputed kernel,center={center}]", "skmatter.decomposition.KernelPCovR", {"mixing": scalar("alpha", 0, 1, True, True), "n_components": integer("K"), "svd_solver": "full", "center": center, "kernel": "precomputed"}, steps, assume=assume_default, order=[("K", "<=", "N")]))
    X, Y = XY(y1d=True)
    out.append(Proto("KernelPCovR[1-D y]", "skmatter.decomposition.KernelPCovR", {"mixing": scalar("alpha", 0, 1, True, True), "n_components": integer("K"), "svd_solver": "full"}, [("fit", (X, Y), {}), ("predict", (arr("Xv", "V", "M"),), {})], assume=assume_default, order=[("K", "<=", "N")]))
    # a single target given as a vector, crossed with centring and the regressor kind
    for center in (False, True):
        for reg in ("default", "precomputed", "precomputedW"):
            if (center, reg) == (False, "default"):
                continue
            X, Y = XY(y1d=True)
            ctor = {"mixing": scalar("alpha", 0, 1, True, True), "n_components": integer("K"), "svd_solver": "full", "center": center}
            fit_kw = {}
            if reg.startswith("precomputed"):
                ctor["regressor"] = "precomputed"
                if reg.endswith("W"):
                    fit_kw = {"W": arr("W", "N")}
            Xv, Yv = XY(n="V", sfx="v", y1d=True)
            out.append(Proto(f"KernelPCovR[1-D y,center={center},{reg}]", "skmatter.decomposition.KernelPCovR", ctor, [("fit", (X, Y), fit_kw), ("predict", (Xv,), {}), ("score", (Xv, Yv), {})], assume=assume_default, order=[("K", "<=", "N")]))
    return out


def preprocessing_protocols():
    out = []
    for wm in (True, False):
        for ws in (True, False):
            for cw in (True, False):
                for w in (False, True):
                    X = arr("X", "N", "M")
                    kw = {"sample_weight": arr("w", "N")} if w else {}
                    out.append(Proto(f"StandardFlexibleScaler[mean={wm},std={ws},colwise={cw},weights={w}]", "skmatter.preprocessing.StandardFlexibleScaler", {"with_mean": wm, "with_std": ws, "column_wise": cw}, [("fit", (X,), kw), ("transform", (arr("Xt", "V", "M"),), {}), ("transform", (arr("Xs", "N", "M"),), {}), ("inverse_transform", (arr("Xi", "V", "M"),), {})], assume=assume_default))
    for wc in (True, False):
        for wt in (True, False):
            for w in (False, True):
                K = arr("K", "N", "N")
                kw = {"sample_weight": arr("w", "N")} if w else {}
                out.append(Proto(f"KernelNormalizer[center={wc},trace={wt},weights={w}]", "skmatter.preprocessing.KernelNormalizer", {"with_center": wc, "with_trace": wt}, [("fit", (K,), kw), ("transform", (arr("Kt", "V", "N"),), {}), ("fit_transform", (arr("K2", "N", "N"),), kw)], assume=assume_default))
                Knm, Kmm = arr("Knm", "N", "A"), arr("Kmm", "A", "A")
                out.append(Proto(f"SparseKernelCenterer[center={wc},trace={wt},weights={w}]", "skmatter.preprocessing.SparseKernelCenterer", {"with_center": wc, "with_trace": wt}, [("fit", (Knm, Kmm), kw), ("transform", (arr("Kt", "V", "A"),), {}), ("fit_transform", (arr("Knm2", "N", "A"), arr("Kmm2", "A", "A")), kw)], assume=assume_default))
    return out


def fold_hook(interp, qual, args, kw, st, node):
    """next(cv.split(X)) -> two index arrays of sizes N1, N2"""
    if qual == "builtin:next":
        return interp.mk_tuple([arr("fold1_idx", "N1", inp=False, dtype="int"), arr("fold2_idx", "N2", inp=False, dtype="int")])
    return None


def linear_model_protocols():
    out = []
    for method in ("tikhonov", "cutoff"):
        for atype in ("absolute", "relative"):
            X, y = XY()
            out.append(Proto(f"Ridge2FoldCV[{method},{atype}]", "skmatter.linear_model.Ridge2FoldCV", {"alphas": arr("alphas", "G"), "alpha_type": atype, "regularization_method": method}, [("fit", (X, y), {}), ("predict", (arr("Xv", "V", "M"),), {})], assume=assume_default, config={"call_hook": fold_hook}))
    for proj in (True, False):
        for regime in ("M<P", "M>P", "M==P"):
            a, op, b = regime.replace("==", " == ").replace("<", " < ").replace(">", " > ").split()
            X, y = XY()
            out.append(Proto(f"OrthogonalRegression[projector={proj},{regime}]", "skmatter.linear_model.OrthogonalRegression", {"use_orthogonal_projector": proj}, [("fit", (X, y), {}), ("predict", (arr("Xv", "V", "M"),), {})], assume=assume_default, order=[(a, op, b)]))
    return out


def other_class_protocols():
    out = []
    D, G = arr("descriptors", "D", "F"), arr("grid", "G", "F")
    for cell in (False, True):
        for mode in ("fpoints", "fspread"):
            D, G = arr("descriptors", "D", "F"), arr("grid", "G", "F")
            ctor = {"descriptors": D, "weights": arr("weights", "D")}
            if cell:
                ctor["metric_params"] = {"cell_length": arr("cell", "F")}
            if mode == "fspread":
                ctor["fspread"] = scalar("fspread", 0, None, True, True)
                ctor["fpoints"] = -1.0
            out.append(Proto(f"SparseKDE[cell={cell},{mode}]", "skmatter.neighbors.SparseKDE", ctor, [("fit", (G,), {}), ("score_samples", (arr("Q", "Qn", "F"),), {}), ("score", (arr("Q2", "Qn", "F"),), {}), ("sample", (integer("ns"),), {"random_state": scalar("random_state")}), ("score_samples", (arr("Q3", "Qn", "F"),), {})], assume=assume_default))
    for mode in ("cutoff", "gabriel"):
        for cell in (False, True):
            X = arr("X", "N", "F")
            ctor = {"dist_cutoff_sq": arr("cutoffs", "N")} if mode == "cutoff" else {"gabriel_shell": integer("shell")}
            ctor["scale"] = scalar("scale", 0, None, True, True)
            if cell:
                ctor["metric_params"] = {"cell_length": arr("cell", "F")}
            out.append(Proto(f"QuickShift[{mode},cell={cell}]", "skmatter.clustering.QuickShift", ctor, [("fit", (X,), {"samples_weight": arr("weights", "N")})], assume=assume_default))
    return out


def all_class_protocols():
    return selector_protocols() + decomposition_protocols() + preprocessing_protocols() + linear_model_protocols() + other_class_protocols()


def function_protocols():
    """(name, qualified function, args, kwargs, order)"""
    out = []
    for regime in ("M<P", "M>P", "M==P"):
        a, op, b = regime.replace("==", " == ").replace("<", " < ").replace(">", " > ").split()
        order = [(a, op, b)]
        for fn in ("pointwise_global_reconstruction_error", "global_reconstruction_error", "pointwise_global_reconstruction_distortion", "global_reconstruction_distortion"):
            for explicit in (False, True):
                X, Y = arr("X", "N", "M"), arr("Y", "N", "P")
                kw = {"train_idx": arr("train_idx", "R", dtype="int"), "test_idx": arr("test_idx", "T", dtype="int")} if explicit else {}
                out.append((f"{fn}[{regime},idx={explicit}]", f"skmatter.metrics.{fn}", (X, Y), kw, order))
        for fn in ("pointwise_local_reconstruction_error", "local_reconstruction_error"):
            X, Y = arr("X", "N", "M"), arr("Y", "N", "P")
            out.append((f"{fn}[{regime}]", f"skmatter.metrics.{fn}", (X, Y, integer("k")), {"train_idx": arr("train_idx", "R", dtype="int"), "test_idx": arr("test_idx", "T", dtype="int")}, order))
    # user supplied scaler / estimator
    X, Y = arr("X", "N", "M"), arr("Y", "N", "P")
    out.append(("pointwise_global_reconstruction_error[user scaler/estimator]", "skmatter.metrics.pointwise_global_reconstruction_error", (X, Y), {"scaler": extobj("scaler", "Scaler"), "estimator": extobj("estimator", "Estimator")}, []))
    for cell in (False, True):
        X, Y = arr("X", "nX", "F"), arr("Y", "nY", "F")
        kw = {"cell_length": arr("cell", "F")} if cell else {}
        out.append((f"periodic_pairwise_euclidean_distances[cell={cell}]", "skmatter.metrics.periodic_pairwise_euclidean_distances", (X, Y), kw, []))
        for stack in (False, True):
            X, Y = arr("X", "nX", "F"), arr("Y", "nY", "F")
            ci = arr("cov_inv", "C", "F", "F") if stack else arr("cov_inv", "F", "F")
            out.append((f"pairwise_mahalanobis_distances[cell={cell},stack={stack}]", "skmatter.metrics.pairwise_mahalanobis_distances", (X, Y, ci), dict(kw), []))
    mix = scalar("alpha", 0, 1, True, True)
    out.append(("pcovr_covariance", "skmatter.utils.pcovr_covariance", (mix, arr("X", "N", "M"), arr("Y", "N", "P")), {}, []))
    out.append(("pcovr_kernel", "skmatter.utils.pcovr_kernel", (mix, arr("X", "N", "M"), arr("Y", "N", "P")), {}, []))
    out.append(("X_orthogonalizer[copy=True]", "skmatter.utils.X_orthogonalizer", (arr("x1", "N", "M"),), {"c": index("c", "M"), "copy": True}, []))
    out.append(("X_orthogonalizer[x2,copy=True]", "skmatter.utils.X_orthogonalizer", (arr("x1", "N", "M"),), {"x2": arr("x2", "N", "Q2"), "copy": True}, []))
    out.append(("Y_feature_orthogonalizer[copy=True]", "skmatter.utils.Y_feature_orthogonalizer", (arr("y", "N", "P"), arr("X", "N", "M")), {"copy": True}, []))
    out.append(("Y_sample_orthogonalizer[copy=True]", "skmatter.utils.Y_sample_orthogonalizer", (arr("y", "N", "P"), arr("X", "N", "M"), arr("y_ref", "R", "P"), arr("X_ref", "R", "M")), {"copy": True}, []))
    out.append(("check_lr_fit", "skmatter.utils.check_lr_fit", (extobj("regressor", "sklearn.linear_model.Ridge"), arr("X", "N", "M"), arr("y", "N", "P")), {}, []))
    out.append(("check_krr_fit", "skmatter.utils.check_krr_fit", (extobj("regressor", "sklearn.kernel_ridge.KernelRidge"), arr("K", "N", "N"), arr("X", "N", "M"), arr("y", "N", "P")), {}, []))
    out.append(("effdim", "skmatter.utils.effdim", (arr("cov", "F", "F"),), {}, []))
    out.append(("oas", "skmatter.utils.oas", (arr("cov", "F", "F"), scalar("n", 0, None), integer("F")), {}, []))
    return out


def rigidity_protocols():
    return [
        ("local_prediction_rigidity", "skmatter.metrics.local_prediction_rigidity"),
        ("componentwise_prediction_rigidity", "skmatter.metrics.componentwise_prediction_rigidity"),
    ]


def reader_state_obligations(ctx, rule, prefix, cls):
    """every non-fit method of the protocols whose name starts with `prefix` leaves the fitted state as fit produced it
    and keeps no result buffer on the estimator"""
    P = ctx.P
    for p_ in all_class_protocols():
        if not p_.name.startswith(prefix):
            continue
        Ip, sp_, op_, _res = run(ctx, p_)
        for meth_, changed_ in getattr(Ip, "_reader_changes", []):
            ctx.ob(rule, f"{p_.name}.{meth_} leaves the fitted state untouched", not changed_, f"attributes rewritten / created: {changed_}" if changed_ else "no fitted attribute changed", ctx.site(P.method(cls, meth_)), p_.name)


def fit_transform_consistency(ctx, N, rule, cls_qual, variants, mkargs, mkkw=lambda: {}):
    """fit_transform(data) returns what fit(data).transform(data) returns and leaves the same fitted state,
    for every constructor variant (dict of keyword arguments)"""
    P = ctx.P
    cls = P.cls(cls_qual)
    site = ctx.site(cls.methods["fit_transform"]) if "fit_transform" in cls.methods else ctx.site(P.method(cls, "fit"))
    for ctor in variants:
        cfg = ",".join(f"{k}={v}" for k, v in sorted(ctor.items()))
        I1, s1 = ctx.interp(assume=assume_default), State()
        o1 = ctx.construct(I1, s1, cls_qual, **ctor)
        r1 = ctx.call_method(I1, s1, o1, "fit_transform", *mkargs(), **mkkw())
        I2, s2 = ctx.interp(assume=assume_default), State()
        o2 = ctx.construct(I2, s2, cls_qual, **ctor)
        ctx.call_method(I2, s2, o2, "fit", *mkargs(), **mkkw())
        r2 = ctx.call_method(I2, s2, o2, "transform", *[a for a in mkargs()][:1])
        same = r1 is not None and r2 is not None and N.nf(r1.term) == N.nf(r2.term)
        ctx.ob(rule, f"{cls.name}.fit_transform(X) == fit(X).transform(X) [{cfg}]", same, "equal normal forms" if same else f"fit_transform: {repr(r1.term)[:140] if r1 is not None else None} ; fit().transform(): {repr(r2.term)[:140] if r2 is not None else None}", site, cfg)
        h1, h2 = s1.heap[o1.obj.id], s2.heap[o2.obj.id]
        diffs = sorted(k for k in set(h1) & set(h2) if k.endswith("_") and not k.startswith("_") and h1[k].kind not in ("undef",) and N.nf(h1[k].term) != N.nf(h2[k].term))
        ctx.ob(rule, f"{cls.name}.fit_transform leaves the fitted state of fit [{cfg}]", not diffs, f"attributes that differ: {diffs}" if diffs else "same attributes", site, cfg, nontrivial=False)
