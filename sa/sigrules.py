"""Signature rules: the order of the positional parameters of a public callable is part of its behaviour
(`FPS(5, 3)`, `fit(Knm, Kmm, None, w)`): a reordering keeps every keyword call and every existing test intact
and silently swaps the meaning of a positional one.

Reference for the order: the numpydoc ``Parameters`` section of the callable (for a class: of the class).  On the
pinned tree the documented order and the signature agree everywhere except for the callables in DOC_ORDER_EXCEPTIONS
(confirmed by reading: the documentation lists the same parameters in another order); for those only the sibling
rules apply (public selector classes of the two directions agree with each other and with their base class; `fit` is a
prefix of `fit_transform`).
"""
from __future__ import annotations

import ast
import re

# qualified name -> reason (documentation of the pinned tree lists the parameters in another order than the signature)
DOC_ORDER_EXCEPTIONS = {
    "_PCovCUR": "docstring lists mixing last, signature first",
    "PCovCUR": "docstring lists mixing after tolerance, signature first",
    "Ridge2FoldCV": "docstring lists shuffle / random_state / scoring in another order",
    "global_reconstruction_error": "docstring lists train_idx before test_idx",
    "pointwise_global_reconstruction_error": "docstring lists train_idx before test_idx",
    "pointwise_global_reconstruction_distortion": "docstring lists train_idx before test_idx",
    "global_reconstruction_distortion": "docstring lists train_idx before test_idx",
    "pointwise_local_reconstruction_error": "docstring lists train_idx before test_idx",
    "local_reconstruction_error": "docstring lists train_idx before test_idx",
}


def doc_params(doc):
    """parameter names of the first numpydoc ``Parameters`` section, in documented order (None if there is none)"""
    if not doc:
        return None
    lines = doc.expandtabs().splitlines()
    for i in range(len(lines) - 1):
        if lines[i].strip() == "Parameters" and lines[i + 1].strip() and set(lines[i + 1].strip()) == {"-"}:
            ind = len(lines[i]) - len(lines[i].lstrip())
            out = []
            j = i + 2
            while j < len(lines):
                l = lines[j]
                if l.strip() and len(l) - len(l.lstrip()) == ind:
                    if j + 1 < len(lines) and lines[j + 1].strip() and set(lines[j + 1].strip()) == {"-"}:
                        break  # next section
                    m = re.match(r"\s*([\w, \*]+?)\s*(:|$)", l)
                    if m:
                        out.extend(nm.strip().lstrip("*") for nm in m.group(1).split(","))
                elif l.strip() and len(l) - len(l.lstrip()) < ind:
                    break
                j += 1
            return out
    return None


def positional(fn_node, drop_self):
    a = fn_node.args
    ps = [x.arg for x in a.posonlyargs + a.args]
    return ps[1:] if drop_self and ps else ps


def documented_order(ctx, rule, name, fn_node, doc, site, drop_self=True, config=""):
    """obligation: the positional parameters come in the documented order"""
    sig = positional(fn_node, drop_self)
    if name in DOC_ORDER_EXCEPTIONS:
        return ctx.ob(rule, f"{name}: positional parameter order (documented order differs on the pinned tree: sibling rules only)", True, DOC_ORDER_EXCEPTIONS[name], site, config, nontrivial=False)
    dp = doc_params(doc)
    if dp is None:
        return ctx.ob(rule, f"{name}: positional parameter order (no documented parameter list)", True, "no Parameters section", site, config, nontrivial=False)
    a = [p for p in sig if p in dp]
    b = [p for p in dp if p in sig]
    return ctx.ob(rule, f"{name}: positional parameters come in the documented order", a == b, f"signature {a} ; documented {b}" if a != b else f"{len(a)} parameters", site, config)


def class_signature(ctx, rule, cls, config=""):
    """documented order for the constructor and for every public method with a Parameters section"""
    init = cls.methods.get("__init__")
    if init is not None:
        documented_order(ctx, rule, cls.name, init.node, ast.get_docstring(cls.node, clean=False), ctx.site(init), True, config)
    for mname, m in cls.methods.items():
        if mname.startswith("_"):
            continue
        d = ast.get_docstring(m.node, clean=False)
        if doc_params(d) is not None:
            documented_order(ctx, rule, f"{cls.name}.{mname}", m.node, d, ctx.site(m), True, config)
    # fit is a prefix of fit_transform
    if "fit" in cls.methods and "fit_transform" in cls.methods:
        f, ft = positional(cls.methods["fit"].node, True), positional(cls.methods["fit_transform"].node, True)
        ctx.ob(rule, f"{cls.name}: fit_transform takes the arguments of fit in the same positions", ft[: len(f)] == f, f"fit{tuple(f)} ; fit_transform{tuple(ft)}", ctx.site(cls.methods["fit_transform"]), config)


def function_signature(ctx, rule, fi, config=""):
    documented_order(ctx, rule, fi.node.name, fi.node, ast.get_docstring(fi.node, clean=False), ctx.site(fi), False, config)


def signatures(ctx, rule, classes=(), functions=(), config=""):
    """R-SIG obligations for the named public classes / functions of the property"""
    P = ctx.P
    for q in classes:
        class_signature(ctx, rule, P.cls(q), config)
    for q in functions:
        function_signature(ctx, rule, P.func(q), config)


def selector_siblings(ctx, rule, cname, config=""):
    """the public selector classes of the two directions take the same constructor arguments in the same positions,
    namely those of their shared base class without the leading selection_type"""
    P = ctx.P
    f, s = P.cls(f"skmatter.feature_selection.{cname}"), P.cls(f"skmatter.sample_selection.{cname}")
    base = P.cls(f"skmatter._selection._{cname}")
    pf, ps, pb = (positional(c.methods["__init__"].node, True) for c in (f, s, base))
    ctx.ob(rule, f"{cname}: feature and sample class take the same constructor arguments in the same positions", pf == ps, f"feature{tuple(pf)} ; sample{tuple(ps)}", ctx.site(f.methods["__init__"]), config)
    ctx.ob(rule, f"{cname}: the public constructors follow the order of the shared base class", pf == pb[1:] and ps == pb[1:] and pb[:1] == ["selection_type"], f"base{tuple(pb)}", ctx.site(base.methods["__init__"]), config)
    class_signature(ctx, rule, f, config)
    class_signature(ctx, rule, s, config)
