"""C01 (static conformance): selectors return a consistent set of distinct,
valid indices.

Decided from the source for all selector classes (FPS, CUR, PCov-FPS, PCov-CUR in
both directions, VoronoiFPS), by abstract interpretation against the reference
model ref/selection_ref.py:
 R-SLOT     one selection writes X_selected_/y_selected_/selected_idx_ at the same
            slot (the counter) for the same candidate and then advances the
            counter by one, through every override (R-ONCE);
 R-BUFFERS  cold initialisation allocates, and warm start re-extends, every result
            buffer to the resolved n_to_select on the selection axis (symbolic
            shapes for None / int / float requests); a feature selector stores no
            targets even when it is given some;
 R-EXCL     already selected candidates are masked before the argmax, and the
            threshold logic (absolute / relative) equals the reference; every
            concrete selector class picks with that shared step (an override is
            analysed, not trusted);
 R-TRUNC    on a threshold stop every S-sized buffer is cut to the number of
            selections made - a prefix of the buffer the search filled, not of the
            caller's array - then the support mask is rebuilt;
 R-SUPPORT  support_ = mask of selected_idx_ over the selection axis;
            get_support / transform read exactly that;
 R-RESOLVE  the raw hyper-parameter n_to_select is read only in GreedySelector.fit;
 R-FWD      every public wrapper forwards every constructor parameter by name
            and the literal selection_type of its package.
Not decided: non-NaN scores, user-supplied initialisation indices being valid,
numerical value of thresholds.
"""
from .. import protocols
from ..apitable import shape_of
from ..harness import arr, index, integer, scalar
from .. import tq
from ..interp import State
from ..terms import Dim, T, V, const, vconst

SEARCH_HOOKS = {"_init_greedy_search", "_continue_greedy_search", "_update_post_selection", "_get_best_new_selection", "_postprocess", "_update_hausdorff", "_compute_pi", "_orthogonalize", "_get_active", "score"}
FLOOR = 120

CLASSES = []
for _pkg, _axis, _S in (("feature", 1, "M"), ("sample", 0, "N")):
    for _c in ("FPS", "CUR", "PCovFPS", "PCovCUR"):
        CLASSES.append((f"skmatter.{_pkg}_selection.{_c}", _pkg, _axis, _S))
CLASSES.append(("skmatter.sample_selection.VoronoiFPS", "sample", 0, "N"))


def _pre_state(cq, axis, S, with_y):
    """symbolic fitted state of a selector in the middle of the greedy search"""
    Q = V("int", T("sym", "n_selected"), shape=())
    st = {
        "_axis": axis,
        "n_selected_": Q,
        "selected_idx_": arr("sel", "S", inp=False, dtype="int"),
        "X_selected_": arr("Xsel", "N", "S", inp=False) if axis == 1 else arr("Xsel", "S", "M", inp=False),
        "recompute_every": 0,
        "norms_": arr("norms", S, inp=False),
        "hausdorff_": arr("H", S, inp=False),
        "hausdorff_at_select_": arr("Hsel", S, inp=False),
        "pi_": arr("pi", S, inp=False),
        "pcovr_distance_": arr("Mt", S, S, inp=False),
        "vlocation_of_idx": arr("vloc", "N", inp=False, dtype="int"),
        "dSL_": arr("dSL", "S", inp=False),
        "full_fraction": scalar("ff", 0, 1, True, False),
        "new_dist_": arr("newd", "N", inp=False),
    }
    if with_y and axis == 0:
        st["y_selected_"] = arr("ysel", "S", "P", inp=False)
    return st, Q


def check(ctx):
    P = ctx.P
    N = ctx.normalizer()
    base = P.cls("skmatter._selection.GreedySelector")
    # ---------------- R-SLOT / R-ONCE : one selection, every class -----------------
    for cq, pkg, axis, S in CLASSES:
        cls = P.cls(cq)
        cname = cls.name
        for with_y in ((True, False) if axis == 0 else (False,)):
            cfg = f"{pkg}.{cname} y={'yes' if with_y else 'no'}"
            I, st = ctx.interp(assume=protocols.assume_default), State()
            attrs, Q = _pre_state(cq, axis, S, with_y)
            o = ctx.bare_object(I, st, cls, attrs)
            X, y, l = arr("X", "N", "M"), arr("y", "N", "P"), index("l", S)
            pre = dict(st.heap[o.obj.id])
            ctx.call_method(I, st, o, "_update_post_selection", X, y if (with_y or "PCov" in cname) else vconst(None), l)
            I2, s2 = ctx.interp(), State()
            ref = ctx.call_func(I2, s2, "ref.selection_ref.record_selection", X, y, pre["X_selected_"], pre.get("y_selected_", vconst(None)), pre["selected_idx_"], Q, l, axis, with_y)
            site = ctx.site(P.method(cls, "_update_post_selection"))
            ctx.compare("R-SLOT", f"{pkg}.{cname}: X_selected_[slot] = X[candidate] (y={with_y})", N, ctx.attr(st, o, "X_selected_"), ref.items[0], site, cfg)
            if with_y:
                ctx.compare("R-SLOT", f"{pkg}.{cname}: y_selected_[slot] = y[candidate]", N, ctx.attr(st, o, "y_selected_"), ref.items[1], site, cfg)
            ctx.compare("R-SLOT", f"{pkg}.{cname}: selected_idx_[slot] = candidate (y={with_y})", N, ctx.attr(st, o, "selected_idx_"), ref.items[2], site, cfg)
            ctx.compare("R-ONCE", f"{pkg}.{cname}: one selection advances n_selected_ by exactly one (y={with_y})", N, ctx.attr(st, o, "n_selected_"), ref.items[3], site, cfg)
            ctx.no_shape_conflicts("Shape", f"{pkg}.{cname}._update_post_selection (y={with_y})", I, 0, site, cfg)
    # ---------------- R-BUFFERS : cold allocation, all request kinds ------------------
    for pkg, axis, S in (("feature", 1, "M"), ("sample", 0, "N")):
        if axis == 1:
            # targets handed to a feature selector (PCov selectors use them for the scores) are not stored: there is
            # no per-feature target, and a zero buffer left behind would be padded along the wrong axis by a warm start
            I, st = ctx.interp(), State()
            o = ctx.bare_object(I, st, base, {"_axis": axis})
            ctx.call_method(I, st, o, "_init_greedy_search", arr("X", "N", "M"), arr("y", "N", "P"), integer("S"))
            ys = ctx.attr(st, o, "y_selected_")
            ctx.ob("R-BUFFERS", "feature: no y_selected_ buffer although targets are given", ys is None or ys.kind == "undef", f"y_selected_ = {ys!r}", ctx.site(P.method(base, "_init_greedy_search")), "feature y=given")
        for with_y in ((True, False) if axis == 0 else (False,)):
            I, st = ctx.interp(), State()
            o = ctx.bare_object(I, st, base, {"_axis": axis})
            X, y, n = arr("X", "N", "M"), arr("y", "N", "P"), integer("S")
            ctx.call_method(I, st, o, "_init_greedy_search", X, y if with_y else vconst(None), n)
            I2, s2 = ctx.interp(), State()
            ref = ctx.call_func(I2, s2, "ref.selection_ref.init_buffers", X, y, n, axis, with_y)
            site = ctx.site(P.method(base, "_init_greedy_search"))
            cfg = f"{pkg} y={with_y}"
            ctx.compare("R-BUFFERS", f"{pkg}: cold X_selected_ buffer (y={with_y})", N, ctx.attr(st, o, "X_selected_"), ref.items[0], site, cfg)
            ctx.shape_is("R-BUFFERS", f"{pkg}: X_selected_ has extent n_to_select on the selection axis (y={with_y})", ctx.attr(st, o, "X_selected_"), ("N", "S") if axis == 1 else ("S", "M"), site, cfg)
            ctx.shape_is("R-BUFFERS", f"{pkg}: selected_idx_ has n_to_select entries (y={with_y})", ctx.attr(st, o, "selected_idx_"), ("S",), site, cfg)
            ns = ctx.attr(st, o, "n_selected_")
            ctx.ob("R-BUFFERS", f"{pkg}: cold start resets the counter (y={with_y})", ns is not None and ns.has_const and ns.const == 0, f"n_selected_ = {ns!r}", site, cfg)
            if with_y:
                ctx.shape_is("R-BUFFERS", f"{pkg}: y_selected_ buffer (n_to_select, n_targets)", ctx.attr(st, o, "y_selected_"), ("S", "P"), site, cfg)
            else:
                ys = ctx.attr(st, o, "y_selected_")
                ctx.ob("R-BUFFERS", f"{pkg}: no y_selected_ buffer without targets", ys is None or ys.kind == "undef", f"y_selected_ = {ys!r}", site, cfg)
            # cold initialisation of a previously fitted object: every piece of search state restarts
            for cq2, pkg2, axis2, S2 in CLASSES:
                if axis2 != axis:
                    continue
                cls2 = P.cls(cq2)
                I, st = ctx.interp(assume=protocols.assume_default, stubs={f"{c.name}._update_post_selection": (lambda i_, c_, a_, k_, s_, n_: vconst(None)) for c in cls2.mro() if hasattr(c, "methods") and "_update_post_selection" in getattr(c, "methods", {})}), State()
                from .C08 import _fitted_state

                stale = {k: v for k, v in _fitted_state(cls2.name, axis, S2).items() if isinstance(v, V)}
                stale = {k: (arr("stale_" + k, *[repr(d) for d in v.shape], inp=False, dtype=v.extra if isinstance(v.extra, str) else None) if v.shape not in (None, ()) else v) for k, v in stale.items()}
                stale.update({"first_score_": scalar("stale_first"), "n_selected_": integer("stale_n"), "_axis": axis, "mixing": scalar("alpha", 0, 1, False, True), "k": 1, "random_state": 0, "initialize": 0, "tolerance": 1e-12, "recompute_every": 1, "n_trial_calculation": 4, "full_fraction": scalar("ff", 0, 1, True, False), "score_threshold": scalar("thr"), "score_threshold_type": "relative"})
                if with_y and axis == 0:
                    stale["y_selected_"] = arr("stale_ysel", "S0", "P", inp=False)
                else:
                    stale.pop("y_selected_", None)
                o = ctx.bare_object(I, st, cls2, stale)
                ctx.call_method(I, st, o, "_init_greedy_search", X, y if (with_y or "PCov" in cls2.name) else vconst(None), n)
                heap = st.heap[o.obj.id]
                leftovers = sorted(k for k, v in heap.items() if v.kind not in ("undef",) and k.endswith("_") and k not in ("support_", "new_dist_") and any(x.op == "sym" and str(x.args[0]).startswith("stale_") for x in tq.walk_all(v.term)))
                ctx.ob("R-BUFFERS", f"{pkg}.{cls2.name}: cold initialisation leaves no search state of the previous fit (y={with_y})", not leftovers, f"attributes still holding values of the previous fit: {leftovers}", ctx.site(P.method(cls2, "_init_greedy_search")), f"{pkg}.{cls2.name} y={with_y}")
            warm_buffers(ctx, N, pkg, axis, S, with_y)
    # ---------------- R-EXCL / threshold -----------------------------------------------
    for ttype in ("absolute", "relative"):
        for thr in (None, "set"):
            for first in (None, "set"):
                if thr is None and first == "set":
                    continue
                I, st = ctx.interp(), State()
                scores = arr("scores", "S0")  # the scorer's own storage: origin ('in', 'scores')
                thr_v = vconst(None) if thr is None else scalar("thr")
                first_v = vconst(None) if first is None else scalar("first")
                sel, Q = arr("sel", "S", inp=False, dtype="int"), integer("Q")
                o = ctx.bare_object(I, st, base, {"score_threshold": thr_v, "selected_idx_": sel, "n_selected_": Q, "first_score_": first_v, "score_threshold_type": ttype})

                def scorer(interp, args, kw, st_, node, scores=scores):
                    return scores

                sc = V("func", T("scorer"), func=("builtin", scorer, "scorer"))
                r = ctx.call_method(I, st, o, "_get_best_new_selection", sc, arr("X", "N", "M"), arr("y", "N", "P"))
                I2, s2 = ctx.interp(), State()
                ref = ctx.call_func(I2, s2, "ref.selection_ref.best_new_selection", scores, sel, Q, thr_v, ttype, first_v)
                cfg = f"threshold={thr} type={ttype} first_score={first}"
                ctx.compare("R-EXCL", f"_get_best_new_selection == reference [{cfg}]", N, r, ref, ctx.site(P.method(base, "_get_best_new_selection")), cfg)
                muts = [e for e in I.events if e["kind"] == "mutate" and e["target"].term == scores.term]
                hits = [e for e in I.events if e["kind"] == "mutate" and ("in", "scores") in e["target"].orig]
                ctx.ob("R-EXCL", f"the scorer's own table is not modified by the mask [{cfg}]", not hits, f"in-place write into the scorer's table: `{hits[0].get('src')}`" if hits else "mask applied to a copy", ctx.site(P.method(base, "_get_best_new_selection")), cfg)
    from .C02 import pick_rule

    pick_rule(ctx, N, "R-EXCL", ("CUR", "PCovCUR", "FPS", "PCovFPS", "VoronoiFPS"))
    # ---------------- fit level: resolution, truncation, support --------------------------
    _fit_level(ctx, N)
    _support(ctx, N)
    _forwarding(ctx)
    _initial_picks(ctx, N)


def _fit_level(ctx, N):
    P = ctx.P
    base = P.cls("skmatter._selection.GreedySelector")
    fit_m = P.method(base, "fit")
    site = ctx.site(fit_m)
    # a single target given as a vector (the layout sklearn's validation hands over): stored as one column
    for cq, pkg, axis, S in CLASSES:
        cls = P.cls(cq)
        cname = cls.name
        if not ("PCov" in cname or axis == 0):
            continue
        ctor1 = {"n_to_select": integer("S")}
        if "PCov" in cname:
            ctor1["mixing"] = scalar("alpha", 0, 1, False, True)
        if cname == "VoronoiFPS":
            ctor1["full_fraction"] = scalar("ff", 0, 1, True, False)
        I1 = ctx.interp(order=[("S", "<=", S)], assume=protocols.assume_default)
        s1 = State()
        o1 = ctx.construct(I1, s1, cls, **ctor1)
        lo1 = len(I1.events)
        ctx.call_method(I1, s1, o1, "fit", arr("X", "N", "M"), arr("y", "N"))
        cfg1 = f"{pkg}.{cname} 1-D y"
        ctx.no_shape_conflicts("Shape", f"{cfg1}: whole fit", I1, lo1, site, cfg1)
        if axis == 0:
            ctx.shape_is("R-BUFFERS", f"{cfg1}: y_selected_ holds one column", ctx.attr(s1, o1, "y_selected_"), ("S", 1), site, cfg1)
        # the PCov variants see the target as an (n, 1) matrix (they form y y^T)
        if cname == "PCovCUR":
            ctx.shape_is("R-BUFFERS", f"{cfg1}: the target residual is an (n, 1) matrix", ctx.attr(s1, o1, "y_current_"), ("N", 1), site, cfg1)
        if cname == "PCovFPS":
            y2 = V("arr", T("reshape1", T("sym", "y"), T("dim", Dim.of("N")), T("const", __import__("fractions").Fraction(1))), shape=(Dim.of("N"), Dim(1)), orig=frozenset([("fresh",)]), loc=0)
            I2r, s2r = ctx.interp(), State()
            fn = "skmatter.utils.pcovr_covariance" if axis == 1 else "skmatter.utils.pcovr_kernel"
            refd = ctx.call_func(I2r, s2r, fn, ctor1["mixing"], arr("X", "N", "M"), y2)
            ctx.compare("R-BUFFERS", f"{cfg1}: PCov distance matrix built from the target as an (n, 1) matrix", N, ctx.attr(s1, o1, "pcovr_distance_"), refd, site, cfg1)
    for cq, pkg, axis, S in CLASSES:
        cls = P.cls(cq)
        cname = cls.name
        for kind in ("none", "int", "npint", "float"):
            ctor = {}
            if "PCov" in cname:
                ctor["mixing"] = scalar("alpha", 0, 1, False, True)
            if kind in ("int", "npint"):
                # (npint: a count taken from numpy, e.g. an element of np.arange - integral, not a builtin int)
                ctor["n_to_select"] = integer("S", labels=("numpy-scalar",) if kind == "npint" else ())
                order = [("S", "<=", S)]
            elif kind == "float":
                ctor["n_to_select"] = scalar("frac", 0, 1, True, False)
                order = []
            else:
                order = []
            if cname == "VoronoiFPS":
                ctor["full_fraction"] = scalar("ff", 0, 1, True, False)
            ctor["score_threshold"] = scalar("thr")
            I = ctx.interp(order=order, assume=protocols.assume_default)
            st = State()
            o = ctx.construct(I, st, cls, **ctor)
            X, y = arr("X", "N", "M"), arr("y", "N", "P")
            lo = len(I.events)
            if "PCov" in cname or axis == 0:
                ctx.call_method(I, st, o, "fit", X, y)
            else:
                ctx.call_method(I, st, o, "fit", X)
            cfg = f"{pkg}.{cname} n_to_select={kind}"
            ctx.no_shape_conflicts("Shape", f"{cfg}: whole fit", I, lo, site, cfg)
            # both validation paths of fit (with and without targets) convert X to floating point before
            # any arithmetic: integer input must not be squared / orthogonalised in its own dtype
            vals = [e for e in I.events[lo:] if e["kind"] == "validate" and e.get("short") == "GreedySelector.fit" and e.get("source") is not None and any(o_[0] == "in" for o_ in (e["source"].orig or ()))]
            ctx.ob("R-FWD", f"{cfg}: fit validates X with a floating-point dtype on this path", any(e.get("dtype") and "FLOAT" in e["dtype"].upper() for e in vals), f"validation calls: {[(e['fn'], e.get('dtype')) for e in vals]}", site, cfg)
            # R-RESOLVE
            # the raw hyper-parameter (None / int / fraction) is resolved once, before the search starts: no read
            # of it inside the search hooks (initialisation, continuation, scoring, bookkeeping)
            raw = [e for e in I.events[lo:] if e["kind"] == "getattr" and e["attr"] == "n_to_select" and e.get("obj") is o.obj and any(s_.rsplit(".", 1)[-1] in SEARCH_HOOKS for s_ in list(e.get("stack") or []) + [e.get("short") or ""])]
            ctx.ob("R-RESOLVE", f"{cfg}: raw n_to_select read only while the request is resolved, never inside the search hooks", not raw, f"raw hyper-parameter read in {sorted({e['short'] for e in raw})}: `{raw[0]['src']}`" if raw else "only the resolution site reads it", f"{raw[0]['func']}:{raw[0]['line']}" if raw else site, cfg)
            # resolved extent of the buffers
            from ..apitable import dim_of  # noqa

            want = {"none": Dim.of(S).floordiv(2), "int": Dim.of("S"), "npint": Dim.of("S"), "float": None}[kind]
            inits = [e for e in I.events[lo:] if e["kind"] == "setattr" and e["attr"] == "selected_idx_" and e.get("short") == "GreedySelector._init_greedy_search"]
            if ctx.ob("R-BUFFERS", f"{cfg}: buffers allocated once by the base initialiser", len(inits) == 1, f"{len(inits)} allocations", site, cfg):
                sh = shape_of(inits[0]["value"])
                if want is not None:
                    ctx.ob("R-BUFFERS", f"{cfg}: buffer extent is the resolved request", sh is not None and sh[0] == want, f"extent {sh} expected ({want},)", site, cfg)
                else:
                    t = repr(inits[0]["value"].term)
                    # the extent of the buffer is the opaque integer int(n_candidates * fraction): find that
                    # integer in the allocation and compare it with the reference resolution exactly
                    I2r, s2r = ctx.interp(), State()
                    refn = ctx.call_func(I2r, s2r, "ref.selection_ref.resolve_n_to_select", ctor["n_to_select"], integer(S), "float")
                    ints = [x for x in tq.walk_all(inits[0]["value"].term) if getattr(x, "op", None) == "int"]
                    ok_n = bool(ints) and all(N.nf(x) == N.nf(refn.term) for x in ints)
                    ctx.ob("R-BUFFERS", f"{cfg}: buffer extent is int(n_candidates * fraction)", ok_n and tq.has_sym(inits[0]["value"].term, "frac") and tq.has_size(inits[0]["value"].term, S), f"extent term {t[:200]} ; expected {refn.term!r}", site, cfg)
            # R-TRUNC: the early return inside the greedy loop
            # the threshold exit of the greedy loop: an early `return self` or a `break` (the state at that
            # point is what the truncation obligations are about)
            rets = [e for e in I.events[lo:] if e["kind"] in ("return", "break") and e.get("short") == "GreedySelector.fit" and e.get("loop_depth", 0) > 0 and not e.get("probing")]
            if not ctx.ob("R-TRUNC", f"{cfg}: threshold exit found inside the greedy loop", len(rets) == 1, f"{len(rets)} early exits", site, cfg):
                continue
            snap = rets[0]["state"]
            heap = snap.heap[o.obj.id]
            nsel = heap["n_selected_"]
            if rets[0]["kind"] == "return":
                r = rets[0]["value"]
                ctx.ob("R-SELF", f"{cfg}: threshold exit returns self", r.kind == "obj" and r.obj is o.obj, f"returns {r!r}", site, cfg, nontrivial=False)
            else:
                # the shared tail after the loop rebuilds the support mask: look at it in the final state
                heap = dict(heap)
                fin = st.heap[o.obj.id]
                heap["support_"] = fin.get("support_")
                heap["__final_selected_idx__"] = fin.get("selected_idx_")
            bufs = ["selected_idx_", "X_selected_"] + (["y_selected_"] if "y_selected_" in heap and heap["y_selected_"].kind not in ("undef",) else [])
            for b in bufs:
                v = heap[b]
                if v.kind == "maybe":
                    v = v.items[0]
                bound = _trunc_bound(v.term)
                ok = bound is not None and N.nf(bound) == N.nf(nsel.term)
                ctx.ob("R-TRUNC", f"{b} cut to n_selected_ on a threshold stop", ok, f"bound of the cut is {bound!r}, number of selections is {nsel.term!r}", f"{rets[0]['func']}:{rets[0]['line']}", cfg)
                # ... and what is cut is the buffer the search filled, not the input in its own order
                src_in = sorted(o_[1] for o_ in v.orig if isinstance(o_, tuple) and o_[0] == "in")
                base_t = v.term.args[0] if v.term.op == "getitem" else None
                ctx.ob("R-TRUNC", f"{b} on a threshold stop is a prefix of the buffer the search filled", not src_in and not (base_t is not None and base_t.op == "sym" and base_t.args[0] in ("X", "y")), f"a view of the caller's {src_in or [base_t.args[0]]}: {repr(v.term)[:120]}" if (src_in or (base_t is not None and base_t.op == 'sym' and base_t.args[0] in ('X', 'y'))) else "selection-ordered buffer", f"{rets[0]['func']}:{rets[0]['line']}", cfg)
                if b == "X_selected_" and bound is not None:
                    cut_axis = _trunc_axis(v.term)
                    ctx.ob("R-TRUNC", f"X_selected_ is cut along the selection axis on a threshold stop [{cfg}]", cut_axis == axis, f"cut along axis {cut_axis}, selection axis {axis}", f"{rets[0]['func']}:{rets[0]['line']}", cfg)
            sup = heap.get("support_")
            sel = heap.get("__final_selected_idx__") or heap["selected_idx_"]
            ok = sup is not None and sup.kind != "undef" and sup.term.op == "store" and N.nf(sup.term.args[1]) == N.nf(sel.term)
            ctx.ob("R-TRUNC", f"{cfg}: support mask rebuilt from the truncated index list", ok, f"support_ = {None if sup is None else repr(sup.term)[:200]}", site, cfg)


def _trunc_bound(t):
    """bound n of a prefix cut  a[:n]  /  take(a, arange(n), axis)"""
    if t.op != "getitem":
        return None
    idx = t.args[1]
    if idx.op == "tuple":
        cands = [x for x in idx.args if not (x.op == "slice" and all(a.op == "const" and a.args[0] is None for a in x.args))]
        if len(cands) != 1:
            return None
        idx = cands[0]
    if idx.op == "slice":
        lo, hi, step = idx.args
        if lo.op == "const" and lo.args[0] in (None, 0) and step.op == "const" and step.args[0] in (None, 1):
            return hi
        return None
    if idx.op == "lt" and len(idx.args) == 2 and getattr(idx.args[0], "op", None) == "arange" and len(idx.args[0].args) == 1:
        return idx.args[1]  # a[np.arange(len(a)) < n]: the prefix of length n, by mask
    if idx.op == "arange" and len(idx.args) == 1:
        b = idx.args[0]
        if b.op == "dim" and len(b.args[0].lin) == 1 and b.args[0].c == 0:
            (atom, k), = b.args[0].lin
            if k == 1 and isinstance(atom, tuple) and atom[0] == "t":
                return atom[1]
        return b
    if idx.op == "call" and idx.args[0] == "arange" and len(idx.args[1]) == 1:
        return idx.args[1][0]
    return None


def _trunc_axis(t):
    """axis of the prefix cut found by _trunc_bound"""
    idx = t.args[1]
    if idx.op != "tuple":
        return 0
    for k, x in enumerate(idx.args):
        if not (x.op == "slice" and all(a.op == "const" and a.args[0] is None for a in x.args)):
            return k
    return None


def warm_buffers(ctx, N, pkg, axis, S, with_y):
    """warm start: every result buffer is re-extended to the new request keeping the selected prefix
    (shared with C08: the stored data of a warm-started fit is the cold one's)"""
    P = ctx.P
    base = P.cls("skmatter._selection.GreedySelector")
    X, y, n = arr("X", "N", "M"), arr("y", "N", "P"), integer("S")
    cfg = f"{pkg} y={with_y}"
    # warm start re-extension
    I, st = ctx.interp(), State()
    attrs, Q = _pre_state("", axis, S, with_y)
    attrs["n_selected_"] = integer("Q")
    attrs["selected_idx_"] = arr("sel", "Q", inp=False, dtype="int")
    attrs["X_selected_"] = arr("Xsel", "N", "Q", inp=False) if axis == 1 else arr("Xsel", "Q", "M", inp=False)
    if with_y:
        attrs["y_selected_"] = arr("ysel", "Q", "P", inp=False)
    o = ctx.bare_object(I, st, base, attrs)
    ctx.call_method(I, st, o, "_continue_greedy_search", X, y if with_y else vconst(None), n)
    I2, s2 = ctx.interp(), State()
    ref = ctx.call_func(I2, s2, "ref.selection_ref.continue_buffers", attrs["X_selected_"], attrs.get("y_selected_", vconst(None)), attrs["selected_idx_"], attrs["n_selected_"], n, axis, with_y)
    site = ctx.site(P.method(base, "_continue_greedy_search"))
    ctx.compare("R-BUFFERS", f"{pkg}: warm start pads X_selected_ on the selection axis keeping the prefix (y={with_y})", N, ctx.attr(st, o, "X_selected_"), ref.items[0], site, cfg)
    ctx.shape_is("R-BUFFERS", f"{pkg}: padded X_selected_ extent = new n_to_select (y={with_y})", ctx.attr(st, o, "X_selected_"), ("N", "S") if axis == 1 else ("S", "M"), site, cfg)
    if with_y:
        ctx.compare("R-BUFFERS", f"{pkg}: warm start pads y_selected_", N, ctx.attr(st, o, "y_selected_"), ref.items[1], site, cfg)
        ctx.shape_is("R-BUFFERS", f"{pkg}: padded y_selected_ extent", ctx.attr(st, o, "y_selected_"), ("S", "P"), site, cfg)
    ctx.compare("R-BUFFERS", f"{pkg}: warm start keeps the selected prefix of selected_idx_ (y={with_y})", N, ctx.attr(st, o, "selected_idx_"), ref.items[2], site, cfg)
    ctx.no_shape_conflicts("Shape", f"{pkg}: _continue_greedy_search (y={with_y})", I, 0, site, cfg)


def _support(ctx, N):
    P = ctx.P
    base = P.cls("skmatter._selection.GreedySelector")
    for pkg, axis, S in (("feature", 1, "M"), ("sample", 0, "N")):
        I, st = ctx.interp(), State()
        sel = arr("sel", "Q", inp=False, dtype="int")
        o = ctx.bare_object(I, st, base, {"_axis": axis, "selected_idx_": sel, "n_selected_": integer("Q")})
        X = arr("X", "N", "M")
        ctx.call_method(I, st, o, "_postprocess", X, arr("y", "N", "P"))
        I2, s2 = ctx.interp(), State()
        ref = ctx.call_func(I2, s2, "ref.selection_ref.support_mask", X, sel, axis)
        site = ctx.site(P.method(base, "_postprocess"))
        ctx.compare("R-SUPPORT", f"{pkg}: support_ marks exactly selected_idx_ over the selection axis", N, ctx.attr(st, o, "support_"), ref, site, pkg)
        ctx.shape_is("R-SUPPORT", f"{pkg}: support_ length = size of the selection axis", ctx.attr(st, o, "support_"), (S,), site, pkg)
        # the same on a selector that still holds the mask of an earlier fit (same or other length)
        for stale_len in (S, "S0"):
            Is, ss = ctx.interp(), State()
            os_ = ctx.bare_object(Is, ss, base, {"_axis": axis, "selected_idx_": sel, "n_selected_": integer("Q"), "support_": arr("stale_support", stale_len, inp=False, dtype="bool")})
            ctx.call_method(Is, ss, os_, "_postprocess", X, arr("y", "N", "P"))
            ctx.compare("R-SUPPORT", f"{pkg}: support_ is rebuilt from selected_idx_ alone on a refitted selector (earlier mask of length {stale_len})", N, ctx.attr(ss, os_, "support_"), ref, site, f"{pkg} stale mask {stale_len}")
        sup = ctx.attr(st, o, "support_")
        r = ctx.call_method(I, st, o, "get_support")
        ctx.ob("R-SUPPORT", f"{pkg}: get_support() returns support_", r.term == sup.term, f"{r.term!r}", ctx.site(P.method(base, "get_support")), pkg)
        r = ctx.call_method(I, st, o, "get_support", indices=True, ordered=True)
        ctx.ob("R-SUPPORT", f"{pkg}: get_support(indices, ordered) returns selected_idx_", r.term == sel.term, f"{r.term!r}", ctx.site(P.method(base, "get_support")), pkg)
        r = ctx.call_method(I, st, o, "get_support", indices=True)
        ctx.ob("R-SUPPORT", f"{pkg}: get_support(indices) is sorted(selected_idx_)", N.nf(r.term) == N.nf(T("sorted", sel.term)), f"{r.term!r}", ctx.site(P.method(base, "get_support")), pkg)
        # the readers leave the fitted state as it is (the selection order in particular)
        after_sel, after_sup = ctx.attr(st, o, "selected_idx_"), ctx.attr(st, o, "support_")
        ctx.ob("R-SUPPORT", f"{pkg}: get_support leaves selected_idx_ and support_ untouched", after_sel is not None and after_sel.term == sel.term and after_sup is not None and after_sup.term == sup.term, f"selected_idx_ = {None if after_sel is None else repr(after_sel.term)[:80]}; support_ = {None if after_sup is None else repr(after_sup.term)[:80]}", ctx.site(P.method(base, "get_support")), pkg)
    # transform (feature selection): columns of the mask
    I, st = ctx.interp(), State()
    sup = arr("support", "M", inp=False, dtype="bool")
    o = ctx.bare_object(I, st, base, {"_axis": 1, "selected_idx_": arr("sel", "Q", inp=False, dtype="int"), "n_selected_": integer("Q"), "support_": sup})
    Xt = arr("Xt", "V", "M")
    r = ctx.call_method(I, st, o, "transform", Xt)
    want = T("getitem", Xt.term, T("tuple", T("slice", const(None), const(None), const(None)), sup.term))
    ctx.ob("R-SUPPORT", "transform returns exactly the masked columns", N.nf(r.term) == N.nf(want), f"returns {r.term!r}", ctx.site(ctx.P.method(base, "transform")))
    ctx.no_shape_conflicts("Shape", "transform on held-out rows", I, 0, ctx.site(ctx.P.method(base, "transform")))


def _initial_picks(ctx, N):
    """FPS-type selectors started from a list of picks: the picks are recorded like selections - stored data,
    stored targets, indices and the counter (ref/selection_ref.py prefix_init)"""
    P = ctx.P
    for cq, pkg, axis, S in CLASSES:
        cls = P.cls(cq)
        if cls.name != "FPS":
            continue  # PCov-FPS and Voronoi FPS document an integer or 'random' start only
        for with_y in ((True, False) if (axis == 0 or "PCov" in cls.name) else (False,)):
            cfg = f"{pkg}.{cls.name} initialize=[i0,i1] y={'yes' if with_y else 'no'}"
            if "PCov" in cls.name and not with_y:
                continue
            I, st = ctx.interp(order=[("S", "<=", S)], assume=protocols.assume_default), State()
            ctor = {"n_to_select": integer("S")}
            if "PCov" in cls.name:
                ctor["mixing"] = scalar("alpha", 0, 1, False, True)
            o = ctx.construct(I, st, cls, **ctor)
            i0, i1 = index("i0", S), index("i1", S)
            st.heap[o.obj.id]["_axis"] = vconst(axis)
            st.heap[o.obj.id]["initialize"] = I.mk_list([i0, i1])
            X, y = arr("X", "N", "M"), arr("y", "N", "P")
            yv = y if with_y else vconst(None)
            nreq = integer("S")
            ctx.call_method(I, st, o, "_init_greedy_search", X, yv, nreq)
            stored_y = with_y and axis == 0
            I2, s2 = ctx.interp(), State()
            ref = ctx.call_func(I2, s2, "ref.selection_ref.prefix_init", X, yv if stored_y else vconst(None), i0, i1, nreq, axis, stored_y)
            site = ctx.site(P.method(cls, "_init_greedy_search"))
            ctx.compare("R-SLOT", f"{cfg}: X_selected_ holds the data of the initial picks in order", N, ctx.attr(st, o, "X_selected_"), ref.items[0], site, cfg)
            if stored_y:
                ctx.compare("R-SLOT", f"{cfg}: y_selected_ holds the targets of the initial picks in order", N, ctx.attr(st, o, "y_selected_"), ref.items[1], site, cfg)
            ctx.compare("R-SLOT", f"{cfg}: selected_idx_ holds the initial picks in order", N, ctx.attr(st, o, "selected_idx_"), ref.items[2], site, cfg)
            ctx.compare("R-ONCE", f"{cfg}: the counter equals the number of initial picks", N, ctx.attr(st, o, "n_selected_"), ref.items[3], site, cfg)


def _forwarding(ctx, rule="R-FWD", classes=("FPS", "CUR", "PCovFPS", "PCovCUR"), only=None):
    """every public wrapper hands every constructor parameter (or the ones in `only`) to the shared base class under its own name"""
    P = ctx.P
    for pkg in ("feature", "sample"):
        for cname in classes:
            cls = P.cls(f"skmatter.{pkg}_selection.{cname}")
            init = cls.methods.get("__init__")
            site = ctx.site(init) if init else cls.qual
            params = init.params()[1:] if init else []
            I, st = ctx.interp(), State()
            kwargs = {p: scalar(f"param_{p}") for p in params if p not in ("score_threshold_type", "mixing")}
            kwargs["score_threshold_type"] = "relative"
            if "mixing" in params:
                kwargs["mixing"] = scalar("param_mixing", 0, 1, False, True)
            o = ctx.construct(I, st, cls, **kwargs)
            heap = st.heap[o.obj.id]
            bad = []
            for p in params:
                if only is not None and p not in only:
                    continue
                v = heap.get(p)
                if v is None or v.term != kwargs[p].term if isinstance(kwargs[p], V) else (v is None or not v.has_const or v.const != kwargs[p]):
                    bad.append(p)
            what = "every constructor parameter" if only is None else "/".join(p for p in params if p in only)
            ctx.ob(rule, f"{pkg}.{cname} forwards {what} by name", not bad, f"parameters not stored under their own name: {bad}" if bad else f"{len(params) if only is None else len([p for p in params if p in only])} parameters", site, pkg)
            stv = heap.get("selection_type")
            ctx.ob(rule, f"{pkg}.{cname} passes selection_type='{pkg}'", stv is not None and stv.has_const and stv.const == pkg, f"selection_type = {stv!r}", site, pkg)
    from ..sigrules import selector_siblings, signatures

    for cname in classes:
        selector_siblings(ctx, rule, cname)
    if rule != "R-FWD":
        return
    signatures(ctx, rule, classes=("skmatter.sample_selection.VoronoiFPS",))
    cls = P.cls("skmatter.sample_selection.VoronoiFPS")
    I, st = ctx.interp(), State()
    kw = {p: scalar(f"param_{p}") for p in ("n_trial_calculation", "full_fraction", "initialize", "n_to_select", "score_threshold", "progress_bar", "full", "random_state")}
    o = ctx.construct(I, st, cls, **kw)
    heap = st.heap[o.obj.id]
    bad = [p for p in kw if heap.get(p) is None or heap[p].term != kw[p].term]
    ctx.ob("R-FWD", "VoronoiFPS forwards every constructor parameter by name", not bad, f"{bad}", ctx.site(cls.methods["__init__"]))
    stv = heap.get("selection_type")
    ctx.ob("R-FWD", "VoronoiFPS passes selection_type='sample'", stv is not None and stv.has_const and stv.const == "sample", f"{stv!r}", ctx.site(cls.methods["__init__"]))
