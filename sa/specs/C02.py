"""C02 (static conformance): FPS / PCov-FPS distance bookkeeping.

Decided from the source (no execution): for both selection directions the
distance update of _FPS / _PCovFPS / (full arm of) VoronoiFPS is, modulo ring
axioms, the documented |x_j|^2 + |x_l|^2 - 2<x_j,x_l> with the norms defined as
the squared norms along the non-selection axis (resp. the diagonal of the
PCovR-modified matrix built by pcovr_covariance / pcovr_kernel from (mixing, X,
y) in that role order); the selection distance is recorded before the running
minimum is written back into the table; the table has the length of the
selection axis; score()/get_distance() return that table; the next pick is the
argmax of it; every initial index passes through the same update.  Not decided:
rounding, ties, cancellation, correctness of eigh/randomized_svd inside
pcovr_covariance.
"""
from ..harness import arr, index, integer, scalar
from .. import tq
from ..interp import State
from ..terms import Dim, T, const, vconst

FLOOR = 30

DIRS = [("feature", 1, "M"), ("sample", 0, "N")]


def check(ctx):
    P = ctx.P
    N = ctx.normalizer()
    # the requested start reaches the search: the public classes hand `initialize` / `random_state` on unchanged
    from .C01 import _forwarding

    _forwarding(ctx, rule="R-INIT", classes=("FPS", "PCovFPS"), only=("initialize", "random_state", "mixing"))
    for pkg, axis, S in DIRS:
        cfg = f"{pkg} axis={axis}"
        # ---------------- plain FPS --------------------------------------
        cls = P.cls(f"skmatter.{pkg}_selection.FPS")
        # one selection step (the shared bookkeeping of the base class is C01's subject and is stubbed out)
        base_noop = {"GreedySelector._update_post_selection": (lambda i_, c_, a_, k_, s_, n_: vconst(None))}
        for meth in ("_update_post_selection",):
            I = ctx.interp(stubs=base_noop)
            st = State()
            X = arr("X", "N", "M")
            y = arr("y", "N", "P")
            l = index("l", S)
            norms, H, Hs = arr("norms", S, inp=False), arr("H", S, inp=False), arr("Hsel", S, inp=False)
            o = ctx.bare_object(I, st, cls, {"_axis": axis, "norms_": norms, "hausdorff_": H, "hausdorff_at_select_": Hs})
            m = P.method(cls, meth)
            ctx.call_method(I, st, o, meth, X, y, l)
            st2 = State()
            I2 = ctx.interp()
            ref = ctx.call_func(I2, st2, "ref.selection_ref.fps_update", X, norms, H, Hs, l, axis)
            site = ctx.site(m)
            ctx.compare("NF-DIST", f"FPS.{pkg}.hausdorff_", N, ctx.attr(st, o, "hausdorff_"), ref.items[1], site, cfg)
            ctx.compare("R-RUNMIN", f"FPS.{pkg}.hausdorff_at_select_ recorded before update", N, ctx.attr(st, o, "hausdorff_at_select_"), ref.items[0], site, cfg)
            ctx.no_shape_conflicts("Shape", f"FPS.{pkg}._update_hausdorff", I, 0, site, cfg)
            ctx.shape_is("Shape", f"FPS.{pkg}.hausdorff_ length = selection axis", ctx.attr(st, o, "hausdorff_"), (S,), site, cfg)
        _init_checks(ctx, N, cls, pkg, axis, S, "FPS", pcov=False)
        _score_checks(ctx, N, cls, pkg, axis, S, "FPS")
        # ---------------- PCov-FPS ------------------------------------------
        cls = P.cls(f"skmatter.{pkg}_selection.PCovFPS")
        I = ctx.interp(stubs=base_noop)
        st = State()
        X = arr("X", "N", "M")
        y = arr("y", "N", "P")
        l = index("l", S)
        norms, H, Hs, Mx = arr("norms", S, inp=False), arr("H", S, inp=False), arr("Hsel", S, inp=False), arr("Mt", S, S, inp=False)
        o = ctx.bare_object(I, st, cls, {"_axis": axis, "norms_": norms, "hausdorff_": H, "hausdorff_at_select_": Hs, "pcovr_distance_": Mx})
        m = P.method(cls, "_update_hausdorff")
        ctx.call_method(I, st, o, "_update_post_selection", X, y, l)
        I2, st2 = ctx.interp(), State()
        ref = ctx.call_func(I2, st2, "ref.selection_ref.pcov_fps_update", Mx, norms, H, Hs, l, axis)
        site = ctx.site(m)
        ctx.compare("NF-DIST", f"PCovFPS.{pkg}.hausdorff_", N, ctx.attr(st, o, "hausdorff_"), ref.items[1], site, cfg)
        ctx.compare("R-RUNMIN", f"PCovFPS.{pkg}.hausdorff_at_select_ recorded before update", N, ctx.attr(st, o, "hausdorff_at_select_"), ref.items[0], site, cfg)
        ctx.no_shape_conflicts("Shape", f"PCovFPS.{pkg}._update_hausdorff", I, 0, site, cfg)
        _init_checks(ctx, N, cls, pkg, axis, S, "PCovFPS", pcov=True)
        _score_checks(ctx, N, cls, pkg, axis, S, "PCovFPS")
    _argmax_check(ctx)
    _shared(ctx, N)
    pick_rule(ctx, N, "R-ARGMAX", ("FPS", "PCovFPS"))
    # PCov-FPS measures distances in the PCovR-modified covariance / Gram matrix: those two functions
    # equal their documented formulas (shared with C03 / C04)
    from . import pcovr_common as pc

    pc.gram_cov(ctx, N, "NF-DIST")


def _score_checks(ctx, N, cls, pkg, axis, S, name, rule="R-ARGMAX"):
    """the readers of the distance tables return the tables (shared with C06 for VoronoiFPS)"""
    P = ctx.P
    for meth in ("score", "get_distance"):
        I, st = ctx.interp(), State()
        H = arr("H", S, inp=False)
        o = ctx.bare_object(I, st, cls, {"_axis": axis, "hausdorff_": H})
        args = (arr("X", "N", "M"), arr("y", "N", "P")) if meth == "score" else ()
        r = ctx.call_method(I, st, o, meth, *args)
        ctx.ob(rule, f"{name}.{pkg}.{meth} returns the distance table", r.term == H.term, f"returns {r.term!r}", ctx.site(P.method(cls, meth)), f"{pkg}")
    # get_select_distance = hausdorff_at_select_[selected indices in order]
    I, st = ctx.interp(), State()
    Hs = arr("Hsel", S, inp=False)
    sel = arr("sel", "Q", inp=False, dtype="int")
    o = ctx.bare_object(I, st, cls, {"_axis": axis, "hausdorff_at_select_": Hs, "selected_idx_": sel, "support_": arr("support", S, inp=False, dtype="bool")})
    r = ctx.call_method(I, st, o, "get_select_distance")
    want = T("getitem", Hs.term, sel.term)
    ctx.ob(rule, f"{name}.{pkg}.get_select_distance = table[selected_idx_ in selection order]", N.nf(r.term) == N.nf(want), f"returns {r.term!r}", ctx.site(P.method(cls, "get_select_distance")), pkg)


def _init_checks(ctx, N, cls, pkg, axis, S, name, pcov):
    """cold initialisation: norms definition, table sizes, initial index routed through the update"""
    P = ctx.P
    m = P.method(cls, "_init_greedy_search")
    site = ctx.site(m)
    variants = [("int", index("i0", S)), ("npint", index("i0", S, labels=("numpy-scalar",)))]
    if not pcov:
        variants.append(("list2", None))
    variants.append(("random", "random"))
    for vname, init in variants:
        cfg = f"{pkg} initialize={vname}"
        I, st = ctx.interp(), State()
        X = arr("X", "N", "M")
        y = arr("y", "N", "P")
        n = integer("S")
        kwargs = {}
        if pcov:
            kwargs["mixing"] = scalar("alpha", 0, 1, False, True)
        o = ctx.construct(I, st, cls, **kwargs)
        hp = st.heap[o.obj.id]
        i0, i1 = index("i0", S), index("i1", S)
        if vname == "list2":
            hp["initialize"] = I.mk_list([i0, i1])
        elif vname == "random":
            hp["initialize"] = vconst("random")
        else:
            hp["initialize"] = init
        hp["_axis"] = vconst(axis)
        mark = len(I.events)
        ctx.call_method(I, st, o, "_init_greedy_search", X, y, n)
        ctx.no_shape_conflicts("Shape", f"{name}.{pkg}._init_greedy_search[{vname}]", I, mark, site, cfg)
        for a in ("hausdorff_", "hausdorff_at_select_", "norms_"):
            ctx.shape_is("Shape", f"{name}.{pkg}.{a} length = selection axis", ctx.attr(st, o, a), (S,), site, cfg)
        # norms definition
        if not pcov:
            I2, st2 = ctx.interp(), State()
            ref = ctx.call_func(I2, st2, "ref.selection_ref.fps_norms", X, axis)
            # norms_ may have been threaded through updates: compare the value at definition
            defs = [e for e in I.events[mark:] if e["kind"] == "setattr" and e["attr"] == "norms_"]
            ctx.ob("NF-DIST", f"{name}.{pkg}.norms_ defined once", len(defs) == 1, f"{len(defs)} definitions", site, cfg)
            if defs:
                ctx.compare("NF-DIST", f"{name}.{pkg}.norms_ = squared norms along the non-selection axis", N, defs[0]["value"], ref, site, cfg)
        else:
            defs = [e for e in I.events[mark:] if e["kind"] == "setattr" and e["attr"] == "pcovr_distance_"]
            ctx.ob("NF-DIST", f"{name}.{pkg}.pcovr_distance_ defined once", len(defs) == 1, f"{len(defs)} definitions", site, cfg)
            if defs:
                I2, st2 = ctx.interp(), State()
                fn = "skmatter.utils.pcovr_covariance" if axis == 1 else "skmatter.utils.pcovr_kernel"
                ref = ctx.call_func(I2, st2, fn, hp["mixing"], X, y)
                ctx.compare("NF-DIST", f"{name}.{pkg}.pcovr_distance_ = {fn.rsplit('.', 1)[1]}(mixing, X, y)", N, defs[0]["value"], ref, site, cfg)
                nd = [e for e in I.events[mark:] if e["kind"] == "setattr" and e["attr"] == "norms_"]
                if ctx.ob("NF-DIST", f"{name}.{pkg}.norms_ defined once", len(nd) == 1, f"{len(nd)} definitions", site, cfg):
                    ctx.compare("NF-DIST", f"{name}.{pkg}.norms_ = diag(modified matrix)", N, nd[0]["value"], T("diagof", defs[0]["value"].term), site, cfg)
        # R-INIT: initial indices are stored in order and pushed through the update
        sel = ctx.attr(st, o, "selected_idx_")
        nsel = ctx.attr(st, o, "n_selected_")
        want_n = 2 if vname == "list2" else 1
        ctx.ob("R-INIT", f"{name}.{pkg}.n_selected_ after initialisation[{vname}]", nsel is not None and nsel.has_const and nsel.const == want_n, f"n_selected_ = {nsel!r}, expected {want_n}", site, cfg)
        # (an in-place minimum issued by the update itself or by a helper it calls)
        hv_ = ctx.attr(st, o, "hausdorff_")
        hloc_ = getattr(hv_, "loc", None)
        # (writes into scratch buffers of the update do not count: the table itself is what must be lowered once per index)
        ups = [e for e in I.events[mark:] if e["kind"] == "mutate" and e.get("how") == "out=" and any(s_.endswith("_update_hausdorff") for s_ in e.get("stack", ())) and (hloc_ is None or getattr(e["target"], "loc", None) == hloc_)]
        ctx.ob("R-INIT", f"{name}.{pkg}.every initial index goes through the distance update[{vname}]", len(ups) == want_n, f"{len(ups)} distance updates for {want_n} initial indices", site, cfg)
        # the candidate pushed through the k-th initial distance update is the k-th stored index
        pushed = []

        def rec_update(interp, clo, args, kw, st_, node):
            pushed.append(args[2] if len(args) > 2 else kw.get("last_selected"))
            return vconst(None)

        Ir, sr = ctx.interp(stubs={f"_{name}._update_hausdorff": rec_update}), State()
        orr = ctx.construct(Ir, sr, cls, **kwargs)
        hr = sr.heap[orr.obj.id]
        hr["initialize"], hr["_axis"] = hp["initialize"], vconst(axis)
        ctx.call_method(Ir, sr, orr, "_init_greedy_search", X, y, n)
        selr = ctx.attr(sr, orr, "selected_idx_")
        ok_push = len(pushed) == want_n and selr is not None and all(p_ is not None and N.nf(p_.term) == N.nf(T("getitem", selr.term, const(k_))) for k_, p_ in enumerate(pushed))
        ctx.ob("R-INIT", f"{name}.{pkg}.the distance table is initialised from the stored initial indices, in order[{vname}]", ok_push, f"pushed {[repr(p_.term)[:60] if p_ is not None else None for p_ in pushed]} ; stored {selr.term!r}"[:300], site, cfg)
        if vname in ("int", "npint", "list2"):
            t = repr(sel.term)
            # exact: selected_idx_ = zeros with slot k := i_k
            want = T("store", T("astype", T("zeros", T("dim", Dim.of("S"))), "int"), const(0), i0.term)
            if vname == "list2":
                want = T("store", want, const(1), i1.term)
            ctx.ob("R-INIT", f"{name}.{pkg}.initial indices stored at consecutive slots[{vname}]", N.nf(sel.term) == N.nf(want), f"selected_idx_ = {sel.term!r}", site, cfg)
        if vname == "random":
            srcs = [e for e in I.events[mark:] if e["kind"] == "rng-source"]
            ok = len(srcs) >= 1 and all(repr(e["seed"].term) == repr(hp["random_state"].term) for e in srcs)
            ctx.ob("R-INIT", f"{name}.{pkg}.random initial index drawn from check_random_state(self.random_state)", ok, f"{len(srcs)} rng sources", site, cfg)
            draws = [e for e in I.events[mark:] if e["kind"] == "rng-draw"]
            ctx.ob("R-INIT", f"{name}.{pkg}.random initial index is one randint over the selection axis", len(draws) == 1 and draws[0]["method"] == "randint", f"{[d['method'] for d in draws]}", site, cfg)
            if sel is not None:
                from ..apitable import dim_term

                ok = any(tq.randint_range(x) == (const(0), dim_term(Dim.of(S))) for x in tq.walk_all(sel.term) if x.op == "rng")
                ctx.ob("R-INIT", f"{name}.{pkg}.randint bound is the size of the selection axis", ok, f"selected_idx_ = {sel.term!r}", site, cfg)


def _argmax_check(ctx):
    """the selection is the argmax of the scorer's vector (shared by all selectors)"""
    P = ctx.P
    cls = P.cls("skmatter._selection.GreedySelector")
    m = P.method(cls, "_get_best_new_selection")
    I, st = ctx.interp(), State()
    scores = arr("scores", "S", inp=False)
    o = ctx.bare_object(I, st, cls, {"score_threshold": None, "selected_idx_": arr("sel", "S", inp=False, dtype="int"), "n_selected_": integer("Q"), "first_score_": None, "score_threshold_type": "absolute"})
    from ..terms import V

    def scorer(interp, args, kw, st_, node):
        return scores

    sc = V("func", T("scorer"), func=("builtin", scorer, "scorer"))
    r = ctx.call_method(I, st, o, "_get_best_new_selection", sc, arr("X", "N", "M"), arr("y", "N", "P"))
    t = r.term
    ok = t.op == "argmax" and not tq.has_op(t, "argmin")
    ctx.ob("R-ARGMAX", "GreedySelector._get_best_new_selection returns argmax of the (masked) score vector", ok, f"returns {t!r}", ctx.site(m))
    # the argument of argmax is the scorer's vector with only selected entries masked
    inner = t.args[0] if ok else None
    ok2 = False
    if inner is not None:
        x = inner
        while x.op == "store":
            x = x.args[0]
        ok2 = x == scores.term
    if not ok2 and inner is not None:
        # the same vector written another way (mask + where): compare with the reference step
        I2, s2 = ctx.interp(), State()
        ref = ctx.call_func(I2, s2, "ref.selection_ref.best_new_selection", scores, arr("sel", "S", inp=False, dtype="int"), integer("Q"), None, "absolute", None)
        N_ = ctx.normalizer()
        ok2 = ref is not None and N_.nf(t) == N_.nf(ref.term)
    ctx.ob("R-ARGMAX", "argmax is taken over the scorer's own vector", ok2, f"argmax argument {inner!r}", ctx.site(m))


def pick_rule(ctx, N, rule, names):
    """every concrete selector picks with the shared step: the argmax of its score table with the already selected
    candidates excluded (an override in one class - reading its table without the mask - survives every test with
    distinct candidates)"""
    from ..terms import V as _V

    P = ctx.P
    for pkg in ("feature_selection", "sample_selection"):
        for name in names:
            try:
                cls = P.cls(f"skmatter.{pkg}.{name}")
            except Exception:
                continue
            m = cls.find_method("_get_best_new_selection")
            scores = arr("scores", "S0", inp=False)
            sel, Q = arr("sel", "S", inp=False, dtype="int"), integer("Q")
            I, st = ctx.interp(), State()
            o = ctx.bare_object(I, st, cls, {"_axis": 1 if pkg == "feature_selection" else 0, "score_threshold": None, "selected_idx_": sel, "n_selected_": Q, "first_score_": None, "score_threshold_type": "absolute", "hausdorff_": scores, "pi_": scores})
            r = ctx.call_method(I, st, o, "_get_best_new_selection", _V("func", T("scorer"), func=("builtin", (lambda i_, a_, k_, s_, n_, scores=scores: scores), "scorer")), arr("X", "N", "M"), arr("y", "N", "P"))
            I2, s2 = ctx.interp(), State()
            ref = ctx.call_func(I2, s2, "ref.selection_ref.best_new_selection", scores, sel, Q, vconst(None), "absolute", vconst(None))
            ctx.compare(rule, f"{pkg}.{name}: next pick = argmax of the score table with every already selected candidate excluded", N, r, ref, ctx.site(m), f"{pkg}.{name}")


def _shared(ctx, N):
    """obligations shared with C01 (exclusion of selected candidates before the argmax)
    and C09 (a refit recomputes the distance tables from the new data)"""
    from ..terms import V as _V
    from .C08 import _fitted_state

    P = ctx.P
    base = P.cls("skmatter._selection.GreedySelector")
    I, st = ctx.interp(), State()
    scores = arr("scores", "S0", inp=False)
    sel, Q = arr("sel", "S", inp=False, dtype="int"), integer("Q")
    o = ctx.bare_object(I, st, base, {"score_threshold": None, "selected_idx_": sel, "n_selected_": Q, "first_score_": None, "score_threshold_type": "absolute"})

    def scorer(interp, args, kw, st_, node):
        return scores

    r = ctx.call_method(I, st, o, "_get_best_new_selection", _V("func", T("scorer"), func=("builtin", scorer, "scorer")), arr("X", "N", "M"), arr("y", "N", "P"))
    I2, s2 = ctx.interp(), State()
    ref = ctx.call_func(I2, s2, "ref.selection_ref.best_new_selection", scores, sel, Q, vconst(None), "absolute", vconst(None))
    ctx.compare("R-ARGMAX", "next pick = argmax of the distance table with every already selected candidate excluded", N, r, ref, ctx.site(P.method(base, "_get_best_new_selection")))
    # FPS' score() hands out the live distance table: the exclusion mask must go to a private copy
    I3, s3 = ctx.interp(), State()
    table = arr("table", "S0")  # caller-owned storage (origin ('in', 'table'))
    o3 = ctx.bare_object(I3, s3, base, {"score_threshold": None, "selected_idx_": sel, "n_selected_": Q, "first_score_": None, "score_threshold_type": "absolute"})
    ctx.call_method(I3, s3, o3, "_get_best_new_selection", _V("func", T("scorer"), func=("builtin", (lambda i_, a_, k_, s_, n_: table), "scorer")), arr("X", "N", "M"), arr("y", "N", "P"))
    hits = [e for e in I3.events if e["kind"] == "mutate" and ("in", "table") in e["target"].orig]
    ctx.ob("R-RUNMIN", "the selection step does not write into the distance table it is handed", not hits, f"in-place {[e.get('how') for e in hits]} on the scorer's table: `{hits[0].get('src')}`" if hits else "the mask is applied to a copy", ctx.site(P.method(base, "_get_best_new_selection")))
    for pkg, axis, S in DIRS:
        for cname in ("FPS", "PCovFPS"):
            cls = P.cls(f"skmatter.{pkg}_selection.{cname}")
            I, st = ctx.interp(stubs={f"_{cname}._update_post_selection": (lambda i_, c_, a_, k_, s_, n_: vconst(None))}), State()
            stale = {k: v for k, v in _fitted_state(cname, axis, S).items() if isinstance(v, _V)}
            stale = {k: (arr("stale_" + k, *[repr(d) for d in v.shape], inp=False) if v.shape not in (None, ()) else v) for k, v in stale.items()}
            stale.update({"_axis": axis, "mixing": scalar("alpha", 0, 1, False, True), "initialize": 0, "random_state": 0})
            o = ctx.bare_object(I, st, cls, stale)
            ctx.call_method(I, st, o, "_init_greedy_search", arr("X", "N", "M"), arr("y", "N", "P"), integer("S"))
            heap = st.heap[o.obj.id]
            from .. import tq

            left = sorted(k for k in ("norms_", "hausdorff_", "hausdorff_at_select_", "pcovr_distance_") if k in heap and any(x.op == "sym" and str(x.args[0]).startswith("stale_") for x in tq.walk_all(heap[k].term)))
            ctx.ob("R-INIT", f"{cname}.{pkg}: a refit recomputes norms and distance tables from the new data", not left, f"tables still holding values of the previous fit: {left}", ctx.site(P.method(cls, "_init_greedy_search")), pkg)
