"""C03 (static conformance): PCovR's latent space does not depend on the
computational route.

Decided from the source against ref/pcovr_ref.py:
 NF-ROUTE   feature space: pxt_ = C^-1/2 V L^1/2, ptx_ = L^-1/2 V^T C^1/2,
            pty_ = L^-1/2 V^T C^-1/2 X^T Y; sample space: pxt_ = (a X^T + (1-a) W Yhat^T) V L^-1/2,
            ptx_ = L^-1/2 V^T X, pty_ = L^-1/2 V^T Y, with (V, L) the decomposition
            outputs of pcovr_covariance(mixing, X, Yhat, rcond=tol) resp.
            pcovr_kernel(mixing, X, Yhat), for every mixing regime and solver;
 NF-MIX     pcovr_kernel / pcovr_covariance equal the documented modified
            matrices (shared with C04);
 R-SPECTRUM the retained (U, S, Vt) is the leading k of one consistently ordered
            decomposition (ARPACK triple reversed together, sign fix on the pair,
            seeds from random_state); singular values / explained variance derive
            from that same S;
 R-DISPATCH space_ is decided from n_samples > n_features only for auto/None and
            each value reaches exactly one of the two routes;
 Shape      all projectors and attributes in tall / wide / square regimes, 1-D/2-D y,
            every regressor kind.
Not decided: agreement of arpack/randomized with full (convergence), equality of
the non-zero spectra of C~ and K~ (a theorem), conditioning of C^-1/2.
"""
from .. import protocols
from ..harness import arr, integer, scalar
from ..interp import State
from ..terms import vconst
from . import pcovr_common as pc

FLOOR = 150


def check(ctx):
    # positional parameters keep their documented positions (a reordering survives every keyword call)
    from ..sigrules import signatures as _signatures

    _signatures(ctx, "R-SIG", classes=('skmatter.decomposition.PCovR',))
    N = ctx.normalizer()
    pc.gram_cov(ctx, N, "NF-MIX")
    pc.projectors(ctx, N, "NF-ROUTE")
    pc.spectrum(ctx, N)
    dispatch(ctx)
    shapes(ctx)
    from .C04 import default_regressor, yhat

    default_regressor(ctx, "R-YHAT")

    yhat(ctx, N)


def dispatch(ctx):
    P = ctx.P
    cls = P.cls(pc.PCOVR)
    site = ctx.site(P.method(cls, "fit"))
    for space in ("auto", None, "feature", "sample"):
        for regime, order in (("N>M", [("N", ">", "M")]), ("N<M", [("N", "<", "M")]), ("N==M", [("N", "==", "M")])):
            calls = []

            def route(name):
                def f(interp, clo, args, kw, st, node):
                    calls.append(name)
                    h = st.heap[clo.self_v.obj.id]
                    h["pxt_"] = pc.farr(__import__("sa.terms", fromlist=["T"]).T("sym", "pxt"), "M", "K")
                    h["pty_"] = pc.farr(__import__("sa.terms", fromlist=["T"]).T("sym", "pty"), "K", "P")
                    return vconst(None)

                return f

            I = ctx.interp(order=order + [("K", "<=", "N"), ("K", "<=", "M")], assume=protocols.assume_default, stubs={"PCovR._fit_feature_space": route("feature"), "PCovR._fit_sample_space": route("sample")})
            st = State()
            o = ctx.construct(I, st, cls, space=space, n_components=integer("K"), mixing=scalar("alpha", 0, 1), svd_solver="full")
            ctx.call_method(I, st, o, "fit", arr("X", "N", "M"), arr("Y", "N", "P"))
            want = space if space in ("feature", "sample") else ("feature" if regime == "N>M" else "sample")
            sp = ctx.attr(st, o, "space_")
            ctx.ob("R-DISPATCH", f"space={space!r} {regime}: exactly the {want} route runs", calls == [want], f"routes taken: {calls}; space_ = {sp!r}", site, f"space={space} {regime}")
            ctx.ob("R-DISPATCH", f"space={space!r} {regime}: space_ records the route", sp is not None and sp.has_const and sp.const == want, f"space_ = {sp!r}", site, f"space={space} {regime}", nontrivial=False)

    pc.solver_policy(ctx, "R-DISPATCH")


def shapes(ctx):
    P = ctx.P
    cls = P.cls(pc.PCOVR)
    site = ctx.site(P.method(cls, "fit"))
    for p in protocols.decomposition_protocols():
        if not p.name.startswith("PCovR"):
            continue
        I, st, o, res = protocols.run(ctx, p)
        ctx.no_shape_conflicts("Shape", f"{p.name}: fit / transform / predict / score", I, 0, site, p.name)
        oned = "1-D" in p.name
        want = {"pxt_": ("M", "K"), "ptx_": ("K", "M"), "pty_": ("K",) if oned else ("K", "P"), "pxy_": ("M",) if oned else ("M", "P"), "components_": ("K", "M"), "singular_values_": ("K",), "explained_variance_": ("K",), "mean_": ("M",)}
        for a, dims in want.items():
            ctx.shape_is("Shape", f"{p.name}: {a}", ctx.attr(st, o, a), dims, site, p.name)
        for meth, r, lo, hi in res:
            if meth == "transform":
                ctx.shape_is("Shape", f"{p.name}: transform(X_new) is (n_new, k)", r, ("V", "K"), site, p.name)
            if meth == "inverse_transform":
                ctx.shape_is("Shape", f"{p.name}: inverse_transform(T) is (n_new, n_features)", r, ("V", "M"), site, p.name)
