"""C04 (static conformance): PCovR interpolates between PCA and regression.

Decided from the source (necessary conditions of the mixed objective being the
one that is optimised):
 NF-MIX    in pcovr_kernel, pcovr_covariance and the sample-space projector the
           coefficient a multiplies the term built from X only, (1-a) the term built
           from the regressed targets only, the coefficients sum to one and the
           guards mixing<1 / mixing>0 drop exactly the vanishing term
           (regimes 0<a<1, a=0, a=1 against the documented formulas);
 R-YHAT    the target argument of the modified matrices is the regressed Yhat
           (regressor_.predict(X), or a copy of Y in the precomputed branch) and W
           the regression weights (coef_^T, lstsq(X, Yhat) or the caller's W), while
           pty_ is built from the raw Y;
 R-TOPK    the leading k components of the decomposition are retained;
 R-REGRESSOR the default regressor is an intercept-free Ridge, only the documented
           regressor kinds are accepted, and a caller-supplied regressor is
           cloned / deep-copied before fitting.
Not decided: optimality against competitor subspaces and monotonicity in mixing
(Eckart-Young / Ky-Fan consequences of the above plus exact linear algebra).
"""
from .. import protocols
from ..harness import arr, extobj, integer, scalar
from .. import tq
from ..interp import State
from ..terms import T, vconst
from . import pcovr_common as pc

FLOOR = 60


def check(ctx):
    pc.solver_policy(ctx, "R-SPECTRUM")
    N = ctx.normalizer()
    pc.gram_cov(ctx, N, "NF-MIX")
    pc.projectors(ctx, N, "NF-MIX")
    pc.spectrum(ctx, N)
    yhat(ctx, N)
    regressors(ctx)


def yhat(ctx, N):
    P = ctx.P
    cls = P.cls(pc.PCOVR)
    site = ctx.site(P.method(cls, "fit"))
    def assume_fitted(fitted):
        # a caller-supplied regressor is either fitted already or not: decide the NotFittedError probe accordingly
        def f(term, node, interp):
            r = protocols.assume_default(term, node, interp)
            if r is None and term.op == "raises" and term.args[0] == "NotFittedError":
                return not fitted
            return r

        return f

    for space in ("feature", "sample"):
        for reg in ("default", "default+W", "precomputed", "precomputedW", "user", "user-fitted", "user-unfitted"):
            got = {}

            def grab(name):
                def f(interp, clo, args, kw, st, node):
                    got[name] = args
                    h = st.heap[clo.self_v.obj.id]
                    h["pxt_"] = pc.farr(T("sym", "pxt"), "M", "K")
                    h["pty_"] = pc.farr(T("sym", "pty"), "K", "P")
                    return vconst(None)

                return f

            I = ctx.interp(order=[("K", "<=", "N"), ("K", "<=", "M")], assume=assume_fitted(reg == "user-fitted") if reg in ("user-fitted", "user-unfitted") else protocols.assume_default, stubs={"PCovR._fit_feature_space": grab("feature"), "PCovR._fit_sample_space": grab("sample")})
            st = State()
            ctor = {"space": space, "n_components": integer("K"), "mixing": scalar("alpha", 0, 1), "svd_solver": "full", "tol": scalar("tol", 0, None)}
            fit_kw = {}
            if reg.startswith("precomputed"):
                ctor["regressor"] = "precomputed"
                if reg.endswith("W"):
                    fit_kw["W"] = arr("Wuser", "M", "P")
            if reg == "default+W":
                # weights handed to fit although a regressor is in charge: the regression that is used is the regressor's
                fit_kw["W"] = arr("Wuser", "M", "P")
            if reg.startswith("user"):
                ctor["regressor"] = extobj("user_regressor", "sklearn.linear_model.Ridge")
            o = ctx.construct(I, st, cls, **ctor)
            X, Y = arr("X", "N", "M"), arr("Y", "N", "P")
            lo = len(I.events)
            ctx.call_method(I, st, o, "fit", X, Y, **fit_kw)
            cfg = f"{space},{reg}"
            args = got.get(space)
            if not ctx.ob("R-YHAT", f"[{cfg}] the {space} route receives (X, Y, Yhat{', W' if space == 'sample' else ''})", args is not None and len(args) == (4 if space == "sample" else 3), f"{None if args is None else len(args)} arguments", site, cfg):
                continue
            Xa, Ya, Yh = args[0], args[1], args[2]
            ctx.ob("R-YHAT", f"[{cfg}] first argument is X", N.nf(Xa.term) == N.nf(X.term), f"{Xa.term!r}", site, cfg, nontrivial=False)
            ya_t = Ya.term
            if reg == "user-fitted" and isinstance(ya_t, T("x").__class__) and ya_t.op == "reshape" and ya_t.args:
                ya_t = ya_t.args[0]  # Y laid out like the prediction of the fitted regressor (whose width is the regressor's)
            ctx.ob("R-YHAT", f"[{cfg}] second argument is the raw Y", N.nf(ya_t) == N.nf(Y.term), f"{Ya.term!r}", site, cfg)
            t = repr(Yh.term)
            if reg.startswith("precomputed"):
                ok = N.nf(Yh.term) == N.nf(Y.term)
                ctx.ob("R-YHAT", f"[{cfg}] precomputed: Yhat is the supplied targets (a copy, or a view that the routes only read - see their argument obligations)", ok, f"Yhat = {t[:200]} origin {sorted(Yh.orig)}", site, cfg)
            else:
                preds = [e for e in I.events[lo:] if e["kind"] == "extcall" and e["method"] == "predict"]
                ok = len(preds) == 1 and preds[0]["args"] and preds[0]["args"][0].term == X.term
                okp = any(x.op == "mcall" and x.args[1] == "predict" and x.args[2] and x.args[2][0] == X.term for x in tq.walk_all(Yh.term))
                if not (ok and okp):
                    # the same prediction written out for a linear model: X @ coef_.T + intercept_ of the fitted regressor
                    ests = {x.args[0] for x in tq.walk_all(Yh.term) if x.op == "attr" and len(x.args) == 2 and x.args[1] == "coef_"}
                    nfy = N.nf(Yh.term)
                    okp = ok = any(nfy == N.nf(T("add", T("matmul", X.term, T("T", T("attr", e_, "coef_"))), T("attr", e_, "intercept_"))) for e_ in ests)
                ctx.ob("R-YHAT", f"[{cfg}] Yhat = regressor_.predict(X)", bool(ok and okp), f"Yhat = {t[:200]}", site, cfg)
                fits = [e for e in I.events[lo:] if e["kind"] == "mutate-object" and e["method"] == "fit"]
                if reg == "user-fitted":
                    # the supplied regression is what the latent space is optimal for: a fitted regressor is used as it is
                    ctx.ob("R-YHAT", f"[{cfg}] a regressor that is already fitted is not fitted again", not fits, f"{len(fits)} regressor fit(s): {[e.get('src') for e in fits][:3]}", site, cfg)
                else:
                    okf = all(e["args"] and e["args"][0].term == X.term for e in fits) and (len(fits) >= 1)
                    ctx.ob("R-YHAT", f"[{cfg}] the regressor is fitted on (X, Y)", okf, f"{len(fits)} regressor fit(s)", site, cfg)
            if space == "sample":
                W = args[3]
                tw = repr(W.term)
                if reg == "precomputedW":
                    ctx.ob("R-YHAT", f"[{cfg}] the caller's W is used", W.term == fit_kw["W"].term, tw[:200], site, cfg)
                elif reg == "precomputed":
                    want = T("lstsq", X.term, Y.term, ("rcond", ctor["tol"].term))
                    ctx.ob("R-YHAT", f"[{cfg}] W = lstsq(X, Yhat, tol)", N.nf(W.term) == N.nf(want), tw[:200], site, cfg)
                else:
                    ctx.ob("R-YHAT", f"[{cfg}] W = regressor_.coef_^T", tq.has_attr(W.term, "coef_") and tq.has_op(W.term, "T") and not tq.has_sym(W.term, "Wuser"), tw[:200], site, cfg)
                    ctx.shape_is("Shape", f"[{cfg}] W is (n_features, n_targets)", W, ("M", "P"), site, cfg) if reg in ("default", "default+W") else None


def regressors(ctx):
    default_regressor(ctx, "R-REGRESSOR")
    accepted_regressors(ctx)


def default_regressor(ctx, rule):
    """(shared with C03: with an intercept Yhat = XW + b while the feature route only sees X^T Yhat)"""
    P = ctx.P
    cls = P.cls(pc.PCOVR)
    site = ctx.site(P.method(cls, "fit"))
    I = ctx.interp(order=[("K", "<=", "N"), ("K", "<=", "M")], assume=protocols.assume_default)
    st = State()
    o = ctx.construct(I, st, cls, n_components=integer("K"), mixing=scalar("alpha", 0, 1), svd_solver="full", space="feature")
    lo = len(I.events)
    ctx.call_method(I, st, o, "fit", arr("X", "N", "M"), arr("Y", "N", "P"))
    news = [e for e in I.events[lo:] if e["kind"] == "ext-new" and e["cls"].endswith("Ridge")]
    ok = len(news) == 1 and news[0]["kwargs"].get("fit_intercept") is not None and news[0]["kwargs"]["fit_intercept"].has_const and news[0]["kwargs"]["fit_intercept"].const is False
    ctx.ob(rule, "the default regressor is an intercept-free Ridge", ok, f"{[(e['cls'], {k: repr(v.term) for k, v in e['kwargs'].items()}) for e in news]}", site)


def accepted_regressors(ctx):
    P = ctx.P
    cls = P.cls(pc.PCOVR)
    site = ctx.site(P.method(cls, "fit"))
    for rc, accepted in (("sklearn.linear_model.Ridge", True), ("sklearn.linear_model.LinearRegression", True), ("sklearn.linear_model.RidgeCV", True), ("sklearn.svm.SVR", False), ("sklearn.linear_model.Lasso", False)):
        I = ctx.interp(order=[("K", "<=", "N"), ("K", "<=", "M")], assume=protocols.assume_default)
        st = State()
        o = ctx.construct(I, st, cls, n_components=integer("K"), mixing=scalar("alpha", 0, 1), svd_solver="full", space="feature", regressor=extobj("user_regressor", rc))
        lo = len(I.events)
        ctx.call_method(I, st, o, "fit", arr("X", "N", "M"), arr("Y", "N", "P"))
        raised = [e for e in I.events[lo:] if e["kind"] == "raise" and e.get("short") == "PCovR.fit"]
        fitted = ctx.attr(st, o, "pxt_") is not None
        ctx.ob("R-REGRESSOR", f"regressor of kind {rc.rsplit('.', 1)[1]} is {'accepted' if accepted else 'rejected'}", (fitted and not raised) if accepted else (raised and not fitted), f"raised={len(raised)} fitted={fitted}", site, rc)
        if accepted:
            bad = [e for e in I.events[lo:] if e["kind"] == "mutate-object" and e["method"] == "fit" and any(o_[0] == "in" for o_ in e["target"].orig)]
            ctx.ob("R-REGRESSOR", f"caller's {rc.rsplit('.', 1)[1]} is cloned / deep-copied before fitting", not bad, f"{[e['src'] for e in bad]}", site, rc)
