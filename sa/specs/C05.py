"""C05 (static conformance): KernelPCovR kernel plumbing, agreement with PCovR's
sample-space formulas, scoring of any held-out set.

Decided from the source against ref/pcovr_ref.py:
 Shape     every expression of fit / transform / predict / score with the held-out
           size V distinct from the training size N (no dimension conflict);
 NF-LINEAR K~ = pcovr_kernel(mixing, K, Yhat, kernel='precomputed');
           pkt_ = (a I + (1-a) W Yhat^T) U L^-1/2 and pt__ = pinv(K pkt_), the sample
           space PCovR projector with X^T replaced by the identity in kernel space;
           ptk_/pty_/ptx_/pky_/components_ derive from them as documented;
 R-PIPE    writer: K = _get_kernel(X) and, iff center, centerer_.fit_transform(K);
           every reader (transform, predict, score) uses _get_kernel(X, X_fit_) and,
           iff center, centerer_.transform before projecting; X_fit_ is a copy of
           the training data; _get_kernel forwards kernel, gamma, degree, coef0
           (or kernel_params for callables); centerer_ is a KernelNormalizer with
           centring and trace scaling switched on;
 NF-SCORE  score = -(Lkpca + Lkrr) with the documented K_VV / K_VN / K_NN blocks
           and, with centring, the test-test block centred by the training means
           of the test-train kernel;
 R-REGRESSOR default KernelRidge carries the estimator's kernel parameters; a
           user regressor is compared on kernel parameters before use; W and Yhat
           come from dual_coef_ resp. lstsq(K, Yhat) / the caller's W.
Not decided: numerical equality with KPCA / precomputed kernels.
"""
from fractions import Fraction

from .. import protocols
from ..harness import arr, extobj, integer, scalar
from .. import tq
from ..interp import State
from ..terms import FRESH, Dim, T, V, fresh_id, vconst
from . import pcovr_common as pc

FLOOR = 60
KP = "skmatter.decomposition.KernelPCovR"


def kernel_stub(interp, clo, args, kw, st, node):
    X = args[0]
    Y = args[1] if len(args) > 1 else kw.get("Y")
    n = X.shape[0]
    if Y is None or Y.kind == "none":
        return pc.farr(T("KERNEL", X.term, X.term), n, n)
    return pc.farr(T("KERNEL", X.term, Y.term), n, Y.shape[0])


def center_stubs():
    def tr(interp, clo, args, kw, st, node):
        # centring statistics are those of the kernel the centerer was fitted on
        K = args[0]
        h = st.heap[clo.self_v.obj.id]
        f = h.get("fitted_on")
        if f is not None and f.term != K.term:
            return V("arr", T("CENTERBY", f.term, K.term), shape=K.shape, orig=frozenset([FRESH]), loc=fresh_id())
        return V("arr", T("CENTER", K.term), shape=K.shape, orig=frozenset([FRESH]), loc=fresh_id())

    def fit_only(interp, clo, args, kw, st, node):
        st.heap[clo.self_v.obj.id]["fitted_on"] = args[0]
        return clo.self_v

    def ftr(interp, clo, args, kw, st, node):
        K = args[0]
        h = st.heap[clo.self_v.obj.id]
        h["fitted_on"] = K
        return V("arr", T("CENTER", K.term), shape=K.shape, orig=frozenset([FRESH]), loc=fresh_id())

    return {"KernelNormalizer.transform": tr, "KernelNormalizer.fit_transform": ftr, "KernelNormalizer.fit": fit_only}


def check(ctx):
    # positional parameters keep their documented positions (a reordering survives every keyword call)
    from ..sigrules import signatures as _signatures

    _signatures(ctx, "R-SIG", classes=('skmatter.decomposition.KernelPCovR',))
    # readers (transform / predict / score ...) leave the fitted state untouched and keep no result buffer on the estimator
    protocols.reader_state_obligations(ctx, "R-STATE", "KernelPCovR", ctx.P.cls("skmatter.decomposition.KernelPCovR"))
    from ..flagrules import class_flag_equivalence as _cfe
    from ..harness import arr as _arr, integer as _integer, scalar as _scalar

    _c = ctx.P.cls("skmatter.decomposition.KernelPCovR")
    for _flag in ("center", "fit_inverse_transform"):
        _cfe(ctx, ctx.normalizer(), "R-FLAG", _c, _flag, lambda: {"mixing": _scalar("alpha", 0, 1, True, True), "n_components": _integer("K"), "svd_solver": "full", "center": True, "fit_inverse_transform": True}, [("fit", lambda: (_arr("X", "N", "M"), _arr("Y", "N", "P")), lambda: {}), ("transform", lambda: (_arr("Xv", "V", "M"),), lambda: {}), ("predict", lambda: (_arr("Xv", "V", "M"),), lambda: {}), ("score", lambda: (_arr("Xv", "V", "M"), _arr("Yv", "V", "P")), lambda: {})], ctx.site(_c.methods["fit"]), interp_kw={"order": [("K", "<=", "N")], "assume": protocols.assume_default})
    P = ctx.P
    N = ctx.normalizer()
    cls = P.cls(KP)
    # ---------------- _fit : projectors ----------------------------------------------------
    for solver in ("full", "arpack"):
        for name, mix in pc.mixings():
            rec = []
            tol = scalar("tol", 0, None)
            I, st = ctx.interp(stubs=pc.decomposition_stubs(rec), assume=protocols.assume_default), State()
            o = ctx.bare_object(I, st, cls, {"mixing": mix, "tol": tol, "_fit_svd_solver": solver, "n_components_": integer("K")})
            K, Yhat, W = pc.farr(T("sym", "K"), "N", "N"), pc.farr(T("sym", "Yhat"), "N", "P"), pc.farr(T("sym", "W"), "N", "P")
            ctx.call_method(I, st, o, "_fit", K, Yhat, W)
            site = ctx.site(P.method(cls, "_fit"))
            cfg = f"{solver} {name}"
            pc._args_untouched(ctx, "NF-LINEAR", I, (K, Yhat, W), f"_fit [{cfg}]", site, cfg)
            kers = [b for k, b in rec if k == "pcovr_kernel"]
            decs = [m for k, m in rec if k in ("full", "truncated")]
            ok = len(kers) == 1 and kers[0]["mixing"].term == mix.term and kers[0]["X"].term == K.term and kers[0]["Y"].term == Yhat.term and kers[0].get("kernel") is not None and kers[0]["kernel"].has_const and kers[0]["kernel"].const == "precomputed"
            ctx.ob("NF-LINEAR", f"_fit diagonalises pcovr_kernel(mixing, K, Yhat, kernel='precomputed') [{cfg}]", ok, f"{[{kk: repr(v.term) for kk, v in b.items() if v is not None} for b in kers]}", site, cfg)
            ctx.ob("NF-LINEAR", f"_fit decomposes the modified kernel with the {solver} solver [{name}]", len(decs) == 1 and decs[0].term.op == "KT" and rec[-1][0] == ("full" if solver == "full" else "truncated"), f"{[(k) for k, m in rec]}", site, cfg)
            if decs:
                S, Vt = pc.farr(T("DEC_S", decs[0].term), "K"), pc.farr(T("DEC_Vt", decs[0].term), "K", "N")
                I2, s2 = ctx.interp(), State()
                ref = ctx.call_func(I2, s2, "ref.pcovr_ref.kpcovr_projectors", K, Yhat, W, S, Vt, mix, tol)
                ctx.compare("NF-LINEAR", f"pkt_ = (a I + (1-a) W Yhat^T) U L^-1/2 [{cfg}]", N, ctx.attr(st, o, "pkt_"), ref.items[0], site, cfg)
                ctx.compare("NF-LINEAR", f"pt__ = pinv(K pkt_) [{cfg}]", N, ctx.attr(st, o, "pt__"), ref.items[1], site, cfg)
            ctx.no_shape_conflicts("Shape", f"KernelPCovR._fit [{cfg}]", I, 0, site, cfg)
    pc.spectrum(ctx, N, KP, "KernelPCovR")
    # ---------------- fit : pipeline ----------------------------------------------------------------
    for center in (False, True):
        for reg in ("default", "precomputed", "precomputedW"):
            got = {}

            def fit_stub(interp, clo, args, kw, st_, node):
                got["args"] = args
                h = st_.heap[clo.self_v.obj.id]
                h["pkt_"] = pc.farr(T("sym", "pkt"), "N", "K")
                h["pt__"] = pc.farr(T("sym", "ptt"), "K", "N")
                return vconst(None)

            stubs = {"KernelPCovR._get_kernel": kernel_stub, "KernelPCovR._fit": fit_stub}
            stubs.update(center_stubs())
            I = ctx.interp(order=[("K", "<=", "N")], assume=protocols.assume_default, stubs=stubs)
            st = State()
            tol = scalar("tol", 0, None)
            ctor = {"mixing": scalar("alpha", 0, 1), "n_components": integer("K"), "svd_solver": "full", "center": center, "kernel": "rbf", "gamma": scalar("gamma", 0, None), "fit_inverse_transform": True, "tol": tol}
            fit_kw = {}
            if reg.startswith("precomputed"):
                ctor["regressor"] = "precomputed"
                if reg.endswith("W"):
                    fit_kw["W"] = arr("Wuser", "N", "P")
            o = ctx.construct(I, st, cls, **ctor)
            X, Y = arr("X", "N", "M"), arr("Y", "N", "P")
            lo = len(I.events)
            ctx.call_method(I, st, o, "fit", X, Y, **fit_kw)
            site = ctx.site(P.method(cls, "fit"))
            cfg = f"center={center},{reg}"
            Kt = T("KERNEL", X.term, X.term)
            if center:
                Kt = T("CENTER", Kt)
            xf = ctx.attr(st, o, "X_fit_")
            ctx.ob("R-PIPE", f"[{cfg}] X_fit_ is a copy of the training data", xf is not None and xf.term == X.term and not any(o_[0] == "in" for o_ in xf.orig), f"X_fit_ = {None if xf is None else (repr(xf.term), sorted(xf.orig))}", site, cfg)
            if center:
                # the centring step is the documented one: a KernelNormalizer that centres AND scales to unit trace, unweighted
                cen_ = ctx.attr(st, o, "centerer_")
                hc_ = st.heap.get(cen_.obj.id) if cen_ is not None and cen_.kind == "obj" else None
                okc_ = hc_ is not None and cen_.obj.cls.name == "KernelNormalizer" and all(hc_.get(k_) is not None and hc_[k_].has_const and hc_[k_].const is True for k_ in ("with_center", "with_trace"))
                ctx.ob("R-PIPE", f"[{cfg}] centerer_ is a KernelNormalizer with centring and trace scaling switched on", okc_, f"centerer_ = {None if cen_ is None else repr(cen_.term)[:80]} flags {None if hc_ is None else {k_: repr(hc_.get(k_)) for k_ in ('with_center', 'with_trace')}}", site, cfg)
            a = got.get("args")
            if reg == "default":
                # a second fit of the same object centres with the statistics of the NEW kernel
                X2, Y2 = arr("X2", "N", "M"), arr("Y2", "N", "P")
                keep = got.get("args")
                Ir = ctx.interp(order=[("K", "<=", "N")], assume=protocols.assume_default, stubs=stubs)
                sr = State()
                orr = ctx.construct(Ir, sr, cls, **ctor)
                ctx.call_method(Ir, sr, orr, "fit", X, Y)
                got.pop("args", None)
                ctx.call_method(Ir, sr, orr, "fit", X2, Y2)
                a2 = got.get("args")
                got["args"] = keep
                K2 = T("KERNEL", X2.term, X2.term)
                if center:
                    K2 = T("CENTER", K2)
                ctx.ob("R-PIPE", f"[{cfg}] a refit rebuilds the training kernel{' and its centring' if center else ''} from the new data only", a2 is not None and len(a2) == 3 and N.nf(a2[0].term) == N.nf(K2), f"K on refit = {None if not a2 else repr(a2[0].term)[:200]}", site, cfg)
            if ctx.ob("R-PIPE", f"[{cfg}] _fit receives (K, Yhat, W)", a is not None and len(a) == 3, f"{a!r}"[:200], site, cfg):
                ctx.ob("R-PIPE", f"[{cfg}] training kernel = _get_kernel(X){' centred by centerer_.fit_transform' if center else ''}", N.nf(a[0].term) == N.nf(Kt), f"K = {a[0].term!r}", site, cfg)
                if reg == "default":
                    ctx.ob("R-REGRESSOR", f"[{cfg}] Yhat = K @ W with W = regressor_.dual_coef_", a[1].term.op == "matmul" and N.nf(a[1].term.args[0]) == N.nf(Kt) and tq.has_attr(a[2].term, "dual_coef_") and a[1].term.args[1] == a[2].term, f"Yhat = {repr(a[1].term)[:200]}; W = {repr(a[2].term)[:120]}", site, cfg)
                    ctx.shape_is("Shape", f"[{cfg}] W is (n_samples, n_targets)", a[2], ("N", "P"), site, cfg)
                else:
                    ctx.ob("R-REGRESSOR", f"[{cfg}] precomputed: Yhat is the supplied targets (a copy, or a view that _fit only reads - see the argument obligation of _fit)", N.nf(a[1].term) == N.nf(Y.term), f"Yhat = {a[1].term!r}", site, cfg)
                    want = fit_kw["W"].term if reg.endswith("W") else T("lstsq", Kt, Y.term, ("rcond", tol.term))
                    ctx.ob("R-REGRESSOR", f"[{cfg}] W = {'the caller W' if reg.endswith('W') else 'lstsq(K, Yhat, tol)'}", N.nf(a[2].term) == N.nf(want), f"W = {repr(a[2].term)[:200]}", site, cfg)
            ptt, pkt = T("sym", "ptt"), T("sym", "pkt")
            for attr, want in (("ptk_", T("matmul", ptt, Kt)), ("pty_", T("matmul", ptt, Y.term)), ("ptx_", T("matmul", ptt, X.term)), ("pky_", T("matmul", pkt, T("matmul", ptt, Y.term))), ("components_", T("T", pkt))):
                ctx.compare("NF-LINEAR", f"[{cfg}] {attr}", N, ctx.attr(st, o, attr), want, site, cfg)
            if reg == "default":
                news = [e for e in I.events[lo:] if e["kind"] == "ext-new" and e["cls"].endswith("KernelRidge")]
                ok = len(news) == 1 and all(k in news[0]["kwargs"] and news[0]["kwargs"][k].term == st.heap[o.obj.id][k].term for k in ("kernel", "gamma", "degree", "coef0", "kernel_params"))
                ctx.ob("R-REGRESSOR", f"[{cfg}] default KernelRidge carries the estimator's kernel parameters", ok, f"{[{k: repr(v.term) for k, v in e['kwargs'].items()} for e in news]}", site, cfg)
                fits = [e for e in I.events[lo:] if e["kind"] == "mutate-object" and e["method"] == "fit"]
                ok = len(fits) == 1 and N.nf(fits[0]["args"][0].term) == N.nf(Kt)
                ctx.ob("R-REGRESSOR", f"[{cfg}] the regressor is fitted on the {'centred ' if center else ''}precomputed training kernel", ok, f"{[repr(e['args'][0].term) for e in fits]}", site, cfg)
            ctx.no_shape_conflicts("Shape", f"[{cfg}] fit", I, lo, site, cfg)
            # ---------------- readers ------------------------------------------------------------------
            Xv, Yv = arr("Xv", "V", "M"), arr("Yv", "V", "P")
            Kvn = T("KERNEL", Xv.term, X.term)
            if center:
                # new data are centred with the statistics of the training kernel
                Kvn = T("CENTERBY", T("KERNEL", X.term, X.term), Kvn)
            for meth, proj in (("transform", "pkt_"), ("predict", "pky_")):
                lo2 = len(I.events)
                r = ctx.call_method(I, st, o, meth, Xv)
                want = T("matmul", Kvn, ctx.attr(st, o, proj).term)
                ctx.compare("R-PIPE", f"[{cfg}] {meth}(X) = {'centred ' if center else ''}kernel(X, X_fit_) @ {proj}", N, r, want, ctx.site(P.method(cls, meth)), cfg)
                ctx.no_shape_conflicts("Shape", f"[{cfg}] {meth} on V != N held-out samples", I, lo2, ctx.site(P.method(cls, meth)), cfg)
            r = ctx.call_method(I, st, o, "inverse_transform", arr("Tv", "V", "K"))
            ctx.compare("R-PIPE", f"[{cfg}] inverse_transform(T) = T @ ptx_", N, r, T("matmul", T("sym", "Tv"), ctx.attr(st, o, "ptx_").term), ctx.site(P.method(cls, "inverse_transform")), cfg)
    score(ctx, N)
    get_kernel(ctx, N)
    user_regressor(ctx)
    precomputed_and_1d(ctx, N)
    # whole protocols with the real kernel normaliser inlined (V != N)
    for p in protocols.decomposition_protocols():
        if p.name.startswith("KernelPCovR"):
            I, st, o, res = protocols.run(ctx, p)
            ctx.no_shape_conflicts("Shape", f"{p.name}: fit/transform/predict/score with the real KernelNormalizer inlined", I, 0, ctx.site(P.method(cls, "score")), p.name)


def score(ctx, N):
    P = ctx.P
    cls = P.cls(KP)
    site = ctx.site(P.method(cls, "score"))
    # ---------------- a vector target is one column: what _fit receives -------------------------------
    for reg in ("default", "precomputed", "precomputedW"):
        got1 = {}

        def fit_stub1(interp, clo, args, kw, st_, node):
            got1["args"] = args
            h = st_.heap[clo.self_v.obj.id]
            h["pkt_"] = pc.farr(T("sym", "pkt"), "N", "K")
            h["pt__"] = pc.farr(T("sym", "ptt"), "K", "N")
            return vconst(None)

        I1 = ctx.interp(order=[("K", "<=", "N")], assume=protocols.assume_default, stubs={"KernelPCovR._get_kernel": kernel_stub, "KernelPCovR._fit": fit_stub1})
        s1 = State()
        ctor1 = {"mixing": scalar("alpha", 0, 1), "n_components": integer("K"), "svd_solver": "full", "kernel": "rbf", "gamma": scalar("gamma", 0, None), "tol": scalar("tol", 0, None)}
        kw1 = {}
        if reg.startswith("precomputed"):
            ctor1["regressor"] = "precomputed"
            if reg.endswith("W"):
                kw1["W"] = arr("Wuser", "N")
        o1 = ctx.construct(I1, s1, cls, **ctor1)
        ctx.call_method(I1, s1, o1, "fit", arr("X", "N", "M"), arr("y", "N"), **kw1)
        a1 = got1.get("args")
        site1 = ctx.site(P.method(cls, "fit"))
        if ctx.ob("R-REGRESSOR", f"[1-D y,{reg}] _fit receives (K, Yhat, W)", a1 is not None and len(a1) == 3, f"{a1!r}"[:160], site1, reg):
            ctx.shape_is("R-REGRESSOR", f"[1-D y,{reg}] the regressed target reaches _fit as an (n, 1) matrix (W Yhat^T is an outer product)", a1[1], ("N", 1), site1, reg)
            ctx.shape_is("R-REGRESSOR", f"[1-D y,{reg}] the regression weights reach _fit as an (n, 1) matrix", a1[2], ("N", 1), site1, reg)
    for center in (False, True):
        stubs = {"KernelPCovR._get_kernel": kernel_stub}
        if center:
            # the normaliser's own formula is decided by C12; here it is an uninterpreted map so
            # that the score formula is compared on small terms
            stubs.update(center_stubs())
        I = ctx.interp(stubs=stubs, assume=protocols.assume_default)
        st = State()
        Xf = pc.farr(T("sym", "Xfit"), "N", "M")
        pkt, pky = pc.farr(T("sym", "pkt"), "N", "K"), pc.farr(T("sym", "pky"), "N", "P")
        tol = scalar("tol", 0, None)
        attrs = {"X_fit_": Xf, "pkt_": pkt, "pky_": pky, "tol": tol, "center": center}
        o = ctx.bare_object(I, st, cls, attrs)
        Knn, Kvn, Kvv = None, None, None
        Xv, Yv = arr("Xv", "V", "M"), arr("Yv", "V", "P")
        rawNN, rawVN, rawVV = (pc.farr(T("KERNEL", a, b), da, db) for a, b, da, db in ((Xf.term, Xf.term, "N", "N"), (Xv.term, Xf.term, "V", "N"), (Xv.term, Xv.term, "V", "V")))
        if center:
            # a fitted normaliser with symbolic state; its own transform is analysed (C12 decides its formula)
            w = pc.farr(T("sym", "cw"), "N")
            cen = ctx.bare_object(I, st, P.cls("skmatter.preprocessing.KernelNormalizer"), {"with_center": True, "with_trace": True, "sample_weight_": w, "K_fit_rows_": pc.farr(T("sym", "Krows"), "N"), "K_fit_all_": scalar("Kall"), "scale_": scalar("cscale", 0, None)})
            cen = cen.replace(term=T("sym", "centerer"))
            st.heap[o.obj.id]["centerer_"] = cen
        lo = len(I.events)
        r = ctx.call_method(I, st, o, "score", Xv, Yv)
        I2, s2 = ctx.interp(assume=protocols.assume_default, stubs=center_stubs() if center else None), State()
        if center:
            cen2 = ctx.bare_object(I2, s2, P.cls("skmatter.preprocessing.KernelNormalizer"), dict(s_items(st, cen)))
            Knn = ctx.call_method(I2, s2, cen2, "transform", rawNN)
            Kvn = ctx.call_method(I2, s2, cen2, "transform", rawVN)
            h = st.heap[cen.obj.id]
            Kvv = ctx.call_func(I2, s2, "ref.pcovr_ref.centered_test_test_kernel", rawVV, rawVN, h["sample_weight_"], h["K_fit_all_"], h["scale_"])
        else:
            Knn, Kvn, Kvv = rawNN, rawVN, rawVV
        ref = ctx.call_func(I2, s2, "ref.pcovr_ref.kpcovr_score", Yv, Knn, Kvn, Kvv, pkt, pky, tol)
        ctx.compare("NF-SCORE", f"score = -(Lkpca + Lkrr) with the documented kernel blocks [center={center}]", N, r, ref, site, f"center={center}")
        ctx.no_shape_conflicts("Shape", f"score with V != N held-out samples [center={center}]", I, lo, site, f"center={center}")


def s_items(st, objv):
    return st.heap[objv.obj.id].items()


def get_kernel(ctx, N):
    P = ctx.P
    cls = P.cls(KP)
    site = ctx.site(P.method(cls, "_get_kernel"))
    I, st = ctx.interp(), State()
    params = {"kernel": "rbf", "gamma": scalar("gamma"), "degree": scalar("degree"), "coef0": scalar("coef0"), "kernel_params": None, "n_jobs": None}
    o = ctx.bare_object(I, st, cls, params)
    A_, B_ = arr("A", "V", "M"), arr("B", "N", "M")
    r = ctx.call_method(I, st, o, "_get_kernel", A_, B_)
    t = r.term
    ok = t.op == "kernel" and t.args[0] == A_.term and t.args[1] == B_.term
    kws = dict(t.args[2]) if ok else {}
    ok2 = ok and all(k in kws and kws[k] == st.heap[o.obj.id][k].term for k in ("gamma", "degree", "coef0")) and "metric" in kws and kws["metric"] == st.heap[o.obj.id]["kernel"].term
    ctx.ob("R-PIPE", "_get_kernel(X, Y) = pairwise_kernels(X, Y, metric=kernel, gamma, degree, coef0) in that order", ok and ok2, f"{t!r}", site)
    ctx.shape_is("Shape", "_get_kernel(X, Y) is (n_X, n_Y)", r, ("V", "N"), site)
    r = ctx.call_method(I, st, o, "_get_kernel", A_)
    ctx.shape_is("Shape", "_get_kernel(X) is (n_X, n_X)", r, ("V", "V"), site)


def user_regressor(ctx):
    P = ctx.P
    cls = P.cls(KP)
    site = ctx.site(P.method(cls, "fit"))
    I = ctx.interp(order=[("K", "<=", "N")], assume=protocols.assume_default)
    st = State()
    reg = extobj("user_regressor", "sklearn.kernel_ridge.KernelRidge")
    o = ctx.construct(I, st, cls, mixing=scalar("alpha", 0, 1), n_components=integer("K"), svd_solver="full", regressor=reg)
    lo = len(I.events)
    ctx.call_method(I, st, o, "fit", arr("X", "N", "M"), arr("Y", "N", "P"))
    ev = I.events[lo:]
    raises = [i for i, e in enumerate(ev) if e["kind"] == "raise" and e.get("short") == "KernelPCovR.fit" and any(tq.has_op(c, "all", "getattr", "attr") for c, _ in e["pc"])]
    clones = [i for i, e in enumerate(ev) if e["kind"] == "clone"]
    ctx.ob("R-REGRESSOR", "a user regressor's kernel parameters are compared before it is used", bool(raises) and bool(clones) and min(raises) < min(clones), f"mismatch raise at event {raises[:1]}, first clone at {clones[:1]}", site)
    bad = [e for e in ev if e["kind"] == "mutate-object" and e["method"] == "fit" and any(o_[0] == "in" for o_ in e["target"].orig)]
    ctx.ob("R-REGRESSOR", "a user regressor is cloned / deep-copied before fitting", not bad, f"{[e['src'] for e in bad]}", site)
    for rc in ("sklearn.linear_model.Ridge",):
        I = ctx.interp(order=[("K", "<=", "N")], assume=protocols.assume_default)
        st = State()
        o = ctx.construct(I, st, cls, mixing=scalar("alpha", 0, 1), n_components=integer("K"), svd_solver="full", regressor=extobj("user_regressor", rc))
        lo = len(I.events)
        ctx.call_method(I, st, o, "fit", arr("X", "N", "M"), arr("Y", "N", "P"))
        raised = [e for e in I.events[lo:] if e["kind"] == "raise" and e.get("short") == "KernelPCovR.fit"]
        ctx.ob("R-REGRESSOR", f"a regressor that is not a KernelRidge ({rc.rsplit('.', 1)[1]}) is rejected", bool(raised) and ctx.attr(st, o, "pkt_") is None, f"raised={len(raised)}", site)


def precomputed_and_1d(ctx, N):
    """kernel='precomputed': the caller's kernel arrays are the kernels (no copy is made
    by pairwise_kernels), so every reader must leave them untouched; 1-D targets: the
    regression weights handed to _fit are a 2-D (n_samples, n_targets) array"""
    P = ctx.P
    cls = P.cls(KP)
    for center in (False, True):
        I = ctx.interp(order=[("K", "<=", "N")], assume=protocols.assume_default)
        st = State()
        o = ctx.construct(I, st, cls, mixing=scalar("alpha", 0, 1), n_components=integer("K"), svd_solver="full", center=center, kernel="precomputed")
        Ktr, Y = arr("Ktrain", "N", "N"), arr("Y", "N", "P")
        ctx.call_method(I, st, o, "fit", Ktr, Y)
        for meth, args in (("transform", (arr("Ktest", "V", "N"),)), ("predict", (arr("Ktest", "V", "N"),)), ("fit", (arr("Ktrain2", "N", "N"), arr("Y2", "N", "P")))):
            lo = len(I.events)
            ctx.call_method(I, st, o, meth, *args)
            bad = [e for e in I.events[lo:] if e["kind"] == "mutate" and any(o_[0] == "in" for o_ in e["target"].orig)]
            ctx.ob("R-PIPE", f"precomputed kernel: {meth} leaves the caller's kernel untouched [center={center}]", not bad, f"in-place ops on caller arrays: {[(e['short'], e['src']) for e in bad]}", ctx.site(P.method(cls, meth)), f"center={center}")
    for reg in ("default",):
        got = {}

        def fit_stub(interp, clo, args, kw, st_, node):
            got["args"] = args
            h = st_.heap[clo.self_v.obj.id]
            h["pkt_"] = pc.farr(T("sym", "pkt"), "N", "K")
            h["pt__"] = pc.farr(T("sym", "ptt"), "K", "N")
            return vconst(None)

        I = ctx.interp(order=[("K", "<=", "N")], assume=protocols.assume_default, stubs={"KernelPCovR._fit": fit_stub})
        st = State()
        o = ctx.construct(I, st, cls, mixing=scalar("alpha", 0, 1), n_components=integer("K"), svd_solver="full")
        lo = len(I.events)
        ctx.call_method(I, st, o, "fit", arr("X", "N", "M"), arr("y", "N"))
        a = got.get("args")
        site = ctx.site(P.method(cls, "fit"))
        if ctx.ob("Shape", "1-D targets: _fit receives (K, Yhat, W)", a is not None and len(a) == 3, "", site, "1-D y"):
            ctx.shape_is("Shape", "1-D targets: W is a 2-D (n_samples, 1) array", a[2], ("N", 1), site, "1-D y")
            ctx.shape_is("Shape", "1-D targets: Yhat is a 2-D (n_samples, 1) array", a[1], ("N", 1), site, "1-D y")
        ctx.no_shape_conflicts("Shape", "fit with 1-D targets", I, lo, site, "1-D y")
        # readers after a fit with a 1-D target: predictions have the shape of the target, the score
        # compares like with like
        ctx.shape_is("Shape", "1-D targets: pty_ maps the latent space to one target (n_components,)", ctx.attr(st, o, "pty_"), ("K",), site, "1-D y")
        lo = len(I.events)
        rp = ctx.call_method(I, st, o, "predict", arr("Xq", "V", "M"))
        site_p = ctx.site(P.method(cls, "predict"))
        ctx.shape_is("Shape", "1-D targets: predict returns one value per sample (n_samples,)", rp, ("V",), site_p, "1-D y")
        ctx.no_shape_conflicts("Shape", "predict after a fit with 1-D targets", I, lo, site_p, "1-D y")
        lo = len(I.events)
        ctx.call_method(I, st, o, "score", arr("Xs", "V", "M"), arr("ys", "V"))
        ctx.no_shape_conflicts("Shape", "score with 1-D targets (prediction and target are both (n_samples,))", I, lo, ctx.site(P.method(cls, "score")), "1-D y")
