"""C06 (static conformance): Voronoi FPS is an exact accelerator.

Decided from the source against ref/selection_ref.py (voronoi_active,
voronoi_update) and _FPS:
 NF-DIST     the full-matrix arm, the sparse arm (restricted to the active points)
             and dSL_ are instances of the FPS distance |a|^2+|b|^2-2<a,b> with the
             same norms as _FPS (axis 0); dSL_ = 1/4 d(selected_k, last) and a point
             is active iff dSL_[cell(x)] < hausdorff_[x] (pruning constant exactly the
             triangle-inequality bound 1/4, strict comparison);
 R-INDEXSPACE dSL_ is written on [:n_selected_] (selection rank) and read through
             vlocation_of_idx, whose entries are set to n_selected_ before the base
             class increments it; rank space and sample space are not mixed;
 R-BOTHARMS  both arms of the full_fraction test define the new distances on all
             samples, non-active entries start from the current minimum, the entry
             of the new selection is covered; the same running minimum follows; the
             first step as a whole (initialisation + first table update, explicit or
             calibrated switching point) leaves the FPS distances to the initial pick;
             the pick itself is the shared step of plain FPS (argmax with the selected
             candidates excluded);
 R-RUNMIN    score / get_distance hand out the current table, get_select_distance the
             recorded selection distances;
 TAINT-TIME  values derived from time() reach only the calibrated switching point
             and, through it, the single branch between the two arms; no other
             attribute, buffer size, index or distance;
 R-PADPAIR   dSL_ is allocated with the resolved n_to_select and re-extended on warm start.
Not decided: equality of selections under floating-point ties (the pruning lemma
is a mathematical fact about c <= 1/4, cited not checked).
"""
from .. import protocols
from ..harness import arr, index, integer, scalar
from .. import tq
from ..interp import State
from ..terms import Dim, T, V, vconst

FLOOR = 18


def check(ctx):
    # positional parameters keep their documented positions (a reordering survives every keyword call)
    from ..sigrules import signatures as _signatures

    _signatures(ctx, "R-SIG", classes=('skmatter.sample_selection.VoronoiFPS',))
    P = ctx.P
    N = ctx.normalizer()
    cls = P.cls("skmatter.sample_selection.VoronoiFPS")
    X, y, l = arr("X", "N", "M"), arr("y", "N", "P"), index("l", "N")
    norms, H, Hs = arr("norms", "N", inp=False), arr("H", "N", inp=False), arr("Hsel", "N", inp=False)
    vloc, dSL = arr("vloc", "N", inp=False, dtype="int"), arr("dSL", "S", inp=False)
    Xs, sel = arr("Xsel", "S", "M", inp=False), arr("sel", "S", inp=False, dtype="int")
    nsel = V("int", T("sym", "n_selected"), shape=(), extra=("range", 1, float("inf"), False, True))
    ff = scalar("ff", 0, 1, True, False)

    def attrs():
        return {"_axis": 0, "norms_": norms, "hausdorff_": H, "hausdorff_at_select_": Hs, "vlocation_of_idx": vloc, "dSL_": dSL, "X_selected_": Xs, "selected_idx_": sel, "n_selected_": nsel, "full_fraction": ff}

    # ---- _get_active --------------------------------------------------------------
    I, st = ctx.interp(), State()
    o = ctx.bare_object(I, st, cls, attrs())
    act = ctx.call_method(I, st, o, "_get_active", X, l)
    I2, s2 = ctx.interp(), State()
    ref = ctx.call_func(I2, s2, "ref.selection_ref.voronoi_active", X, norms, H, Xs, sel, nsel, vloc, dSL, l)
    site = ctx.site(P.method(cls, "_get_active"))
    ctx.compare("NF-DIST", "dSL_ = 1/4 of the FPS distance between each selected point and the new one", N, ctx.attr(st, o, "dSL_"), ref.items[0], site)
    ctx.compare("NF-DIST", "active points: dSL_[cell(x)] < hausdorff_[x]", N, act, ref.items[1], site)
    ctx.no_shape_conflicts("Shape", "VoronoiFPS._get_active", I, 0, site)
    # R-INDEXSPACE: the write goes to the first n_selected_ slots of dSL_
    t = ctx.attr(st, o, "dSL_").term
    ok = t.op == "store" and tq.has_sym(t.args[1], "n_selected") and t.args[1].op == "slice"
    ctx.ob("R-INDEXSPACE", "dSL_ written on [:n_selected_]", ok, f"store index {t.args[1]!r}" if t.op == "store" else repr(t)[:200], site)
    # first call (nothing selected yet): every point is active
    I, st = ctx.interp(), State()
    a0 = attrs()
    a0["n_selected_"] = vconst(0)
    o = ctx.bare_object(I, st, cls, a0)
    act0 = ctx.call_method(I, st, o, "_get_active", X, l)
    ctx.ob("R-BOTHARMS", "with nothing selected every point is active", N.nf(act0.term) == N.nf(T("astype", T("arange", T("dim", Dim.of("N"))), "int")), f"{act0.term!r}", site)
    # ---- _update_post_selection -------------------------------------------------------
    active = arr("active", "A", inp=False, dtype="int")

    hits = []

    def stub_active(interp, clo, args, kw, st_, node):
        hits.append(1)
        return active

    I, st = ctx.interp(stubs={"VoronoiFPS._get_active": stub_active}, order=[("A", ">=", 1)]), State()
    at = attrs()
    o = ctx.bare_object(I, st, cls, at)
    ctx.call_method(I, st, o, "_update_post_selection", X, y, l)
    I2, s2 = ctx.interp(order=[("A", ">=", 1)]), State()
    ref = ctx.call_func(I2, s2, "ref.selection_ref.voronoi_update", X, norms, H, Hs, vloc, active, nsel, l, ff)
    site = ctx.site(P.method(cls, "_update_post_selection"))
    if not hits:
        # the step no longer obtains the active set from _get_active (the anchor the obligations below hang on): undecided
        ctx.error("R-BOTHARMS", "the selection step obtains its active set from _get_active", "VoronoiFPS._update_post_selection does not call _get_active: the step was restructured and cannot be compared with the reference step", site)
        _calibration(ctx, N, cls)
        return
    # an equivalent spelling of the reference step (only the recomputed entries are compared and written on the pruned arm)
    try:
        I2b, s2b = ctx.interp(order=[("A", ">=", 1)]), State()
        alt = ctx.call_func(I2b, s2b, "ref.selection_ref.voronoi_update_active_only", X, norms, H, Hs, vloc, active, nsel, l, ff)
        alts = [[alt.items[k]] for k in range(3)]
    except Exception:
        alts = [[], [], []]
    ctx.compare("R-BOTHARMS", "hausdorff_ after one step (both arms, running minimum)", N, ctx.attr(st, o, "hausdorff_"), ref.items[1], site, alternatives=alts[1])
    ctx.compare("R-RUNMIN", "hausdorff_at_select_ recorded before the update", N, ctx.attr(st, o, "hausdorff_at_select_"), ref.items[0], site, alternatives=alts[0])
    ctx.compare("R-INDEXSPACE", "vlocation_of_idx of updated points and of the pick := n_selected_ before the increment", N, ctx.attr(st, o, "vlocation_of_idx"), ref.items[2], site, alternatives=alts[2])
    ctx.no_shape_conflicts("Shape", "VoronoiFPS._update_post_selection", I, 0, site)
    ns = ctx.attr(st, o, "n_selected_")
    ctx.ob("R-ONCE", "one selection advances n_selected_ by exactly one", N.nf(ns.term) == N.nf(T("add", nsel.term, T("const", __import__("fractions").Fraction(1)))), f"{ns.term!r}", site)
    # empty active set (the new point duplicates a selected one): the selection is still recorded
    I0 = ctx.interp(stubs={"VoronoiFPS._get_active": lambda i_, c_, a_, k_, s_, n_: arr("active0", 0, inp=False, dtype="int")})
    st0 = State()
    o0 = ctx.bare_object(I0, st0, cls, attrs())
    ctx.call_method(I0, st0, o0, "_update_post_selection", X, y, l)
    ns0 = ctx.attr(st0, o0, "n_selected_")
    ctx.ob("R-ONCE", "empty active set: the selection is still recorded (counter advanced by one)", N.nf(ns0.term) == N.nf(T("add", nsel.term, T("const", __import__("fractions").Fraction(1)))), f"{ns0.term!r}", site)
    sel0 = ctx.attr(st0, o0, "selected_idx_")
    ctx.ob("R-ONCE", "empty active set: the picked index is stored at the current slot", N.nf(sel0.term) == N.nf(T("store", sel.term, nsel.term, l.term)), f"{sel0.term!r}", site)
    h0 = ctx.attr(st0, o0, "hausdorff_")
    ctx.ob("R-BOTHARMS", "empty active set: the distance table is left unchanged", h0.term == H.term, f"{h0.term!r}"[:120], site)
    # sibling agreement with plain FPS on the full arm
    I3, s3 = ctx.interp(), State()
    fps = ctx.call_func(I3, s3, "ref.selection_ref.fps_update", X, norms, H, Hs, l, 0)
    full = [e for e in I.events if e["kind"] == "setattr" and e["attr"] == "new_dist_" and e["pc"] and e["pc"][-1][1] is True]
    if ctx.ob("NF-DIST", "full arm found", len(full) == 1, f"{len(full)} candidates", site):
        ctx.ob("NF-DIST", "full arm distance == plain FPS distance", N.nf(T("emin", *sorted([H.term, full[0]["value"].term], key=repr))) == N.nf(fps.items[1].term), f"{full[0]['value'].term!r}", site)
    # the pick itself is the shared step of plain FPS
    from .C02 import _score_checks, pick_rule

    pick_rule(ctx, N, "R-BOTHARMS", ("VoronoiFPS",))
    # the readers hand out the tables the property speaks about (score / get_distance: the current minimum distances)
    _score_checks(ctx, N, cls, "sample_selection", 0, "N", "VoronoiFPS", rule="R-RUNMIN")
    # ---- norms definition == _FPS ---------------------------------------------------------------
    _calibration(ctx, N, cls)


def _mentions_outside_phi(t, name):
    """the symbol occurs in the condition itself, not merely inside a value that was
    joined over an earlier branch"""
    from ..terms import Term

    stack = [t]
    while stack:
        x = stack.pop()
        if not isinstance(x, Term) or x.op == "phi":
            continue
        if x.op == "sym" and x.args[0] == name:
            return True
        for a in x.args:
            if isinstance(a, Term):
                stack.append(a)
            elif isinstance(a, tuple):
                stack.extend(a)
    return False


def _calibration(ctx, N, cls):
    P = ctx.P
    site = ctx.site(P.method(cls, "_init_greedy_search"))

    def noop(interp, clo, args, kw, st_, node):
        return vconst(None)

    I = ctx.interp(stubs={"VoronoiFPS._update_post_selection": noop}, assume=protocols.assume_default)
    st = State()
    # the raw request is a fraction; the resolved number of selections is what the hook receives
    o = ctx.construct(I, st, cls, n_to_select=scalar("raw_request", 0, 1, True, False))
    st.heap[o.obj.id]["_axis"] = vconst(0)
    X, y = arr("X", "N", "M"), arr("y", "N", "P")
    lo = len(I.events)
    ctx.call_method(I, st, o, "_init_greedy_search", X, y, integer("S"))
    srcs = [e for e in I.events[lo:] if e["kind"] == "time-source"]
    ctx.ob("TAINT-TIME", "calibration block analysed (time sources found)", len(srcs) >= 2, f"{len(srcs)} time() calls", site)
    heap = st.heap[o.obj.id]
    tainted = sorted(k for k, v in heap.items() if "time" in v.labels)
    ctx.ob("TAINT-TIME", "time() reaches no attribute other than the switching point", tainted in ([], ["full_fraction"]), f"time-dependent attributes after initialisation: {tainted}", site)
    for a in ("dSL_", "vlocation_of_idx", "norms_", "hausdorff_", "hausdorff_at_select_", "selected_idx_", "X_selected_"):
        v = heap.get(a)
        ctx.ob("TAINT-TIME", f"{a} does not depend on timing", v is not None and "time" not in v.labels, f"labels {sorted(v.labels) if v is not None else None}", site, nontrivial=False)
    rawreads = [e for e in I.events[lo:] if e["kind"] == "getattr" and e["attr"] == "n_to_select" and e.get("obj") is o.obj]
    ctx.ob("R-PADPAIR", "the initialisation sizes its buffers from the resolved request, not from the raw hyper-parameter", not rawreads, f"raw n_to_select read: `{rawreads[0].get('src')}`" if rawreads else "resolved argument only", site)
    dsl = heap.get("dSL_")
    if dsl is not None and dsl.kind != "undef" and dsl.shape is not None and all(d.known() for d in dsl.shape):
        ctx.shape_is("R-PADPAIR", "dSL_ allocated with the resolved n_to_select", dsl, ("S",), site)
    else:
        ctx.ob("R-PADPAIR", "dSL_ allocated with the resolved n_to_select", False, f"dSL_ = {dsl!r}", site)
    ctx.shape_is("Shape", "vlocation_of_idx has one entry per sample", heap.get("vlocation_of_idx"), ("N",), site)
    ctx.no_shape_conflicts("Shape", "_init_greedy_search: extents agree, no reduced-precision buffer", I, lo, site)
    I2, s2 = ctx.interp(), State()
    ref = ctx.call_func(I2, s2, "ref.selection_ref.fps_norms", X, 0)
    ctx.compare("NF-DIST", "norms_ defined as in plain FPS (sample direction)", N, heap.get("norms_"), ref, site)
    # the first pick is stored and is the candidate pushed through the first table update
    from ..harness import index as _index
    from ..terms import const as _const

    # an index obtained from numpy (np.argmax, an element of an index array) is an integer too
    for vname, init_v in (("int", _index("i0", "N")), ("numpy integer", _index("i0", "N", labels=("numpy-scalar",))), ("random", vconst("random"))):
        pushed = []

        def rec(interp, clo, args, kw, st_, node):
            pushed.append(args[2] if len(args) > 2 else kw.get("last_selected"))
            return vconst(None)

        Ii = ctx.interp(stubs={"VoronoiFPS._update_post_selection": rec}, assume=protocols.assume_default)
        si = State()
        oi = ctx.construct(Ii, si, cls, n_to_select=integer("S"), full_fraction=scalar("ff", 0, 1, True, False))
        hi = si.heap[oi.obj.id]
        hi["_axis"], hi["initialize"] = vconst(0), init_v
        ctx.call_method(Ii, si, oi, "_init_greedy_search", X, y, integer("S"))
        hi = si.heap[oi.obj.id]  # (a branch inside the call replaces the heap table: look the object up again)
        sel = hi.get("selected_idx_")
        ok = len(pushed) == 1 and sel is not None and pushed[0] is not None and N.nf(pushed[0].term) == N.nf(T("getitem", sel.term, _const(0)))
        if ok and vname in ("int", "numpy integer"):
            ok = N.nf(pushed[0].term) == N.nf(init_v.term)
        ctx.ob("R-INDEXSPACE", f"the initial pick is stored in slot 0 and is the point the tables are initialised from [{vname}]", ok, f"pushed {[repr(p_.term)[:80] if p_ is not None else None for p_ in pushed]} ; selected_idx_ = {None if sel is None else repr(sel.term)[:120]}", site, vname)
        if vname == "random" and sel is not None:
            # the random first pick is one of the samples: a single randint over the number of samples
            from ..apitable import dim_term as _dim_term

            from ..terms import const as _c0

            draws = [x for x in tq.walk_all(sel.term) if x.op == "rng" and x.args[1] == "randint"]
            okb = bool(draws) and all(tq.randint_range(x) == (_c0(0), _dim_term(Dim.of("N"))) for x in draws)
            ctx.ob("R-INDEXSPACE", "the random initial pick is drawn among the samples (randint over the number of samples)", okb, f"selected_idx_ = {repr(sel.term)[:200]}", site, vname)
    # every switching point in (0, 1] is accepted (1 = always the pruned arm is a documented setting)
    Iv = ctx.interp(stubs={"VoronoiFPS._update_post_selection": noop})
    sv = State()
    ov = ctx.construct(Iv, sv, cls, n_to_select=integer("S"), full_fraction=scalar("ffv", 0, 1, True, False))
    sv.heap[ov.obj.id]["_axis"] = vconst(0)
    lov = len(Iv.events)
    ctx.call_method(Iv, sv, ov, "_init_greedy_search", X, y, integer("S"))
    rej = [e for e in Iv.events[lov:] if e["kind"] == "raise" and any(tq.has_sym(c_, "ffv") for c_, _p in e["pc"])]
    ctx.ob("R-PADPAIR", "no switching point in (0, 1] is rejected", not rej, f"raise under {[repr(c_)[:80] for c_, _p in rej[0]['pc'] if tq.has_sym(c_, 'ffv')]}" if rej else "validation passes on the whole interval", site, "0 < full_fraction <= 1")
    # first step as a whole (initialisation + first table update, nothing replaced but the value of the switching
    # point, which becomes a symbol when the first update starts): the table holds the FPS distances to the initial
    # pick, whatever the switching point (explicit or calibrated) and the pick
    for cfg, kw in (("explicit switching point", {"full_fraction": scalar("ff0", 0, 1, True, False)}), ("calibrated switching point", {})):
        ffs = scalar("ff", 0, 1, True, False)
        seen = []

        def through(interp, clo, args, kw_, st_, node, ffs=ffs, seen=seen):
            seen.append(1)
            st_.heap[clo.self_v.obj.id]["full_fraction"] = ffs
            stubs_ = interp.config["stubs"]
            del stubs_["VoronoiFPS._update_post_selection"]
            try:
                names_ = [x.arg for x in clo.fi.node.args.args][1:][: len(args)]  # arguments already bound by position
                return interp.call_function(clo, args, {k_: v_ for k_, v_ in kw_.items() if k_ not in names_}, st_, node)
            finally:
                stubs_["VoronoiFPS._update_post_selection"] = through

        If = ctx.interp(stubs={"VoronoiFPS._update_post_selection": through}, assume=protocols.assume_default)
        sf = State()
        of = ctx.construct(If, sf, cls, n_to_select=integer("S"), **kw)
        i0 = _index("i0", "N")
        sf.heap[of.obj.id]["_axis"], sf.heap[of.obj.id]["initialize"] = vconst(0), i0
        lo_f = len(If.events)
        ctx.call_method(If, sf, of, "_init_greedy_search", X, y, integer("S"))
        hf = sf.heap[of.obj.id]
        I2f, s2f = ctx.interp(), State()
        nrm = ctx.call_func(I2f, s2f, "ref.selection_ref.fps_norms", X, 0)
        want = ctx.call_func(I2f, s2f, "ref.selection_ref.voronoi_first_table", X, nrm, i0, ffs)
        if ctx.ob("R-BOTHARMS", "the initialisation runs the first table update once", len(seen) == 1, f"{len(seen)} calls of _update_post_selection", site, cfg):
            try:
                I3f, s3f = ctx.interp(), State()
                alts_f = [ctx.call_func(I3f, s3f, "ref.selection_ref.voronoi_first_table_active_only", X, nrm, i0, ffs)]
            except Exception:
                alts_f = []
            ctx.compare("R-BOTHARMS", "after the initialisation the table holds the FPS distances to the initial pick", N, hf.get("hausdorff_"), want, site, cfg, alternatives=alts_f)
        ctx.no_shape_conflicts("Shape", "initialisation with its first table update", If, lo_f, site, cfg)
    # calibrated switching point together with a random first pick: the pick is drawn from a stream
    # that the timing trials have not advanced
    Ir = ctx.interp(stubs={"VoronoiFPS._update_post_selection": noop}, assume=protocols.assume_default)
    sr = State()
    orr = ctx.construct(Ir, sr, cls, n_to_select=integer("S"), initialize="random")
    sr.heap[orr.obj.id]["_axis"] = vconst(0)
    ctx.call_method(Ir, sr, orr, "_init_greedy_search", X, y, integer("S"))
    selr = sr.heap[orr.obj.id].get("selected_idx_")
    ctx.ob("TAINT-TIME", "the random first pick does not depend on the timing trials", selr is not None and selr.kind != "undef" and "time" not in selr.labels, f"selected_idx_ labels {sorted(selr.labels) if selr is not None else None}: {repr(selr.term)[:160] if selr is not None else None}", site, "initialize=random, calibrated")
    # refit: every table is rebuilt from the new data
    from .C08 import _fitted_state

    Is = ctx.interp(stubs={"VoronoiFPS._update_post_selection": noop}, assume=protocols.assume_default)
    ss = State()
    stale = {k: v for k, v in _fitted_state("VoronoiFPS", 0, "N").items() if isinstance(v, V)}
    stale = {k: (arr("stale_" + k, *[repr(d) for d in v.shape], inp=False) if v.shape not in (None, ()) else v) for k, v in stale.items()}
    stale.update({"_axis": 0, "initialize": 0, "random_state": 0, "full_fraction": scalar("ff", 0, 1, True, False), "n_trial_calculation": 4})
    os_ = ctx.bare_object(Is, ss, cls, stale)
    ctx.call_method(Is, ss, os_, "_init_greedy_search", X, y, integer("S"))
    hs = ss.heap[os_.obj.id]


    left = sorted(k for k in ("norms_", "hausdorff_", "hausdorff_at_select_", "vlocation_of_idx", "dSL_", "X_selected_", "selected_idx_") if k in hs and any(x.op == "sym" and str(x.args[0]).startswith("stale_") for x in tq.walk_all(hs[k].term)))
    ctx.ob("R-PADPAIR", "a refit rebuilds norms, distance tables and cell bookkeeping from the new data", not left, f"still holding values of the previous fit: {left}", site)
    # one step with a timing-dependent switching point: exactly one branch depends on it
    I = ctx.interp(order=[("A", ">=", 1)], stubs={"VoronoiFPS._get_active": lambda i, c, a, k, s, n: arr("active", "A", inp=False, dtype="int")})
    st = State()
    ff = scalar("ff", 0, 1, True, False, labels=("time",))
    o = ctx.bare_object(I, st, cls, {"_axis": 0, "norms_": arr("norms", "N", inp=False), "hausdorff_": arr("H", "N", inp=False), "hausdorff_at_select_": arr("Hsel", "N", inp=False), "vlocation_of_idx": arr("vloc", "N", inp=False, dtype="int"), "dSL_": arr("dSL", "S", inp=False), "X_selected_": arr("Xsel", "S", "M", inp=False), "selected_idx_": arr("sel", "S", inp=False, dtype="int"), "n_selected_": V("int", T("sym", "n_selected"), shape=()), "full_fraction": ff})
    ctx.call_method(I, st, o, "_update_post_selection", X, y, index("l", "N"))
    br = [e for e in I.events if e["kind"] == "branch" and "time" in (e.get("labels") or ()) and _mentions_outside_phi(e["cond"], "ff")]
    site2 = ctx.site(P.method(cls, "_update_post_selection"))
    ctx.ob("TAINT-TIME", "exactly one branch of a selection step depends on the switching point", len(br) == 1, f"{[(e['short'], e['src']) for e in br]}", site2)
    ctx.no_shape_conflicts("Shape", "one selection step: extents agree, no unguarded float index", I, 0, site2)
    heap = st.heap[o.obj.id]
    for a in ("selected_idx_", "X_selected_", "n_selected_", "dSL_", "hausdorff_at_select_"):
        v = heap[a]
        ctx.ob("TAINT-TIME", f"{a} after a step is independent of the arm taken", "time" not in v.labels, f"labels {sorted(v.labels)}", site2, nontrivial=False)
    # warm start: dSL_ re-extended
    I, st = ctx.interp(), State()
    o = ctx.bare_object(I, st, cls, {"_axis": 0, "dSL_": arr("dSL", "Q", inp=False), "X_selected_": arr("Xsel", "Q", "M", inp=False), "selected_idx_": arr("sel", "Q", inp=False, dtype="int"), "n_selected_": integer("Q")})
    ctx.call_method(I, st, o, "_continue_greedy_search", X, vconst(None), integer("S"))
    site3 = ctx.site(P.method(cls, "_continue_greedy_search"))
    ctx.shape_is("R-PADPAIR", "dSL_ re-extended to the new n_to_select on warm start", ctx.attr(st, o, "dSL_"), ("S",), site3)
    want = T("stack", T("const", __import__("fractions").Fraction(0)), T("sym", "dSL"), T("zeros", T("dim", Dim.of("S") - Dim.of("Q"))))
    ctx.ob("R-PADPAIR", "dSL_ keeps its prefix (zero padding at the end)", N.nf(ctx.attr(st, o, "dSL_").term) == N.nf(want), f"{ctx.attr(st, o, 'dSL_').term!r}", site3)
