"""C07 (static conformance): CUR / PCov-CUR select by leverage score on the
orthogonalised residual.

Decided from the source against ref/selection_ref.py:
 NF-PI      _CUR._compute_pi = sum of squared entries of the top-k left (samples) /
            right (features) singular vectors of the residual, seeded from
            random_state; _PCovCUR._compute_pi = same over the top-k eigenvectors,
            sorted by descending eigenvalue, of pcovr_kernel (samples) /
            pcovr_covariance (features) of the residual X and residual y;
 NF-ORTH    X_orthogonalizer = x - c_hat c_hat^T x; _orthogonalize(axis 0) is the
            transpose dual of axis 1; Y_feature_orthogonalizer = y - X pinv(X^T X) X^T y;
            Y_sample_orthogonalizer = y - X lstsq(X_ref, y_ref);
 R-ROLE     PCov-CUR passes (y_current_, X_selected_) in feature direction and the
            reference data with y_selected_[:n], X_selected_[:n] (same bound) in
            sample direction;
 R-CADENCE  one step = record selection, then (iff recompute_every != 0)
            orthogonalise, then (iff n_selected_ % recompute_every == 0 after the
            increment) refresh the scores, then zero the pick; warm start refreshes
            only if recompute_every != 0; _CUR and _PCovCUR agree;
 Shape      pi_ has the length of the selection axis; X_current_ is a copy.
Not decided: numerical orthogonality, svds/eigsh convergence, ties.
"""
from .. import protocols
from ..harness import arr, index, integer, scalar
from .. import tq
from ..interp import State
from ..terms import FRESH, Dim, T, V, vconst, fresh_id

FLOOR = 60


def _assume(term, node, interp):
    # the selected column is not numerically zero (otherwise a warning path)
    c = tq.cmp_parts(term)
    if c is not None and c[1].op == "norm":
        return False
    if term.op == "raises":
        return False
    return None


def check(ctx):
    P = ctx.P
    N = ctx.normalizer()
    # the score parameters reach the search: the public classes hand k / recompute_every / tolerance / mixing on unchanged
    from .C01 import _forwarding

    _forwarding(ctx, rule="R-PARAMS", classes=("CUR", "PCovCUR"), only=("k", "recompute_every", "tolerance", "mixing"))
    # ---------------- NF-PI --------------------------------------------------------
    for pkg, axis, S in (("feature", 1, "M"), ("sample", 0, "N")):
        cls = P.cls(f"skmatter.{pkg}_selection.CUR")
        I, st = ctx.interp(), State()
        k, rs = integer("k"), scalar("seed")
        o = ctx.bare_object(I, st, cls, {"_axis": axis, "k": k, "random_state": rs})
        Xc = arr("Xc", "N", "M", inp=False)
        r = ctx.call_method(I, st, o, "_compute_pi", Xc)
        I2, s2 = ctx.interp(), State()
        ref = ctx.call_func(I2, s2, "ref.selection_ref.cur_pi", Xc, k, axis, rs)
        site = ctx.site(P.method(cls, "_compute_pi"))
        ctx.compare("NF-PI", f"CUR.{pkg}._compute_pi", N, r, ref, site, pkg)
        ctx.shape_is("Shape", f"CUR.{pkg}: pi has the length of the selection axis", r, (S,), site, pkg)
        ctx.no_shape_conflicts("Shape", f"CUR.{pkg}._compute_pi", I, 0, site, pkg)
        sinks = [e for e in I.events if e["kind"] == "rng-sink"]
        ctx.ob("NF-PI", f"CUR.{pkg}: svds seeded from random_state", len(sinks) == 1 and sinks[0]["seed"] is not None and sinks[0]["seed"].term == rs.term, f"{[(e['fn'], e['seed']) for e in sinks]}", site, pkg)
        cls = P.cls(f"skmatter.{pkg}_selection.PCovCUR")
        for small in (True, False):
            I, st = ctx.interp(order=[("k", "<", S + "") if small else ("k", ">=", S)], assume=lambda t, n, i, small=small: (small if tq.cmp_parts(t) is not None and tq.has_size(t, "k") else None)), State()
            mix = scalar("alpha", 0, 1, True, True)
            o = ctx.bare_object(I, st, cls, {"_axis": axis, "k": k, "mixing": mix})
            yc = arr("yc", "N", "P", inp=False)
            r = ctx.call_method(I, st, o, "_compute_pi", Xc, yc)
            I2, s2 = ctx.interp(), State()
            ref = ctx.call_func(I2, s2, "ref.selection_ref.pcov_cur_pi", Xc, yc, mix, k, axis, small)
            site = ctx.site(P.method(cls, "_compute_pi"))
            ctx.compare("NF-PI", f"PCovCUR.{pkg}._compute_pi [{'eigsh' if small else 'eigh'}]", N, r, ref, site, pkg)
            ctx.shape_is("Shape", f"PCovCUR.{pkg}: pi has the length of the selection axis [{'eigsh' if small else 'eigh'}]", r, (S,), site, pkg)
            ctx.no_shape_conflicts("Shape", f"PCovCUR.{pkg}._compute_pi [{'eigsh' if small else 'eigh'}]", I, 0, site, pkg)
    # ---------------- NF-ORTH -------------------------------------------------------------
    I, st = ctx.interp(assume=_assume), State()
    x1, c = arr("x1", "N", "M"), index("c", "M")
    r = ctx.call_func(I, st, "skmatter.utils.X_orthogonalizer", x1, c=c, tol=scalar("tol"), copy=True)
    I2, s2 = ctx.interp(), State()
    ref = ctx.call_func(I2, s2, "ref.selection_ref.project_out_column", x1, c)
    fo = P.func("skmatter.utils.X_orthogonalizer")
    ctx.compare("NF-ORTH", "X_orthogonalizer = x - c_hat c_hat^T x", N, r, ref, ctx.site(fo))
    ctx.no_shape_conflicts("Shape", "X_orthogonalizer", I, 0, ctx.site(fo))
    I, st = ctx.interp(), State()
    y, X, tol = arr("y", "N", "P"), arr("X", "N", "Q"), scalar("tol")
    r = ctx.call_func(I, st, "skmatter.utils.Y_feature_orthogonalizer", y, X, tol=tol)
    I2, s2 = ctx.interp(), State()
    ref = ctx.call_func(I2, s2, "ref.selection_ref.y_feature_residual", y, X, tol)
    ctx.compare("NF-ORTH", "Y_feature_orthogonalizer = y - X pinv(X^T X) X^T y", N, r, ref, ctx.site(P.func("skmatter.utils.Y_feature_orthogonalizer")))
    ctx.no_shape_conflicts("Shape", "Y_feature_orthogonalizer", I, 0)
    I, st = ctx.interp(), State()
    y, X, yr, Xr = arr("y", "N", "P"), arr("X", "N", "M"), arr("y_ref", "Q", "P"), arr("X_ref", "Q", "M")
    r = ctx.call_func(I, st, "skmatter.utils.Y_sample_orthogonalizer", y, X, yr, Xr, tol=tol)
    I2, s2 = ctx.interp(), State()
    ref = ctx.call_func(I2, s2, "ref.selection_ref.y_sample_residual", y, X, yr, Xr, integer("Q"), tol)
    ctx.compare("NF-ORTH", "Y_sample_orthogonalizer = y - X lstsq(X_ref, y_ref)", N, r, ref, ctx.site(P.func("skmatter.utils.Y_sample_orthogonalizer")))
    ctx.no_shape_conflicts("Shape", "Y_sample_orthogonalizer", I, 0)
    # ---------------- _orthogonalize of the classes (R-ROLE) --------------------------------
    for pkg, axis, S in (("feature", 1, "M"), ("sample", 0, "N")):
        for cname in ("CUR", "PCovCUR"):
            cls = P.cls(f"skmatter.{pkg}_selection.{cname}")
            I, st = ctx.interp(assume=_assume), State()
            Xc, yc = arr("Xc", "N", "M", inp=False), arr("yc", "N", "P", inp=False)
            Xs = arr("Xsel", "N", "S", inp=False) if axis == 1 else arr("Xsel", "S", "M", inp=False)
            ys = arr("ysel", "S", "P", inp=False)
            Xref, yref = arr("Xref", "N", "M", inp=False), arr("yref", "N", "P", inp=False)
            nsel = V("int", T("sym", "n_selected"), shape=())
            tol = scalar("tol")
            attrs = {"_axis": axis, "X_current_": Xc, "tolerance": tol, "X_selected_": Xs, "n_selected_": nsel}
            if cname == "PCovCUR":
                attrs.update({"y_current_": yc, "y_selected_": ys, "X_ref_": Xref, "y_ref_": yref})
            o = ctx.bare_object(I, st, cls, attrs)
            l = index("l", S)
            ctx.call_method(I, st, o, "_orthogonalize", l)
            I2, s2 = ctx.interp(assume=_assume), State()
            ref = ctx.call_func(I2, s2, "ref.selection_ref.cur_orthogonalize", Xc, l, axis)
            site = ctx.site(P.method(cls, "_orthogonalize"))
            ctx.compare("NF-ORTH", f"{cname}.{pkg}: X_current_ loses the span of the selected item", N, ctx.attr(st, o, "X_current_"), ref, site, pkg)
            ctx.no_shape_conflicts("Shape", f"{cname}.{pkg}._orthogonalize", I, 0, site, pkg)
            if cname == "PCovCUR":
                I2, s2 = ctx.interp(), State()
                if axis == 1:
                    ref = ctx.call_func(I2, s2, "ref.selection_ref.y_feature_residual", yc, Xs, tol)
                else:
                    ref = ctx.call_func(I2, s2, "ref.selection_ref.y_sample_residual", yref, Xref, ys, Xs, nsel, tol)
                ctx.compare("R-ROLE", f"PCovCUR.{pkg}: y_current_ = y minus its fit on the selected {'columns' if axis == 1 else 'samples only'}", N, ctx.attr(st, o, "y_current_"), ref, site, pkg)
    cadence(ctx, N)
    orthogonalizer_utils(ctx, N)
    # ---------------- cold initialisation: residual is a copy, scores from it ------------------------
    for pkg, axis, S in (("feature", 1, "M"), ("sample", 0, "N")):
        for cname in ("CUR", "PCovCUR"):
            cls = P.cls(f"skmatter.{pkg}_selection.{cname}")
            I, st = ctx.interp(), State()
            ctor = {"n_to_select": integer("S")}
            if cname == "PCovCUR":
                ctor["mixing"] = scalar("alpha", 0, 1, True, True)
            o = ctx.construct(I, st, cls, **ctor)
            st.heap[o.obj.id]["_axis"] = vconst(axis)
            X, y = arr("X", "N", "M"), arr("y", "N", "P")
            ctx.call_method(I, st, o, "_init_greedy_search", X, y if cname == "PCovCUR" else vconst(None), integer("S"))
            xc = ctx.attr(st, o, "X_current_")
            site = ctx.site(P.method(cls, "_init_greedy_search"))
            ctx.ob("Shape", f"{cname}.{pkg}: X_current_ is a private copy of X", xc is not None and xc.term == X.term and not any(o_[0] == "in" for o_ in xc.orig), f"origin {sorted(xc.orig)}", site, pkg)
            if cname == "PCovCUR":
                ycur = ctx.attr(st, o, "y_current_")
                ctx.ob("Shape", f"{cname}.{pkg}: y_current_ is a private copy of y", ycur is not None and ycur.term == y.term and not any(o_[0] == "in" for o_ in ycur.orig), f"origin {sorted(ycur.orig)}", site, pkg)
            ctx.shape_is("Shape", f"{cname}.{pkg}: pi_ length after initialisation", ctx.attr(st, o, "pi_"), (S,), site, pkg)


def cadence(ctx, N, RULE="R-CADENCE"):
    """refresh cadence of one selection step and of a warm start, with _compute_pi / _orthogonalize
    uninterpreted (shared with C08: a warm start must continue exactly the cold search)"""
    P = ctx.P
    # ---------------- R-CADENCE ---------------------------------------------------------------
    for pkg, axis, S in (("feature", 1, "M"), ("sample", 0, "N")):
        for cname in ("CUR", "PCovCUR"):
            cls = P.cls(f"skmatter.{pkg}_selection.{cname}")
            for re_name in ("0", "1", "r"):
                rec = {"0": vconst(0), "1": vconst(1), "r": V("int", T("sym", "r"), shape=(), extra=("range", 2, float("inf"), False, True))}[re_name]
                Xc, yc, pi = arr("Xc", "N", "M", inp=False), arr("yc", "N", "P", inp=False), arr("pi", S, inp=False)
                has_y = cname == "PCovCUR"

                def stub_pi(interp, clo, args, kw, st_, node):
                    yt = args[1].term if len(args) > 1 and args[1].kind != "none" else T("const", None)
                    return V("arr", T("PI", args[0].term, yt), shape=(Dim.of(S),), orig=frozenset([FRESH]), loc=fresh_id())

                def stub_orth(interp, clo, args, kw, st_, node, has_y=has_y):
                    h = st_.heap[clo.self_v.obj.id]
                    last = args[0] if args else kw["last_selected"]
                    xc = h["X_current_"]
                    h["X_current_"] = V("arr", T("ORTHX", xc.term, last.term), shape=xc.shape, orig=frozenset([FRESH]), loc=fresh_id())
                    if has_y:
                        ycur = h["y_current_"]
                        h["y_current_"] = V("arr", T("ORTHY", ycur.term, xc.term, last.term), shape=ycur.shape, orig=frozenset([FRESH]), loc=fresh_id())
                    return vconst(None)

                def ref_orth(interp, clo, args, kw, st_, node, has_y=has_y):
                    xc, ycur, last = args
                    nx = V("arr", T("ORTHX", xc.term, last.term), shape=xc.shape, orig=frozenset([FRESH]), loc=fresh_id())
                    ny = V("arr", T("ORTHY", ycur.term, xc.term, last.term), shape=ycur.shape, orig=frozenset([FRESH]), loc=fresh_id()) if has_y else ycur
                    return interp.mk_tuple([nx, ny])

                stubs = {f"_{cname}._compute_pi": stub_pi, f"_{cname}._orthogonalize": stub_orth, "compute_pi": stub_pi, "orthogonalize": ref_orth}
                I, st = ctx.interp(stubs=stubs), State()
                nsel = V("int", T("sym", "n_selected"), shape=())
                attrs = {"_axis": axis, "X_current_": Xc, "pi_": pi, "recompute_every": rec, "n_selected_": nsel, "selected_idx_": arr("sel", "S", inp=False, dtype="int"), "X_selected_": arr("Xsel", "N", "S", inp=False) if axis == 1 else arr("Xsel", "S", "M", inp=False)}
                if has_y:
                    attrs["y_current_"] = yc
                    if axis == 0:
                        attrs["y_selected_"] = arr("ysel", "S", "P", inp=False)
                o = ctx.bare_object(I, st, cls, attrs)
                X, y, l = arr("X", "N", "M"), arr("y", "N", "P"), index("l", S)
                ctx.call_method(I, st, o, "_update_post_selection", X, y if has_y else vconst(None), l)
                I2, s2 = ctx.interp(stubs=stubs), State()
                from ..apitable import binop

                n_after = ctx.attr(st, o, "n_selected_")
                ref = ctx.call_func(I2, s2, "ref.selection_ref.cur_step", Xc, yc if has_y else vconst(None), pi, V("int", T("add", nsel.term, T("const", __import__("fractions").Fraction(1))), shape=()), l, rec)
                site = ctx.site(P.method(cls, "_update_post_selection"))
                cfg = f"{pkg}.{cname} recompute_every={re_name}"
                ctx.compare(RULE, f"{cfg}: residual after one step", N, ctx.attr(st, o, "X_current_"), ref.items[0], site, cfg)
                if has_y:
                    ctx.compare(RULE, f"{cfg}: y residual after one step", N, ctx.attr(st, o, "y_current_"), ref.items[1], site, cfg)
                ctx.compare(RULE, f"{cfg}: scores after one step (refresh cadence, pick zeroed last)", N, ctx.attr(st, o, "pi_"), ref.items[2], site, cfg)
                # warm start
                I, st = ctx.interp(stubs=stubs, assume=_assume), State()
                attrs = dict(attrs)
                attrs["selected_idx_"] = arr("sel", "Q", inp=False, dtype="int")
                attrs["n_selected_"] = integer("Q")
                attrs["X_selected_"] = arr("Xsel", "N", "Q", inp=False) if axis == 1 else arr("Xsel", "Q", "M", inp=False)
                if "y_selected_" in attrs:
                    attrs["y_selected_"] = arr("ysel", "Q", "P", inp=False)
                attrs["tolerance"] = scalar("tol")
                o = ctx.bare_object(I, st, cls, attrs)
                ctx.call_method(I, st, o, "_continue_greedy_search", X, y if has_y else vconst(None), integer("S"))
                I2, s2 = ctx.interp(stubs=stubs), State()
                piv = ctx.attr(st, o, "pi_")
                site = ctx.site(P.method(cls, "_continue_greedy_search"))
                if re_name != "0":
                    xc_after = ctx.attr(st, o, "X_current_")
                    loops = [t for t in tq.walk_all(xc_after.term) if t.op == "loop"]
                    ok_it = bool(loops) and all(t.args[1] == attrs["selected_idx_"].term for t in loops)
                    ctx.ob(RULE, f"{cfg}: warm start re-orthogonalises exactly the previously selected items (before the index buffer is re-extended)", ok_it, f"loop over {[repr(t.args[1])[:80] for t in loops]}", site, cfg)
                    I3, s3 = ctx.interp(stubs=stubs), State()
                    refw = ctx.call_func(I3, s3, "ref.selection_ref.cur_warm_residual", Xc, yc if has_y else vconst(None), attrs["selected_idx_"], vconst(axis), attrs["tolerance"])
                    ctx.compare(RULE, f"{cfg}: warm start projects out each previous pick whose own residual (taken along the selection axis) exceeds the tolerance", N, xc_after, refw.items[0], site, cfg)
                    if has_y:
                        ctx.compare(RULE, f"{cfg}: warm start y residual", N, ctx.attr(st, o, "y_current_"), refw.items[1], site, cfg)
                if re_name == "0":
                    ctx.ob(RULE, f"{cfg}: warm start keeps the scores when they are never refreshed", piv.term == pi.term, f"pi_ after warm start = {piv.term!r}", site, cfg)
                    xc_after = ctx.attr(st, o, "X_current_")
                    ctx.ob(RULE, f"{cfg}: warm start does not orthogonalise when recompute_every == 0", xc_after.term == Xc.term, f"X_current_ = {xc_after.term!r}", site, cfg)
                else:
                    ok = piv.term.op == "PI" and piv.term.args[0] == ctx.attr(st, o, "X_current_").term
                    ctx.ob(RULE, f"{cfg}: warm start refreshes the scores from the current residual", ok, f"pi_ after warm start = {piv.term!r}", site, cfg)


def orthogonalizer_utils(ctx, N):
    """the public orthogonaliser helpers, both copy modes: same residual; copy=True leaves the argument alone"""
    P = ctx.P
    tol = scalar("tol", 0, None)
    for copy in (True, False):
        y, X = arr("y", "N", "P"), arr("Xs", "N", "Q")
        f = P.func("skmatter.utils.Y_feature_orthogonalizer")
        I, st = ctx.interp(), State()
        r = ctx.call_func(I, st, f, y, X, tol=tol, copy=copy)
        I2, s2 = ctx.interp(), State()
        ref = ctx.call_func(I2, s2, "ref.selection_ref.y_feature_residual", y, X, tol)
        ctx.compare("R-ROLE", f"Y_feature_orthogonalizer(copy={copy}) = y minus its fit on the given columns", N, r, ref, ctx.site(f), f"copy={copy}")
        muts = [e for e in I.events if e["kind"] == "mutate" and ("in", "y") in e["target"].orig]
        ctx.ob("R-ROLE", f"Y_feature_orthogonalizer(copy={copy}) {'leaves y untouched' if copy else 'updates y in place'}", bool(muts) != copy, f"{len(muts)} in-place updates of y", ctx.site(f), f"copy={copy}")
        f = P.func("skmatter.utils.Y_sample_orthogonalizer")
        yr, Xr, Xa = arr("y_ref", "Q", "P"), arr("X_ref", "Q", "M"), arr("Xa", "N", "M")
        I, st = ctx.interp(), State()
        r = ctx.call_func(I, st, f, y, Xa, yr, Xr, tol=tol, copy=copy)
        I2, s2 = ctx.interp(), State()
        ref = ctx.call_func(I2, s2, "ref.selection_ref.y_sample_residual", y, Xa, yr, Xr, integer("Q"), tol)
        ctx.compare("R-ROLE", f"Y_sample_orthogonalizer(copy={copy}) = y minus the prediction of the reference fit", N, r, ref, ctx.site(f), f"copy={copy}")
        muts = [e for e in I.events if e["kind"] == "mutate" and ("in", "y") in e["target"].orig]
        ctx.ob("R-ROLE", f"Y_sample_orthogonalizer(copy={copy}) {'leaves y untouched' if copy else 'updates y in place'}", bool(muts) != copy, f"{len(muts)} in-place updates of y", ctx.site(f), f"copy={copy}")
