"""C08 (static conformance): greedy selection is history independent.

Decided from the source:
 NONINTERFERENCE the requested count (raw n_to_select, its resolved value, the
             loop count) flows only into buffer extents, pad widths and the loop
             range (also with a random first pick), and a score threshold that is
             not reached flows into nothing: no score table, residual, distance table or stored selection
             value after fit carries its label, and none of those values mentions
             the requested extent except through prefix reads [:n_selected_]
             (one recorded exception: PCov-CUR feature direction hands the whole
             zero-padded X_selected_ to Y_feature_orthogonalizer - zero columns
             leave the projector unchanged);
 R-STATE     the warm-start path rewrites only the result buffers (and, for the
             CUR family with recompute_every != 0, the refreshed scores /
             re-orthogonalised residual); every other attribute read by the loop
             is left exactly as the previous fit left it;
 R-PREFIX    FPS initialised with a list of picks has recorded them as selection steps
             would (data, targets, indices, counter) - the "initialise with the
             already selected prefix" clause;
 R-WARMGUARD warm_start on a never-fitted (or empty) selector raises on every path;
 R-LOOPCOUNT the loop runs resolved_request - n_selected_ times after both cold
             and warm initialisation;
 R-REFRESH-GUARD / R-EXCL shared with C07 / C01 (recompute_every = 0 warm start,
             exclusion of earlier picks).
Not decided: equality of floating-point scores between chains.
"""
from .. import protocols
from ..harness import arr, index, integer, scalar
from .. import tq
from ..interp import State
from ..terms import Dim, T, Term, V, vconst

FLOOR = 60

CLASSES = []
for _pkg, _axis, _S in (("feature", 1, "M"), ("sample", 0, "N")):
    for _c in ("FPS", "CUR", "PCovFPS", "PCovCUR"):
        CLASSES.append((f"skmatter.{_pkg}_selection.{_c}", _pkg, _axis, _S))
CLASSES.append(("skmatter.sample_selection.VoronoiFPS", "sample", 0, "N"))

SINKS = ["pi_", "hausdorff_", "hausdorff_at_select_", "norms_", "X_current_", "y_current_", "pcovr_distance_", "vlocation_of_idx", "first_score_"]
EXCEPTIONS = {("feature", "PCovCUR", "y_current_"): "zero-padded X_selected_ handed whole to Y_feature_orthogonalizer: zero columns leave X pinv(X^T X) X^T unchanged", ("feature", "PCovCUR", "pi_"): "through y_current_ (same exception)"}


def _mentions_S(t):
    """the requested extent S occurs in the value other than under a bounded prefix read"""
    stack = [t]
    seen = set()
    while stack:
        x = stack.pop()
        if not isinstance(x, Term):
            if isinstance(x, tuple):
                stack.extend(x)
            continue
        if id(x) in seen:
            continue
        seen.add(id(x))
        if x.op == "getitem":
            idx = x.args[1]
            if any(s.op == "slice" and not all(a.op == "const" and a.args[0] is None for a in s.args) for s in idx.walk()):
                stack.append(idx)
                continue  # prefix read: the allocated extent is not observed
        if x.op == "dim":
            d = x.args[0]
            if tq._dim_mentions(d, "S"):
                return True
            continue
        if x.op == "sym" and x.args[0] in ("S", "frac"):
            return True
        stack.extend(x.args)
    return False


def check(ctx):
    # readers between warm starts keep nothing on the selector that a later warm start would leave stale
    for _pkg in ("feature", "sample"):
        for _c in ("FPS", "PCovFPS"):
            protocols.reader_state_obligations(ctx, "R-STATE", f"{_pkg}.{_c}", ctx.P.cls(f"skmatter.{_pkg}_selection.{_c}"))
    P = ctx.P
    N = ctx.normalizer()
    from .C07 import cadence

    cadence(ctx, N, "R-REFRESH-GUARD")  # a warm start refreshes / re-orthogonalises exactly as the cold search would
    # the stored results of a continued / repeated search (shared with C01): buffers re-extended keeping
    # the prefix, support mask rebuilt from the selected indices alone
    from .C01 import _support, warm_buffers

    for pkg_, axis_, S_ in (("feature", 1, "M"), ("sample", 0, "N")):
        for with_y_ in ((True, False) if axis_ == 0 else (False,)):
            warm_buffers(ctx, N, pkg_, axis_, S_, with_y_)
    _support(ctx, N)
    base = P.cls("skmatter._selection.GreedySelector")
    fit_site = ctx.site(P.method(base, "fit"))
    for cq, pkg, axis, S in CLASSES:
        cls = P.cls(cq)
        cname = cls.name
        # ------------- NONINTERFERENCE ------------------------------------------------------
        ctor = {"n_to_select": integer("S", labels=("nts",))}
        if "PCov" in cname:
            ctor["mixing"] = scalar("alpha", 0, 1, False, True)
        if cname == "VoronoiFPS":
            ctor["full_fraction"] = scalar("ff", 0, 1, True, False)
        if "CUR" in cname:
            ctor["recompute_every"] = 1
        cfg = f"{pkg}.{cname}"
        X, y = arr("X", "N", "M"), arr("y", "N", "P")
        # (a) cold initialisation: the resolved request only sizes buffers (also when the first pick is drawn at random)
        for init_kind in ((None, "random") if "FPS" in cname else (None,)):
            I = ctx.interp(order=[("S", "<=", S)], assume=protocols.assume_default)
            st = State()
            o = ctx.construct(I, st, cls, **(dict(ctor, initialize="random") if init_kind else ctor))
            st.heap[o.obj.id]["_axis"] = vconst(axis)
            ctx.call_method(I, st, o, "_init_greedy_search", X, y, integer("S", labels=("nts",)))
            heap = st.heap[o.obj.id]
            site_i = ctx.site(P.method(cls, "_init_greedy_search"))
            cfg_i = cfg + (" initialize=random" if init_kind else "")
            for a in SINKS:
                v = heap.get(a)
                if v is None or v.kind in ("undef", "none"):
                    continue
                ctx.ob("NONINTERFERENCE", f"{cfg_i}.{a} after cold initialisation does not depend on the requested count", "nts" not in v.labels, f"labels {sorted(v.labels)}: {repr(v.term)[:200]}", site_i, cfg_i)
        # (b) one greedy step on a symbolic mid-search state: decision and state update
        for with_thr in (False, True):
            I = ctx.interp(order=[("S", "<=", S)], assume=_assume_warm)
            st = State()
            o = ctx.construct(I, st, cls, **dict(ctor, score_threshold=scalar("thr", labels=("thr",))) if with_thr else ctor)
            stt = _fitted_state(cname, axis, S)
            for k in ("selected_idx_", "X_selected_", "y_selected_", "dSL_"):
                if k in stt:
                    sh = tuple("S" if repr(d) == "Q" else repr(d) for d in stt[k].shape)
                    stt[k] = arr(stt[k].term.args[0], *sh, inp=False, dtype=stt[k].extra if isinstance(stt[k].extra, str) else None)
            stt["n_selected_"] = V("int", T("sym", "n_selected"), shape=(), extra=("range", 1, float("inf"), False, True))
            stt.pop("recompute_every", None)
            if with_thr:
                stt["first_score_"] = scalar("first")
            st.heap[o.obj.id].update({k: (v if isinstance(v, V) else vconst(v)) for k, v in stt.items()})
            score = I.getattr_obj(o, "score", st)
            idx = ctx.call_method(I, st, o, "_get_best_new_selection", score, X, y)
            site_s = ctx.site(P.method(cls, "_update_post_selection"))
            tag = "with threshold" if with_thr else "no threshold"
            bad = _buffer_reads(idx.term)
            ctx.ob("NONINTERFERENCE", f"{cfg}: the chosen candidate does not depend on the requested count or buffer extents ({tag})", "nts" not in idx.labels and not bad, f"labels {sorted(idx.labels)}; whole-buffer reads {bad}: {repr(idx.term)[:200]}", ctx.site(P.method(cls, "_get_best_new_selection")), cfg)
            ctx.call_method(I, st, o, "_update_post_selection", X, y, index("l", S))
            heap = st.heap[o.obj.id]
            for a in SINKS:
                v = heap.get(a)
                if v is None or v.kind in ("undef", "none"):
                    continue
                if with_thr:
                    # a threshold that is not reached decides nothing: the state after a step is that of a search without one
                    ctx.ob("NONINTERFERENCE", f"{cfg}.{a} after one step does not depend on the score threshold", "thr" not in v.labels, f"labels {sorted(v.labels)}: {repr(v.term)[:200]}", site_s, cfg)
                    continue
                exc = EXCEPTIONS.get((pkg, cname, a))
                bad = _buffer_reads(v.term)
                if exc is not None:
                    ctx.ob("NONINTERFERENCE", f"{cfg}.{a} after one step (recorded exception)", bad == ["Xsel"] or not bad, f"{exc}; whole-buffer reads: {bad}", site_s, cfg, nontrivial=False)
                    continue
                ctx.ob("NONINTERFERENCE", f"{cfg}.{a} after one step does not depend on the requested count or buffer extents", "nts" not in v.labels and not bad, f"labels {sorted(v.labels)}; whole-buffer reads {bad}: {repr(v.term)[:200]}", site_s, cfg)
        # (a') a search initialised with a list of picks has recorded them as selection steps would
        if cname == "FPS":
            for with_y in ((False, True) if axis == 0 else (False,)):
                cfgp = f"{cfg} initialize=[i0,i1] y={with_y}"
                I = ctx.interp(order=[("S", "<=", S)], assume=protocols.assume_default)
                st = State()
                o = ctx.construct(I, st, cls, **ctor)
                i0, i1 = index("i0", S), index("i1", S)
                st.heap[o.obj.id]["_axis"] = vconst(axis)
                st.heap[o.obj.id]["initialize"] = I.mk_list([i0, i1])
                yv = y if with_y else vconst(None)
                nreq = integer("S")
                ctx.call_method(I, st, o, "_init_greedy_search", X, yv, nreq)
                I2, s2 = ctx.interp(), State()
                ref = ctx.call_func(I2, s2, "ref.selection_ref.prefix_init", X, yv, i0, i1, nreq, axis, with_y)
                ctx.compare("R-PREFIX", f"{cfgp}: X_selected_ holds the data of the initial picks in order", N, ctx.attr(st, o, "X_selected_"), ref.items[0], site_i, cfgp)
                if with_y:
                    ctx.compare("R-PREFIX", f"{cfgp}: y_selected_ holds the targets of the initial picks in order", N, ctx.attr(st, o, "y_selected_"), ref.items[1], site_i, cfgp)
                ctx.compare("R-PREFIX", f"{cfgp}: selected_idx_ holds the initial picks in order", N, ctx.attr(st, o, "selected_idx_"), ref.items[2], site_i, cfgp)
                ctx.compare("R-PREFIX", f"{cfgp}: the counter equals the number of initial picks", N, ctx.attr(st, o, "n_selected_"), ref.items[3], site_i, cfgp)
                # the distance tables as well: those of a search started at the first pick and advanced by the second
                Ib, sb = ctx.interp(order=[("S", "<=", S)], assume=protocols.assume_default), State()
                ob = ctx.construct(Ib, sb, cls, **ctor)
                sb.heap[ob.obj.id]["_axis"] = vconst(axis)
                sb.heap[ob.obj.id]["initialize"] = i0
                ctx.call_method(Ib, sb, ob, "_init_greedy_search", X, yv, nreq)
                ctx.call_method(Ib, sb, ob, "_update_post_selection", X, yv, i1)
                for tab in ("hausdorff_", "hausdorff_at_select_"):
                    ctx.compare("R-PREFIX", f"{cfgp}: {tab} is the table of the search that picked them one by one", N, ctx.attr(st, o, tab), ctx.attr(sb, ob, tab), site_i, cfgp)
        # (a'') a CUR-type search makes no selection while it is being set up: every selection goes through the scored
        # loop (and its bookkeeping - the score of a selected item is zeroed), for every refresh interval
        if "CUR" in cname:
            for rec in (0, 1, 2):
                cfgc = f"{cfg} recompute_every={rec} cold start"
                Ic = ctx.interp(order=[("S", "<=", S)], assume=protocols.assume_default)
                sc_ = State()
                oc = ctx.construct(Ic, sc_, cls, **dict(ctor, recompute_every=rec))
                sc_.heap[oc.obj.id]["_axis"] = vconst(axis)
                ctx.call_method(Ic, sc_, oc, "_init_greedy_search", X, y, integer("S"))
                nsel0 = ctx.attr(sc_, oc, "n_selected_")
                ctx.ob("R-STATE", f"{cfgc}: nothing is selected before the scored loop starts", nsel0 is not None and nsel0.has_const and nsel0.const == 0, f"n_selected_ after _init_greedy_search = {nsel0!r}", site_i, cfgc)
        # (c) loop count of the whole fit
        I = ctx.interp(order=[("S", "<=", S)], assume=protocols.assume_default)
        st = State()
        o = ctx.construct(I, st, cls, **ctor)
        ctx.call_method(I, st, o, "fit", X, y)
        heap = st.heap[o.obj.id]
        sel = heap["selected_idx_"]
        # loop count
        loops = [t for t in sel.term.walk() if t.op == "loop"]
        if ctx.ob("R-LOOPCOUNT", f"{cfg}: greedy loop found in the fitted state", len(loops) >= 1, f"{len(loops)} loop terms", fit_site, cfg):
            it = loops[0].args[1]
            n0 = 0 if "CUR" in cname else 1
            want = T("range", T("const", __import__("fractions").Fraction(0)), T("dim", Dim.of("S") - n0)) if True else None
            ctx.ob("R-LOOPCOUNT", f"{cfg}: cold fit iterates n_to_select - n_selected_ times", N.nf(it) == N.nf(want), f"loop range {it!r}, expected {want!r}", fit_site, cfg)
        # ------------- R-STATE: warm start path --------------------------------------------------
        for rec in ((0, 1) if "CUR" in cname else (None,)):
            I = ctx.interp(assume=_assume_warm)
            st = State()
            attrs = _fitted_state(cname, axis, S)
            if rec is not None:
                attrs["recompute_every"] = rec
            attrs["n_to_select"] = scalar("raw_request", 0, 1, True, False)  # the raw hyper-parameter may be a fraction / None
            o = ctx.bare_object(I, st, cls, attrs)
            pre = dict(st.heap[o.obj.id])
            lo_w = len(I.events)
            ctx.call_method(I, st, o, "_continue_greedy_search", X, y if (axis == 0 or "PCov" in cname) else vconst(None), integer("S"))
            post = st.heap[o.obj.id]
            raw = [e for e in I.events[lo_w:] if e["kind"] == "getattr" and e["attr"] == "n_to_select" and e.get("obj") is o.obj]
            ctx.ob("R-PADPAIR", f"{cfg}{' recompute_every=' + str(rec) if rec is not None else ''}: the warm path sizes buffers from the resolved request, not the raw hyper-parameter", not raw, f"raw n_to_select read in {sorted({e['short'] for e in raw})}" if raw else "resolved argument only", ctx.site(P.method(cls, "_continue_greedy_search")), cfg)
            if rec == 1:
                xc = post["X_current_"]
                loops = [t for t in tq.walk_all(xc.term) if t.op == "loop"]
                ctx.ob("R-STATE", f"{cfg} recompute_every=1: warm start re-orthogonalises exactly the previously selected items", bool(loops) and all(t.args[1] == pre["selected_idx_"].term for t in loops), f"loop over {[repr(t.args[1])[:80] for t in loops]}", ctx.site(P.method(cls, "_continue_greedy_search")), cfg)
            allowed = {"X_selected_", "y_selected_", "selected_idx_", "dSL_"}
            if rec == 1:
                allowed |= {"pi_", "X_current_", "y_current_"}
            changed = sorted(k for k in post if k in pre and post[k].term != pre[k].term and k not in allowed)
            new = sorted(k for k in post if k not in pre and post[k].kind != "undef")
            site = ctx.site(P.method(cls, "_continue_greedy_search"))
            c2 = f"{cfg} recompute_every={rec}" if rec is not None else cfg
            ctx.ob("R-STATE", f"{c2}: warm start leaves the loop state untouched", not changed and not new, f"attributes re-initialised by the warm path: {changed + new}" if (changed or new) else f"{len(pre)} attributes unchanged except the result buffers", site, c2)
            # selected prefix preserved
            ctx.shape_is("R-PADPAIR", f"{c2}: selected_idx_ re-extended to the new request", post["selected_idx_"], ("S",), site, c2)
        # ------------- R-WARMGUARD --------------------------------------------------------------------
        # (the flag may be a numpy boolean - the outcome of a comparison of numpy integers - as well as a Python one)
        np_true = V("bool", T("const", True), shape=(), has_const=True, const_=True, labels=frozenset(["numpy-scalar"]))
        for case in ("never fitted", "empty", "never fitted, numpy flag"):
            I = ctx.interp(assume=protocols.assume_default)
            st = State()
            o = ctx.construct(I, st, cls, **ctor)
            if case == "empty":
                st.heap[o.obj.id]["n_selected_"] = vconst(0)
            lo = len(I.events)
            ctx.call_method(I, st, o, "fit", arr("X", "N", "M"), arr("y", "N", "P"), warm_start=np_true if "numpy" in case else True)
            raises = [e for e in I.events[lo:] if e["kind"] == "raise" and e.get("short") == "GreedySelector.fit"]
            cont = [e for e in I.events[lo:] if e.get("short", "") and e.get("short", "").endswith("_continue_greedy_search")]
            inits = [e for e in I.events[lo:] if e.get("short", "") and e.get("short", "").endswith("_init_greedy_search")]
            ctx.ob("R-WARMGUARD", f"{cfg}: warm_start on a {case} selector is rejected before any continuation", len(raises) >= 1 and not cont and not inits, f"{len(raises)} raise(s), {len(cont)} events inside _continue_greedy_search, {len(inits)} inside _init_greedy_search", fit_site, cfg)
        # ------------- warm loop count -------------------------------------------------------------------
        I = ctx.interp(order=[("Q", "<", "S")], assume=_assume_warm)
        st = State()
        o = ctx.construct(I, st, cls, **{k: v for k, v in ctor.items()})
        st.heap[o.obj.id].update({k: (v if isinstance(v, V) else vconst(v)) for k, v in _fitted_state(cname, axis, S).items() if k not in ("recompute_every",)})
        ctx.call_method(I, st, o, "fit", X, y, warm_start=True)
        sel = st.heap[o.obj.id]["selected_idx_"]
        # a warm start continues the same search: the relative-threshold reference is kept
        Iw = ctx.interp(order=[("Q", "<", "S")], assume=_assume_warm, stubs={"GreedySelector._get_best_new_selection": lambda i_, c_, a_, k_, s_, n_: index("picked", S)})
        sw = State()
        ow = ctx.construct(Iw, sw, cls, **dict(ctor, score_threshold=scalar("thr"), score_threshold_type="relative"))
        sw.heap[ow.obj.id].update({k: (v if isinstance(v, V) else vconst(v)) for k, v in _fitted_state(cname, axis, S).items() if k not in ("recompute_every",)})
        sw.heap[ow.obj.id]["first_score_"] = scalar("first0")
        ctx.call_method(Iw, sw, ow, "fit", X, y, warm_start=True)
        fs = sw.heap[ow.obj.id].get("first_score_")
        ctx.ob("R-STATE", f"{cfg}: a warm-started fit keeps the relative-threshold reference of the search it continues", fs is not None and tq.has_sym(fs.term, "first0") and fs.kind != "none", f"first_score_ after the warm fit: {fs!r}", fit_site, cfg)
        loops = [t for t in sel.term.walk() if t.op == "loop"]
        if ctx.ob("R-LOOPCOUNT", f"{cfg}: greedy loop found after warm start", len(loops) >= 1, f"{len(loops)} loop terms", fit_site, cfg):
            it = loops[0].args[1]
            want = T("range", T("const", __import__("fractions").Fraction(0)), T("dim", Dim.of("S") - Dim.of("Q")))
            ctx.ob("R-LOOPCOUNT", f"{cfg}: warm fit iterates n_to_select - n_selected_ times", N.nf(it) == N.nf(want), f"loop range {it!r}, expected {want!r}", fit_site, cfg)


BUFFERS = {"Xsel", "ysel", "sel", "dSL"}


def _buffer_reads(t):
    """result buffers that are read as a whole (not through a bounded prefix slice)"""
    out = set()
    stack = [t]
    seen = set()
    while stack:
        x = stack.pop()
        if not isinstance(x, Term):
            if isinstance(x, tuple):
                stack.extend(x)
            continue
        if id(x) in seen:
            continue
        seen.add(id(x))
        if x.op == "getitem":
            # an element / prefix read: the allocated extent of the buffer is not observed
            idx = x.args[1]
            full = idx.op == "slice" and all(a.op == "const" and a.args[0] is None for a in idx.args)
            if not full:
                core = x.args[0]
                while isinstance(core, Term) and core.op == "store":
                    stack.append(core.args[1])
                    stack.append(core.args[2])
                    core = core.args[0]
                stack.append(idx)
                if not (core.op == "sym" and core.args[0] in BUFFERS):
                    stack.append(core)
                continue
        if x.op == "sym" and x.args[0] in BUFFERS:
            out.add(x.args[0])
            continue
        stack.extend(x.args)
    return sorted(out)


def _assume_warm(term, node, interp):
    if term.op == "raises":
        return False
    c = tq.cmp_parts(term)
    if c is not None and c[2].op == "norm":
        return True  # residual column of an already selected item is re-orthogonalised
    return None


def _stored_values(t):
    out = []
    stack = [t]
    seen = set()
    while stack:
        x = stack.pop()
        if not isinstance(x, Term) or id(x) in seen:
            continue
        seen.add(id(x))
        if x.op == "store":
            out.append(x.args[2])
            stack.append(x.args[0])
        elif x.op in ("loop", "phi", "head", "pad", "astype", "getitem"):
            stack.extend(a for a in x.args if isinstance(a, Term))
    return out


def _fitted_state(cname, axis, S):
    st = {
        "_axis": axis,
        "n_selected_": integer("Q"),
        "selected_idx_": arr("sel", "Q", inp=False, dtype="int"),
        "X_selected_": arr("Xsel", "N", "Q", inp=False) if axis == 1 else arr("Xsel", "Q", "M", inp=False),
        "first_score_": vconst(None),
        "support_": arr("support", S, inp=False, dtype="bool"),
    }
    if axis == 0:
        st["y_selected_"] = arr("ysel", "Q", "P", inp=False)
    if "FPS" in cname:
        st.update({"norms_": arr("norms", S, inp=False), "hausdorff_": arr("H", S, inp=False), "hausdorff_at_select_": arr("Hsel", S, inp=False)})
    if cname == "PCovFPS":
        st["pcovr_distance_"] = arr("Mt", S, S, inp=False)
    if cname == "VoronoiFPS":
        st.update({"vlocation_of_idx": arr("vloc", "N", inp=False, dtype="int"), "dSL_": arr("dSL", "Q", inp=False), "new_dist_": arr("newd", "N", inp=False)})
    if "CUR" in cname:
        st.update({"pi_": arr("pi", S, inp=False), "X_current_": arr("Xc", "N", "M", inp=False), "tolerance": scalar("tol"), "recompute_every": 1, "k": integer("k"), "random_state": 0})
    if cname == "PCovCUR":
        st.update({"y_current_": arr("yc", "N", "P", inp=False), "X_ref_": arr("Xref", "N", "M", inp=False), "y_ref_": arr("yref", "N", "P", inp=False), "mixing": scalar("alpha", 0, 1, True, True)})
    return st
