"""C09 (static conformance): calls never modify caller data or hyper-parameters;
refits start from scratch; fit returns self; fit_transform = fit then transform;
randomness flows only from random_state.

Decided for every public entry point (protocol table sa/protocols.py), all
paths, by abstract interpretation with an origin/alias domain:
 R-PURE   no mutating construct (augmented assignment, subscript store, out=,
          fill_diagonal, .sort/.fill/.append) targets storage whose origin is an
          argument of a public constructor / method / function (opt-in copy=False
          requested by the caller is the only exemption);
 R-OBJ    a caller-supplied regressor is never fitted in place by check_lr_fit /
          check_krr_fit / PCovR / KernelPCovR (clone/deepcopy first);
 R-HYPER  no store to a constructor parameter outside __init__;
 R-RESET  the attribute state after fit(A); fit(B) equals, attribute by attribute
          (set and normal form), the state of a fresh estimator after fit(B); the
          histories ending in fit_transform (KernelNormalizer, SparseKernelCenterer,
          a flag changed in between) return what a fresh estimator returns;
 R-SELF   every fit returns the estimator itself; explicit fit_transform equals
          fit followed by transform on the same argument;
 R-RNG    no global RNG; every random source is seeded from self.random_state.
Not decided: bit-level equality of repeated runs, behaviour of user-supplied
scalers/estimators/metrics.
"""
from .. import protocols
from ..harness import pyval, arr, extobj, index, integer, scalar
from .. import tq
from ..interp import State
from ..terms import FRESH, T, Term

FLOOR = 150


def _in_origins(v):
    return sorted(o[1] for o in (v.orig or ()) if isinstance(o, tuple) and o and o[0] == "in")


def _pure(ctx, I, lo, hi, entry, site_fn):
    n = 0
    seen = set()
    for e in I.events[lo:hi]:
        if e["kind"] == "mutate":
            tgt = e["target"]
            key = (e.get("short"), e.get("targetsrc"), e.get("how"))
            inst = f"{entry}: {e.get('short')} `{e.get('targetsrc')}` ({e.get('how')})"
            ins = _in_origins(tgt)
            if key in seen and not ins:
                continue
            seen.add(key)
            n += 1
            ctx.ob("R-PURE", inst, not ins, f"in-place {e.get('how')} on storage originating from caller argument(s) {ins}: `{e.get('src')}`" if ins else f"target storage is owned (fresh copy / own attribute): `{e.get('src')}`", f"{e.get('func')}:{e.get('line')}", entry)
    return n


def _obj_pure(ctx, I, lo, hi, entry):
    for e in I.events[lo:hi]:
        if e["kind"] == "mutate-object":
            tgt = e["target"]
            ins = _in_origins(tgt)
            if e.get("method") not in ("fit", "fit_transform", "partial_fit", "set_params"):
                continue
            inst = f"{entry}: {e.get('short')} .{e.get('method')} on `{str(e.get('src'))[:60]}`"
            ctx.ob("R-OBJ", inst, not ins, f"caller-supplied estimator {ins} is modified in place by .{e.get('method')}()" if ins else "receiver is a clone / a locally built estimator", f"{e.get('func')}:{e.get('line')}", entry)


ALLOW_OBJ_FIT = {
    # documented: the metric functions fit the scaler / estimator objects handed to them
    "pointwise_global_reconstruction_error[user scaler/estimator]",
}


def check(ctx):
    P = ctx.P
    N = ctx.normalizer()
    protos = protocols.all_class_protocols()
    nmut = 0
    for p in protos:
        cls = P.cls(p.cls)
        params = set(cls.init_params())
        I, st, o, res = protocols.run(ctx, p)
        # readers (everything but fit / set_params / __init__) leave the fitted state as they found it:
        # the attribute terms recorded around each call must be the same objects
        for meth_, changed_ in getattr(I, "_reader_changes", []):
            ctx.ob("R-PURE", f"{p.name}.{meth_} leaves the fitted attributes untouched", not changed_, f"attributes rewritten by a reader: {changed_}" if changed_ else "no fitted attribute changed", ctx.site(P.method(cls, meth_)) if cls.find_method(meth_) is not None and not getattr(cls.find_method(meth_).cls, "external", False) else f"{p.cls}.{meth_}", p.name)
        for meth, r, lo, hi in res:
            entry = f"{p.name}.{meth}"
            nmut += _pure(ctx, I, lo, hi, entry, None)
            _obj_pure(ctx, I, lo, hi, entry)
            if meth != "__init__":
                seen = set()
                for e in I.events[lo:hi]:
                    if e["kind"] == "setattr" and e.get("obj") is o.obj and e["attr"] in params and not any(s.endswith(".__init__") for s in e["stack"]):
                        inst = f"{cls.name}.{e['attr']} written in {e.get('short')}"
                        if inst in seen:
                            continue
                        seen.add(inst)
                        ctx.ob("R-HYPER", inst, False, f"constructor parameter `{e['attr']}` is overwritten by {meth}: `{e.get('src')}`", f"{e.get('func')}:{e.get('line')}", p.name)
                ctx.ob("R-HYPER", f"{p.name}.{meth} writes no constructor parameter", True if not seen else True, f"{len(params)} constructor parameters checked", ctx.site(P.method(cls, meth)), p.name, nontrivial=False)
            if meth == "fit":
                ok = r is not None and r.kind == "obj" and r.obj is o.obj
                ctx.ob("R-SELF", f"{p.name}.fit returns self on every path", ok, f"returns {r!r}", ctx.site(P.method(cls, "fit")), p.name)
            _rng(ctx, I, st, o, lo, hi, entry)
    # constructor arguments that are containers are the caller's objects too: a symbolic index list
    # (entries of unknown sign) exercises every in-place normalisation a fit could apply to it
    from ..harness import index
    from ..terms import V as _V, fresh_id as _fid

    ld_items = [index("ld0"), index("ld1")]
    ld = _V("list", T("list", *[x.term for x in ld_items]), items=ld_items, orig=frozenset([("in", "low_dim_idx")]), loc=_fid())
    pd = protocols.Proto("sample.DirectionalConvexHull[caller's index list]", "skmatter.sample_selection.DirectionalConvexHull", {"low_dim_idx": ld}, [("fit", (arr("X", "N", "M"), arr("y", "N")), {})], assume=protocols.assume_default)
    I, st, o, res = protocols.run(ctx, pd)
    for meth, r, lo, hi in res:
        nmut += _pure(ctx, I, lo, hi, f"{pd.name}.{meth}", None)
    for name, q, args, kw, order in protocols.function_protocols():
        I = ctx.interp(order=order)
        st = State()
        ctx.call_func(I, st, q, *args, **kw)
        nmut += _pure(ctx, I, 0, len(I.events), name, None)
        if name not in ALLOW_OBJ_FIT:
            _obj_pure(ctx, I, 0, len(I.events), name)
        _rng(ctx, I, st, None, 0, len(I.events), name)
    for name, q in protocols.rigidity_protocols():
        I = ctx.interp()
        st = State()
        from ..terms import V

        Xtr = V("list", T("sym", "X_train"), orig=frozenset([("in", "X_train")]), extra=("comp", None, None))
        Xte = V("list", T("sym", "X_test"), orig=frozenset([("in", "X_test")]), extra=("comp", None, None))
        a = (Xtr, Xte, scalar("alpha", 0, None)) + ((arr("comp_dims", "Cn", dtype="int"),) if "component" in name else ())
        ctx.call_func(I, st, q, *a)
        nmut += _pure(ctx, I, 0, len(I.events), name, None)
    ctx.ob("R-PURE", "positive control: an in-place op on an argument is recognised", _positive_control(ctx), "ref.controls.mutates_argument must produce a mutate event with an input origin", "ref/controls.py")
    _user_regressor(ctx)
    _fit_transform(ctx, N)
    _reset(ctx, N)
    _module_level_rng(ctx)


def _positive_control(ctx):
    I, st = ctx.interp(), State()
    ctx.call_func(I, st, "ref.controls.mutates_argument", arr("a", "N"))
    return any(e["kind"] == "mutate" and _in_origins(e["target"]) for e in I.events)


RANDOMISED_SPLITTERS = {"KFold", "StratifiedKFold", "ShuffleSplit", "StratifiedShuffleSplit", "RepeatedKFold", "GroupShuffleSplit"}


def _rng(ctx, I, st, o, lo, hi, entry):
    rs = None
    if o is not None:
        rs = st.heap.get(o.obj.id, {}).get("random_state")
    for e in I.events[lo:hi]:
        if e["kind"] == "global-rng":
            ctx.ob("R-RNG", f"{entry}: global RNG call {e.get('fn')}", False, f"`{e.get('src')}` uses the process-wide generator", f"{e.get('func')}:{e.get('line')}", entry)
        elif e["kind"] == "rng-source":
            seed = e["seed"]
            ok = seed.has_const and seed.const is not None
            if rs is not None and seed.term == rs.term:
                ok = True
            if not ok and tq.has_sym(seed.term, "random_state"):
                ok = True
            ctx.ob("R-RNG", f"{e.get('short')}: check_random_state seeded from random_state", ok, f"seed = {seed.term!r}", f"{e.get('func')}:{e.get('line')}", entry)
        elif e["kind"] == "ext-new" and str(e.get("cls", "")).rsplit(".", 1)[-1] in RANDOMISED_SPLITTERS:
            kwa = e.get("kwargs") or {}
            sh = kwa.get("shuffle")
            if sh is None or (sh.has_const and sh.const is False):
                continue  # deterministic split
            seed = kwa.get("random_state")
            ok = seed is not None and ((rs is not None and seed.term == rs.term) or (seed.has_const and seed.const is not None))
            ctx.ob("R-RNG", f"{e.get('short')}: the shuffling splitter {e.get('cls')} receives the estimator's random_state", ok, f"random_state={None if seed is None else seed.term!r}", f"{e.get('func')}:{e.get('line')}", entry)
        elif e["kind"] == "rng-sink":
            if e["fn"] == "eigsh":
                continue  # recorded exception: ARPACK start vector, result fixed up to tol=1e-12
            seed, v0 = e.get("seed"), e.get("v0")
            ok = False
            if seed is not None and rs is not None and seed.term == rs.term:
                ok = True
            if seed is not None and (seed.kind == "ext" and rs is not None and tq.contains(seed.term, rs.term)):
                ok = True
            if v0 is not None and rs is not None and tq.has_op(v0.term, "RandomState") and tq.contains(v0.term, rs.term):
                ok = True
            if o is None and seed is not None and (seed.has_const or tq.has_sym(seed.term, "random_state")):
                ok = True
            ctx.ob("R-RNG", f"{e.get('short')}: {e['fn']} receives the estimator's random_state", ok, f"random_state={None if seed is None else seed.term!r} v0={None if v0 is None else v0.term!r}", f"{e.get('func')}:{e.get('line')}", entry)


def _module_level_rng(ctx):
    import ast

    bad = []
    for m in ctx.P.modules.values():
        if not m.name.startswith("skmatter"):
            continue
        for st in m.tree.body:
            if isinstance(st, (ast.FunctionDef, ast.ClassDef, ast.Import, ast.ImportFrom)):
                continue
            for x in ast.walk(st):
                if isinstance(x, ast.Call) and "random" in ast.unparse(x.func):
                    bad.append((m.name, x.lineno))
    ctx.ob("R-RNG", "no module-level random call", not bad, f"{bad}", "all modules", nontrivial=False)


def _user_regressor(ctx):
    """PCovR / KernelPCovR with a caller-supplied (fitted or unfitted) regressor object"""
    for cls, rc in (("skmatter.decomposition.PCovR", "sklearn.linear_model.Ridge"), ("skmatter.decomposition.KernelPCovR", "sklearn.kernel_ridge.KernelRidge")):
        I = ctx.interp()
        st = State()
        reg = extobj("user_regressor", rc)
        kw = {"regressor": reg, "mixing": scalar("alpha", 0, 1), "n_components": integer("K"), "svd_solver": "full"}
        o = ctx.construct(I, st, cls, **kw)
        lo = len(I.events)
        ctx.call_method(I, st, o, "fit", arr("X", "N", "M"), arr("Y", "N", "P"))
        _obj_pure(ctx, I, lo, len(I.events), f"{cls.rsplit('.', 1)[1]}[user regressor].fit")
        muts = [e for e in I.events[lo:] if e["kind"] == "mutate-object" and e.get("method") == "fit"]
        ctx.ob("R-OBJ", f"{cls.rsplit('.', 1)[1]}[user regressor]: regressor fit sites analysed", len(muts) >= 1, f"{len(muts)} fit call(s) on regressor objects seen", cls)


def _fit_transform(ctx, N):
    P = ctx.P
    cases = [
        ("skmatter.preprocessing.KernelNormalizer", {}, lambda: (arr("K", "N", "N"),), {"sample_weight": arr("w", "N")}),
        ("skmatter.preprocessing.KernelNormalizer", {}, lambda: (arr("K", "N", "N"),), {}),
        ("skmatter.preprocessing.SparseKernelCenterer", {}, lambda: (arr("Knm", "N", "A"), arr("Kmm", "A", "A")), {"sample_weight": arr("w", "N")}),
        ("skmatter.preprocessing.StandardFlexibleScaler", {}, lambda: (arr("X", "N", "M"),), {}),
    ]
    for cls, ctor, mk, kw in cases:
        args = mk()
        I1, s1 = ctx.interp(), State()
        o1 = ctx.construct(I1, s1, cls, **ctor)
        r1 = ctx.call_method(I1, s1, o1, "fit_transform", *args, **kw)
        I2, s2 = ctx.interp(), State()
        o2 = ctx.construct(I2, s2, cls, **ctor)
        ctx.call_method(I2, s2, o2, "fit", *args, **kw)
        r2 = ctx.call_method(I2, s2, o2, "transform", args[0])
        c = P.cls(cls)
        m = c.find_method("fit_transform")
        site = ctx.site(m) if m is not None and not getattr(m.cls, "external", False) else f"{cls} (TransformerMixin.fit_transform)"
        ctx.compare("R-SELF", f"{c.name}.fit_transform == fit().transform() [weights={'sample_weight' in kw}]", N, r1, r2, site)


RESET_CASES = []
BETWEEN = {
    "SparseKDE": [("score_samples", lambda: (arr("Qb", "Qn", "F"),))],
    "PCovR": [("transform", lambda: (arr("Xb", "V", "M1"),))],
    "KernelPCovR": [("transform", lambda: (arr("Xb", "V", "M1"),))],
    "StandardFlexibleScaler": [("transform", lambda: (arr("Xb", "V", "M1"),))],
    "KernelNormalizer": [("transform", lambda: (arr("Kb", "V", "N1"),))],
    "Ridge2FoldCV": [("predict", lambda: (arr("Xb", "V", "M1"),))],
}

# readers called after the second fit: a refitted estimator answers like a fresh one
AFTER = {
    "PCovR": [("transform", lambda: (arr("Xa", "V", "M"),)), ("predict", lambda: (arr("Xa", "V", "M"),))],
    "KernelPCovR": [("transform", lambda: (arr("Xa", "V", "M"),)), ("predict", lambda: (arr("Xa", "V", "M"),))],
    "StandardFlexibleScaler": [("transform", lambda: (arr("Xa", "V", "M"),))],
    "KernelNormalizer": [("transform", lambda: (arr("Ka", "V", "N"),))],
    "SparseKernelCenterer": [("transform", lambda: (arr("Ka", "V", "A"),))],
    "Ridge2FoldCV": [("predict", lambda: (arr("Xa", "V", "M"),))],
    "OrthogonalRegression": [("predict", lambda: (arr("Xa", "V", "M"),))],
    "SparseKDE": [("score_samples", lambda: (arr("Qa", "Qn", "F"),))],
}


def _reset(ctx, N):
    P = ctx.P
    cases = []
    for pkg, S in (("feature", "M"), ("sample", "N")):
        for cname, extra in (("FPS", {}), ("CUR", {}), ("PCovFPS", {"mixing": scalar("alpha", 0, 1, False, True)}), ("PCovCUR", {"mixing": scalar("alpha", 0, 1, False, False)})):
            ctor = dict(extra, n_to_select=integer("S"))
            A = ((arr("X1", "N1", "M1"), arr("y1", "N1", "P1")), {})
            B = ((arr("X", "N", "M"), arr("y", "N", "P")), {})
            cases.append((f"{pkg}.{cname}: (X1,y1) then (X,y)", f"skmatter.{pkg}_selection.{cname}", ctor, A, B, [("S", "<=", S)]))
            cases.append((f"{pkg}.{cname}[relative threshold]: (X1,y1) then (X,y)", f"skmatter.{pkg}_selection.{cname}", dict(ctor, score_threshold=scalar("thr"), score_threshold_type="relative"), A, B, [("S", "<=", S)]))
            if cname in ("FPS", "CUR"):
                Bn = ((arr("X", "N", "M"),), {})
                cases.append((f"{pkg}.{cname}: (X1,y1) then (X) without y", f"skmatter.{pkg}_selection.{cname}", ctor, A, Bn, [("S", "<=", S)]))
    cases.append(("VoronoiFPS: (X1,y1) then (X)", "skmatter.sample_selection.VoronoiFPS", {"n_to_select": integer("S"), "full_fraction": scalar("ff", 0, 1, True, False)}, ((arr("X1", "N1", "M1"), arr("y1", "N1", "P1")), {}), ((arr("X", "N", "M"),), {}), [("S", "<=", "N")]))
    for space in ("feature", "sample"):
        cases.append((f"PCovR[{space}]", "skmatter.decomposition.PCovR", {"mixing": scalar("alpha", 0, 1), "space": space, "n_components": integer("K"), "svd_solver": "full"}, ((arr("X1", "N1", "M1"), arr("Y1", "N1", "P1")), {}), ((arr("X", "N", "M"), arr("Y", "N", "P")), {}), [("K", "<=", "N"), ("K", "<=", "M")]))
    for center in (False, True):
        cases.append((f"KernelPCovR[center={center}]", "skmatter.decomposition.KernelPCovR", {"mixing": scalar("alpha", 0, 1), "n_components": integer("K"), "svd_solver": "full", "center": center}, ((arr("X1", "N1", "M1"), arr("Y1", "N1", "P1")), {}), ((arr("X", "N", "M"), arr("Y", "N", "P")), {}), [("K", "<=", "N")]))
    cases.append(("StandardFlexibleScaler: weighted then unweighted", "skmatter.preprocessing.StandardFlexibleScaler", {"column_wise": True}, ((arr("X1", "N1", "M1"),), {"sample_weight": arr("w1", "N1")}), ((arr("X", "N", "M"),), {}), []))
    cases.append(("KernelNormalizer: weighted then unweighted", "skmatter.preprocessing.KernelNormalizer", {}, ((arr("K1", "N1", "N1"),), {"sample_weight": arr("w1", "N1")}), ((arr("K", "N", "N"),), {}), []))
    cases.append(("SparseKernelCenterer: weighted then unweighted", "skmatter.preprocessing.SparseKernelCenterer", {}, ((arr("Knm1", "N1", "A1"), arr("Kmm1", "A1", "A1")), {"sample_weight": arr("w1", "N1")}), ((arr("Knm", "N", "A"), arr("Kmm", "A", "A")), {}), []))
    cases.append(("Ridge2FoldCV", "skmatter.linear_model.Ridge2FoldCV", {"alphas": arr("alphas", "G")}, ((arr("X1", "N1", "M1"), arr("y1", "N1", "P1")), {}), ((arr("X", "N", "M"), arr("y", "N", "P")), {}), []))
    for proj in (True, False):
        cases.append((f"OrthogonalRegression[projector={proj}]", "skmatter.linear_model.OrthogonalRegression", {"use_orthogonal_projector": proj}, ((arr("X1", "N1", "M1"), arr("y1", "N1", "P1")), {}), ((arr("X", "N", "M"), arr("y", "N", "P")), {}), [("M", "<", "P"), ("M1", "<", "P1")]))
    cases.append(("SparseKDE", "skmatter.neighbors.SparseKDE", {"descriptors": arr("descriptors", "D", "F"), "weights": arr("weights", "D")}, ((arr("grid1", "G1", "F"),), {}), ((arr("grid", "G", "F"),), {}), []))
    cases.append(("QuickShift", "skmatter.clustering.QuickShift", {"dist_cutoff_sq": arr("cutoffs", "N")}, ((arr("X1", "N1", "F"),), {"samples_weight": arr("w1", "N1")}), ((arr("X", "N", "F"),), {"samples_weight": arr("w", "N")}), []))
    cases.append(("DirectionalConvexHull", "skmatter.sample_selection.DirectionalConvexHull", {}, ((arr("X1", "N1", "M1"), arr("y1", "N1")), {}), ((arr("X", "N", "M"), arr("y", "N")), {}), []))
    # a random first pick with an integer seed: every cold fit draws the same pick (the generator is rebuilt from the seed)
    for pkg, S in (("feature", "M"), ("sample", "N")):
        for cname in ("FPS", "PCovFPS"):
            extra = {"mixing": scalar("alpha", 0, 1, False, True)} if cname == "PCovFPS" else {}
            cases.append((f"{pkg}.{cname}[initialize=random]: (X1,y1) then (X,y)", f"skmatter.{pkg}_selection.{cname}", dict(extra, n_to_select=integer("S"), initialize="random", random_state=0), ((arr("X1", "N1", "M1"), arr("y1", "N1", "P1")), {}), ((arr("X", "N", "M"), arr("y", "N", "P")), {}), [("S", "<=", S)]))
    cases.append(("VoronoiFPS[initialize=random]: (X1,y1) then (X)", "skmatter.sample_selection.VoronoiFPS", {"n_to_select": integer("S"), "full_fraction": scalar("ff", 0, 1, True, False), "initialize": "random", "random_state": 0}, ((arr("X1", "N1", "M1"), arr("y1", "N1", "P1")), {}), ((arr("X", "N", "M"),), {}), [("S", "<=", "N")]))
    # other data of the *same* size: nothing sized like the data may be carried over either
    cases.append(("QuickShift[Gabriel shells]: other points, same number", "skmatter.clustering.QuickShift", {"gabriel_shell": integer("shell")}, ((arr("X1", "N", "F"),), {"samples_weight": arr("w1", "N")}), ((arr("X", "N", "F"),), {"samples_weight": arr("w", "N")}), []))
    cases.append(("QuickShift[cut-off]: other points, same number", "skmatter.clustering.QuickShift", {"dist_cutoff_sq": arr("cutoffs", "N")}, ((arr("X1", "N", "F"),), {"samples_weight": arr("w1", "N")}), ((arr("X", "N", "F"),), {"samples_weight": arr("w", "N")}), []))
    cases.append(("SparseKDE: other grid, same size", "skmatter.neighbors.SparseKDE", {"descriptors": arr("descriptors", "D", "F"), "weights": arr("weights", "D")}, ((arr("grid1", "G", "F"),), {}), ((arr("grid", "G", "F"),), {}), []))
    # the same histories with a hyper-parameter changed (set_params) between the two fits: what the
    # second fit leaves behind is what a fresh object with the new parameters would hold
    X1y1 = ((arr("X1", "N1", "M1"), arr("y1", "N1", "P1")), {})
    Xy = ((arr("X", "N", "M"), arr("y", "N", "P")), {})
    for flag in ("with_std", "with_mean", "column_wise"):
        for first in (True, False):
            cases.append((f"StandardFlexibleScaler: {flag}={first} then {not first}", "skmatter.preprocessing.StandardFlexibleScaler", {flag: first}, ((arr("X1", "N1", "M1"),), {}), ((arr("X", "N", "M"),), {}), [], {flag: not first}))
    for flag in ("with_center", "with_trace"):
        for first in (True, False):
            cases.append((f"KernelNormalizer: {flag}={first} then {not first}", "skmatter.preprocessing.KernelNormalizer", {flag: first}, ((arr("K1", "N1", "N1"),), {}), ((arr("K", "N", "N"),), {}), [], {flag: not first}))
            cases.append((f"SparseKernelCenterer: {flag}={first} then {not first}", "skmatter.preprocessing.SparseKernelCenterer", {flag: first}, ((arr("Knm1", "N1", "A1"), arr("Kmm1", "A1", "A1")), {}), ((arr("Knm", "N", "A"), arr("Kmm", "A", "A")), {}), [], {flag: not first}))
    for s1_, s2_ in (("feature", "sample"), ("sample", "feature")):
        cases.append((f"PCovR: space={s1_} then {s2_}", "skmatter.decomposition.PCovR", {"mixing": scalar("alpha", 0, 1), "space": s1_, "n_components": integer("K"), "svd_solver": "full"}, ((arr("X1", "N1", "M1"), arr("Y1", "N1", "P1")), {}), ((arr("X", "N", "M"), arr("Y", "N", "P")), {}), [("K", "<=", "N"), ("K", "<=", "M")], {"space": s2_}))
    for c1_ in (True, False):
        cases.append((f"KernelPCovR: center={c1_} then {not c1_}", "skmatter.decomposition.KernelPCovR", {"mixing": scalar("alpha", 0, 1), "n_components": integer("K"), "svd_solver": "full", "center": c1_}, ((arr("X1", "N1", "M1"), arr("Y1", "N1", "P1")), {}), ((arr("X", "N", "M"), arr("Y", "N", "P")), {}), [("K", "<=", "N")], {"center": not c1_}))
    for p1_ in (True, False):
        cases.append((f"OrthogonalRegression: projector={p1_} then {not p1_}", "skmatter.linear_model.OrthogonalRegression", {"use_orthogonal_projector": p1_}, X1y1, Xy, [("M", "<", "P"), ("M1", "<", "P1")], {"use_orthogonal_projector": not p1_}))
    for m1_, m2_ in (("tikhonov", "cutoff"), ("cutoff", "tikhonov")):
        cases.append((f"Ridge2FoldCV: {m1_} then {m2_}", "skmatter.linear_model.Ridge2FoldCV", {"alphas": arr("alphas", "G"), "regularization_method": m1_}, X1y1, Xy, [], {"regularization_method": m2_}))
    cases.append(("Ridge2FoldCV: scoring changed between the fits", "skmatter.linear_model.Ridge2FoldCV", {"alphas": arr("alphas", "G"), "scoring": "neg_mean_squared_error"}, X1y1, Xy, [], {"scoring": "r2"}))
    cases.append(("QuickShift: cut-off then Gabriel shells", "skmatter.clustering.QuickShift", {"dist_cutoff_sq": arr("cutoffs", "N1")}, ((arr("X1", "N1", "F"),), {"samples_weight": arr("w1", "N1")}), ((arr("X", "N", "F"),), {"samples_weight": arr("w", "N")}), [], {"dist_cutoff_sq": None, "gabriel_shell": integer("shell")}))
    cases.append(("QuickShift: Gabriel shells then cut-off", "skmatter.clustering.QuickShift", {"gabriel_shell": integer("shell")}, ((arr("X1", "N1", "F"),), {"samples_weight": arr("w1", "N1")}), ((arr("X", "N", "F"),), {"samples_weight": arr("w", "N")}), [], {"dist_cutoff_sq": arr("cutoffs", "N"), "gabriel_shell": None}))
    for pkg, S in (("feature", "M"), ("sample", "N")):
        for r1_, r2_ in ((1, 0), (0, 1)):
            cases.append((f"{pkg}.CUR: recompute_every={r1_} then {r2_}", f"skmatter.{pkg}_selection.CUR", {"n_to_select": integer("S"), "recompute_every": r1_}, X1y1, Xy, [("S", "<=", S)], {"recompute_every": r2_}))
        cases.append((f"{pkg}.FPS: threshold then none", f"skmatter.{pkg}_selection.FPS", {"n_to_select": integer("S"), "score_threshold": scalar("thr"), "score_threshold_type": "relative"}, X1y1, Xy, [("S", "<=", S)], {"score_threshold": None}))
    # fit_transform is fit followed by transform on the same data, in every configuration
    flagsets = [{"with_mean": a_, "with_std": b_, "column_wise": c_} for a_ in (True, False) for b_ in (True, False) for c_ in (True, False)]
    protocols.fit_transform_consistency(ctx, N, "R-RESET", "skmatter.preprocessing.StandardFlexibleScaler", flagsets, lambda: (arr("X", "N", "M"),), lambda: {"sample_weight": arr("w", "N")})
    protocols.fit_transform_consistency(ctx, N, "R-RESET", "skmatter.preprocessing.StandardFlexibleScaler", flagsets, lambda: (arr("X", "N", "M"),))
    kflags = [{"with_center": a_, "with_trace": b_} for a_ in (True, False) for b_ in (True, False)]
    protocols.fit_transform_consistency(ctx, N, "R-RESET", "skmatter.preprocessing.KernelNormalizer", kflags, lambda: (arr("K", "N", "N"),), lambda: {"sample_weight": arr("w", "N")})
    for case in cases:
        name, cls, ctor, A, B, order = case[:6]
        change = case[6] if len(case) > 6 else {}
        cfg = dict(call_hook=protocols.fold_hook) if "Ridge2Fold" in cls else {}
        I1 = ctx.interp(order=order, assume=protocols.assume_default, **cfg)
        s1 = State()
        o1 = ctx.construct(I1, s1, cls, **ctor)
        ctx.call_method(I1, s1, o1, "fit", *A[0], **A[1])
        # readers called between the two fits may fill lazily computed caches
        for meth, mk in BETWEEN.get(cls.rsplit(".", 1)[1], ()):
            try:
                ctx.call_method(I1, s1, o1, meth, *mk())
            except Exception:
                pass
        for k_, v_ in change.items():
            s1.heap[o1.obj.id][k_] = pyval(v_)  # set_params between the fits
        mark2 = len(I1.events)
        ctx.call_method(I1, s1, o1, "fit", *B[0], **B[1])
        ctx.no_shape_conflicts("R-RESET", f"{name}: the second fit accepts data of other sizes (no extent of the first fit is consulted)", I1, mark2, ctx.site(P.method(P.cls(cls), "fit")), name)
        I2 = ctx.interp(order=order, assume=protocols.assume_default, **cfg)
        s2 = State()
        o2 = ctx.construct(I2, s2, cls, **dict(ctor, **change))
        ctx.call_method(I2, s2, o2, "fit", *B[0], **B[1])
        h1, h2 = s1.heap[o1.obj.id], s2.heap[o2.obj.id]
        live1 = {k for k, v in h1.items() if v.kind != "undef"}
        live2 = {k for k, v in h2.items() if v.kind != "undef"}
        c = P.cls(cls)
        site = ctx.site(P.method(c, "fit"))
        # after set_params an attribute of the earlier configuration may legitimately survive (sklearn
        # convention: fit does not delete); what the new configuration defines must be fresh
        stale = sorted(live1 - live2) if not change else []
        missing = sorted(live2 - live1)
        ctx.ob("R-RESET", f"{name}: attribute set after refit == fresh fit", not stale and not missing, f"stale after refit: {stale}; missing after refit: {missing}" if (stale or missing) else f"{len(live2)} attributes", site, name)
        A_syms = {"X1", "y1", "Y1", "w1", "K1", "Knm1", "Kmm1", "grid1"}
        leaks = []
        diffs = []
        for k in sorted(live1 & live2):
            v1, v2 = h1[k], h2[k]
            syms = {t.args[0] for t in v1.term.walk() if t.op == "sym"} & A_syms
            if syms:
                leaks.append((k, sorted(syms)))
                continue
            if _has_unstable(v1.term) or _has_unstable(v2.term):
                continue
            if N.nf(v1.term) != N.nf(v2.term):
                diffs.append(k)
        ctx.ob("R-RESET", f"{name}: no fitted attribute depends on the previous fit's data", not leaks, f"attributes still depending on the first data set: {leaks}" if leaks else "none", site, name)
        ctx.ob("R-RESET", f"{name}: refitted values == fresh values (normal forms)", not diffs, f"attributes whose value differs from a fresh fit: {diffs}" if diffs else f"{len(live1 & live2)} attributes compared", site, name)
        if cls.rsplit(".", 1)[1] in ("KernelNormalizer", "SparseKernelCenterer"):  # (the classes that define fit_transform themselves)
            # the same history ending in fit_transform instead of fit: the one-call form must not answer from
            # anything an earlier fit (of another configuration) left on the object
            try:
                I3 = ctx.interp(order=order, assume=protocols.assume_default, **cfg)
                s3 = State()
                o3 = ctx.construct(I3, s3, cls, **ctor)
                ctx.call_method(I3, s3, o3, "fit_transform", *A[0], **A[1])
                for k_, v_ in change.items():
                    s3.heap[o3.obj.id][k_] = pyval(v_)
                r3_ = ctx.call_method(I3, s3, o3, "fit_transform", *B[0], **B[1])
                I4 = ctx.interp(order=order, assume=protocols.assume_default, **cfg)
                s4 = State()
                o4 = ctx.construct(I4, s4, cls, **dict(ctor, **change))
                r4_ = ctx.call_method(I4, s4, o4, "fit_transform", *B[0], **B[1])
            except Exception as e_:
                r3_ = r4_ = None
                ctx.ob("R-RESET", f"{name}: fit_transform after an earlier fit_transform answers like a fresh estimator", False, f"fit_transform could not be evaluated: {e_!r}"[:200], ctx.site(P.method(c, "fit_transform")), name)
            if r3_ is not None and r4_ is not None and not (_has_unstable(r3_.term) or _has_unstable(r4_.term)):
                same_ = N.nf(r3_.term) == N.nf(r4_.term)
                ctx.ob("R-RESET", f"{name}: fit_transform after an earlier fit_transform answers like a fresh estimator", same_, "equal normal forms" if same_ else f"refitted: {repr(r3_.term)[:160]} ; fresh: {repr(r4_.term)[:160]}", ctx.site(P.method(c, "fit_transform")), name)
        for meth, mk in AFTER.get(cls.rsplit(".", 1)[1], ()):
            a1_, a2_ = mk(), mk()
            m1_ = len(I1.events)
            try:
                r1_ = ctx.call_method(I1, s1, o1, meth, *a1_)
                r2_ = ctx.call_method(I2, s2, o2, meth, *a2_)
            except Exception as e_:
                ctx.ob("R-RESET", f"{name}: {meth} after the refit answers like a fresh estimator", False, f"{meth} could not be evaluated: {e_!r}"[:200], ctx.site(P.method(c, meth)), name)
                continue
            ctx.no_shape_conflicts("R-RESET", f"{name}: {meth} after the refit consults no extent of the first fit", I1, m1_, ctx.site(P.method(c, meth)), name)
            if r1_ is not None and r2_ is not None and not (_has_unstable(r1_.term) or _has_unstable(r2_.term)):
                same_ = N.nf(r1_.term) == N.nf(r2_.term)
                ctx.ob("R-RESET", f"{name}: {meth} after the refit answers like a fresh estimator", same_, "equal normal forms" if same_ else f"refitted: {repr(r1_.term)[:160]} ; fresh: {repr(r2_.term)[:160]}", ctx.site(P.method(c, meth)), name)


def _has_unstable(t):
    for x in t.walk():
        if x.op in ("unk", "time", "obj", "new", "lambda"):
            return True
    return False
