"""C10 (static conformance): Ridge2FoldCV equals explicit two-fold CV.

Decided from the source against ref/ridge_ref.py, for tikhonov / cutoff x
absolute / relative alphas, with rigid fold sizes N1 != N2:
 NF-FILTER   each per-alpha CV value is the mean of the two scores of the
             regularised least-squares model fitted on one fold (SVD filter
             s/(s^2+a) resp. 1/s on the leading min(rank, #{s>a}) directions) and
             evaluated on the other fold; the 2->1 term is the 1->2 term under
             the renaming 1<->2; the final coefficients are the same filter on the
             full-data SVD with the chosen scaled alpha;
 R-SCORER-ROLE at every scorer call the held-out target is y_true and the
             prediction y_pred (sklearn scorer protocol with the identity estimator);
 R-RANKCOUNT every numerical rank is a count of the mask s > rcond;
 R-ALPHA     alpha_ = alphas[argmax(cv_values_)], best_score_ = max, relative
             scaling touches a copy of the grid only;
 R-FOLDS     folds come from KFold(2, shuffle, random_state) or check_cv(cv), first split;
             split() is called exactly once per fit (a splitter carrying a RandomState
             instance deals other folds at a second call);
 Shape       no dimension conflict with N1 != N2, coef_ (n_targets, n_features),
             predict = X @ coef_^T.
Not decided: numerical agreement with an independent ridge solve.
"""
from .. import protocols
from ..harness import arr, integer, scalar
from .. import tq
from ..interp import State
from ..terms import T, V, vconst

FLOOR = 40
CLS = "skmatter.linear_model.Ridge2FoldCV"


def check(ctx):
    # positional parameters keep their documented positions (a reordering survives every keyword call)
    from ..sigrules import signatures as _signatures

    _signatures(ctx, "R-SIG", classes=('skmatter.linear_model.Ridge2FoldCV',))
    # readers (transform / predict / score ...) leave the fitted state untouched and keep no result buffer on the estimator
    protocols.reader_state_obligations(ctx, "R-STATE", "Ridge2FoldCV", ctx.P.cls("skmatter.linear_model.Ridge2FoldCV"))
    from ..flagrules import class_flag_equivalence as _cfe
    from ..harness import arr as _arr

    _c = ctx.P.cls("skmatter.linear_model.Ridge2FoldCV")
    _cfe(ctx, ctx.normalizer(), "R-FLAG", _c, "shuffle", lambda: {"alphas": _arr("alphas", "G")}, [("fit", lambda: (_arr("X", "N", "M"), _arr("y", "N", "P")), lambda: {})], ctx.site(_c.methods["fit"]), interp_kw={"assume": protocols.assume_default, "call_hook": protocols.fold_hook})
    P = ctx.P
    N = ctx.normalizer()
    cls = P.cls(CLS)
    site = ctx.site(P.method(cls, "_2fold_cv"))
    for method in ("tikhonov", "cutoff"):
        for atype in ("absolute", "relative"):
            cfg = f"{method},{atype}"
            seen = {}

            def hook(interp, qual, args, kw, st, node):
                if qual == "builtin:next":
                    seen["next_arg"] = args[0]
                    return interp.mk_tuple([arr("fold1_idx", "N1", inp=False, dtype="int"), arr("fold2_idx", "N2", inp=False, dtype="int")])
                return None

            I = ctx.interp(assume=protocols.assume_default, call_hook=hook)
            st = State()
            alphas = arr("alphas", "G")
            o = ctx.construct(I, st, cls, alphas=alphas, alpha_type=atype, regularization_method=method, random_state=scalar("seed"), shuffle=V("bool", T("sym", "shuffle"), shape=()), scoring="neg_mean_squared_error")
            X, y = arr("X", "N", "M"), arr("y", "N", "P")
            lo = len(I.events)
            r = ctx.call_method(I, st, o, "fit", X, y)
            ctx.no_shape_conflicts("Shape", f"fit with fold sizes N1 != N2 [{cfg}]", I, lo, site, cfg)
            # reference
            sc_term = None
            calls = [e for e in I.events[lo:] if e["kind"] == "scorer-call"]
            ctx.ob("R-SCORER-ROLE", f"two scorer calls per alpha [{cfg}]", len(calls) == 2, f"{len(calls)} scorer call sites evaluated", site, cfg)
            if calls:
                sc_term = calls[0]["scorer"].term

            def score_fn(interp, args, kw, st_, node):
                yt, yp = kw["y_true"], kw["y_pred"]
                return V("float", T("score", sc_term, ("y_true", yt.term), ("y_pred", yp.term)), shape=())

            I2, s2 = ctx.interp(), State()
            f1, f2 = arr("fold1_idx", "N1", inp=False, dtype="int"), arr("fold2_idx", "N2", inp=False, dtype="int")
            ref = ctx.call_func(I2, s2, "ref.ridge_ref.two_fold_cv_values", X, y, f1, f2, alphas, atype, method, V("func", T("score_fn"), func=("builtin", score_fn, "score_fn")))
            ctx.compare("NF-FILTER", f"cv_values_ = explicit two-fold CV of the regularised least-squares model [{cfg}]", N, ctx.attr(st, o, "cv_values_"), ref.items[0], site, cfg)
            ctx.no_shape_conflicts("Shape", f"reference two-fold CV is shape consistent [{cfg}]", I2, 0, "ref/ridge_ref.py", cfg)
            vals, scaled = ctx.attr(st, o, "cv_values_"), ref.items[1]
            I3, s3 = ctx.interp(), State()
            sel = ctx.call_func(I3, s3, "ref.ridge_ref.select_alpha", alphas, scaled, vals)
            ctx.compare("R-ALPHA", f"alpha_ = alphas[argmax(cv_values_)] [{cfg}]", N, ctx.attr(st, o, "alpha_"), sel.items[0], site, cfg)
            ctx.compare("R-ALPHA", f"best_score_ = max(cv_values_) [{cfg}]", N, ctx.attr(st, o, "best_score_"), sel.items[2], site, cfg)
            I3, s3 = ctx.interp(), State()
            fin = ctx.call_func(I3, s3, "ref.ridge_ref.final_coefficients", X, y, sel.items[1], method)
            ctx.compare("NF-FILTER", f"coef_ = regularised solution on the full data for the chosen (scaled) alpha, truncated at the numerical rank [{cfg}]", N, ctx.attr(st, o, "coef_"), fin, site, cfg)
            # roles, stated directly
            for e in calls:
                yt, yp = repr(e["y_true"].term), repr(e["y_pred"].term)
                held = "fold2_idx" if "y[fold2_idx]" in yt else "fold1_idx"
                other = "fold1_idx" if held == "fold2_idx" else "fold2_idx"
                ok = yt in (f"y[{held}]",) and f"X[{held}]" in yp and f"y[{other}]" in yp and f"y[{held}]" not in yp
                ctx.ob("R-SCORER-ROLE", f"scorer call `{str(e['src'])[:40]}…`: y_true = held-out target, y_pred = prediction from the other fold [{cfg}]", ok, f"y_true = {yt[:80]}; y_pred uses X[{held}]: {f'X[{held}]' in yp}, y of other fold: {f'y[{other}]' in yp}", f"{e['func']}:{e['line']}", cfg)
            # rank counts
            ranks = set()
            for a in ("cv_values_", "coef_"):
                for t in ctx.attr(st, o, a).term.walk():
                    if t.op in ("len",) and t.args and getattr(t.args[0], "op", "") in ("gt", "lt", "ge", "le"):
                        ranks.add(repr(t)[:80])
            ctx.ob("R-RANKCOUNT", f"no rank is taken as the length of a comparison mask [{cfg}]", not ranks, f"{sorted(ranks)}", site, cfg)
            muts = [e for e in I.events[lo:] if e["kind"] == "mutate" and any(o_[0] == "in" for o_ in e["target"].orig)]
            ctx.ob("R-ALPHA", f"relative scaling never touches the caller's alpha grid [{cfg}]", not muts, f"{[e['src'] for e in muts]}", site, cfg)
            ctx.shape_is("Shape", f"coef_ is (n_targets, n_features) [{cfg}]", ctx.attr(st, o, "coef_"), ("P", "M"), site, cfg)
            ctx.ob("R-SELF", f"fit returns self [{cfg}]", r.kind == "obj" and r.obj is o.obj, f"{r!r}", site, cfg, nontrivial=False)
            # folds
            news = [e for e in I.events[lo:] if e["kind"] == "ext-new" and e["cls"].endswith("KFold")]
            h = st.heap[o.obj.id]
            ok = len(news) == 1 and news[0]["kwargs"].get("n_splits") is not None and news[0]["kwargs"]["n_splits"].const == 2 and news[0]["kwargs"]["shuffle"].term == h["shuffle"].term and news[0]["kwargs"]["random_state"].term == h["random_state"].term
            ctx.ob("R-FOLDS", f"default folds = KFold(2, shuffle, random_state) [{cfg}]", ok, f"{[{k: repr(v.term) for k, v in e['kwargs'].items()} for e in news]}", ctx.site(P.method(cls, 'fit')), cfg)
            na = seen.get("next_arg")
            ctx.ob("R-FOLDS", f"first split of cv.split(X) [{cfg}]", na is not None and any(x.op == "mcall" and x.args[1] == "split" and x.args[2] and x.args[2][0] == X.term for x in tq.walk_all(na.term)), f"{None if na is None else repr(na.term)[:120]}", ctx.site(P.method(cls, 'fit')), cfg)
            # the splitter is asked once: a splitter that carries a RandomState instance (shuffle=True with a generator
            # as random_state, or a user splitter) deals other folds at every call of split()
            nsplit = [e for e in I.events[lo:] if e["kind"] == "extcall" and e.get("method") == "split"]
            ctx.ob("R-FOLDS", f"split() is called once per fit (a stateful splitter deals other folds the second time) [{cfg}]", len(nsplit) == 1, f"{len(nsplit)} call(s) of split at {[e.get('line') for e in nsplit]}", ctx.site(P.method(cls, 'fit')), cfg)
            # predict
            Xv = arr("Xv", "V", "M")
            lo = len(I.events)
            p = ctx.call_method(I, st, o, "predict", Xv)
            ctx.compare("NF-FILTER", f"predict = X @ coef_^T [{cfg}]", N, p, T("matmul", Xv.term, T("T", ctx.attr(st, o, "coef_").term)), ctx.site(P.method(cls, "predict")), cfg)
            ctx.no_shape_conflicts("Shape", f"predict on new data [{cfg}]", I, lo, ctx.site(P.method(cls, "predict")), cfg)
    # a single target given as a vector: same solution, one axis less
    for method in ("tikhonov", "cutoff"):
        cfg = f"{method},1-D y"
        I = ctx.interp(assume=protocols.assume_default, call_hook=protocols.fold_hook)
        st = State()
        o = ctx.construct(I, st, cls, alphas=arr("alphas", "G"), regularization_method=method)
        ctx.call_method(I, st, o, "fit", arr("X", "N", "M"), arr("y", "N"))
        ctx.no_shape_conflicts("Shape", f"fit with a 1-D target [{cfg}]", I, 0, site, cfg)
        ctx.shape_is("Shape", f"coef_ is (n_features,) for a 1-D target [{cfg}]", ctx.attr(st, o, "coef_"), ("M",), site, cfg)
        p1 = ctx.call_method(I, st, o, "predict", arr("Xv", "V", "M"))
        ctx.shape_is("Shape", f"predict is (n_new,) for a 1-D target [{cfg}]", p1, ("V",), ctx.site(P.method(cls, "predict")), cfg)
    # default scorer
    I = ctx.interp(assume=protocols.assume_default, call_hook=protocols.fold_hook)
    st = State()
    o = ctx.construct(I, st, cls, alphas=arr("alphas", "G"))
    ctx.call_method(I, st, o, "fit", arr("X", "N", "M"), arr("y", "N", "P"))
    calls = [e for e in I.events if e["kind"] == "scorer-call"]
    ok = bool(calls) and all(e["scorer"].extra is not None and e["scorer"].extra.has_const and e["scorer"].extra.const == "neg_mean_squared_error" for e in calls)
    ctx.ob("R-FOLDS", "scoring=None falls back to the (rotation invariant) negative mean squared error", ok, f"{[repr(e['scorer'].term) for e in calls[:1]]}", ctx.site(P.method(cls, "fit")))
    I = ctx.interp(assume=protocols.assume_default, call_hook=protocols.fold_hook)
    st = State()
    o = ctx.construct(I, st, cls, alphas=arr("alphas", "G"), scoring="r2")
    ctx.call_method(I, st, o, "fit", arr("X", "N", "M"), arr("y", "N", "P"))
    calls = [e for e in I.events if e["kind"] == "scorer-call"]
    ok = bool(calls) and all(e["scorer"].extra is not None and e["scorer"].extra.has_const and e["scorer"].extra.const == "r2" for e in calls)
    ctx.ob("R-FOLDS", "a user-supplied scoring is the one that is used", ok, f"{[repr(e['scorer'].term) for e in calls[:1]]}", ctx.site(P.method(cls, "fit")))
    # user supplied cv
    seen = {}

    def hook2(interp, qual, args, kw, st, node):
        if qual == "builtin:next":
            seen["next_arg"] = args[0]
            return interp.mk_tuple([arr("fold1_idx", "N1", inp=False, dtype="int"), arr("fold2_idx", "N2", inp=False, dtype="int")])
        return None

    from ..harness import extobj

    I = ctx.interp(assume=protocols.assume_default, call_hook=hook2)
    st = State()
    o = ctx.construct(I, st, cls, alphas=arr("alphas", "G"), cv=extobj("user_cv", "sklearn.model_selection.KFold"))
    ctx.call_method(I, st, o, "fit", arr("X", "N", "M"), arr("y", "N", "P"))
    na = seen.get("next_arg")
    ctx.ob("R-FOLDS", "user cv: first split of check_cv(cv).split(X)", na is not None and tq.has_sym(na.term, "user_cv") and any(x.op == "call" and "check_cv" in str(x.args[0]) for x in tq.walk_all(na.term)) and tq.has_mcall(na.term, "split"), f"{None if na is None else repr(na.term)[:160]}", ctx.site(P.method(cls, "fit")))
