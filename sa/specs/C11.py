"""C11 (static conformance): StandardFlexibleScaler standardises w.r.t. the
weighted training distribution.

Decided from the source against ref/preprocessing_ref.py, for all 8 flag
combinations x weights in {None, given}:
 R-WEIGHTS  mean_ and the variance use the normalised weight vector and the
            variance is taken about the weighted mean (population variance, no
            ddof); NF equality with the reference fit;
 R-FLAGS    with_mean=False gives zeros of length n_features, with_std=False the
            literal scale 1; each flag switches exactly its own statistic;
 NF-AFFINE  transform = (X - mean_) / scale_ in both copy modes (copy=True leaves the
            caller's array alone), inverse_transform = X scale_ + mean_,
            and inverse_transform(transform(X)) normalises to X;
 R-ZEROVAR  on every path that sets scale_ = sqrt(.) the tolerance comparison with
            its raise precedes it, is the documented condition (also when tested
            column by column), and the guarded statistic is not divided by a
            quantity of the data that can vanish (0/0 passes every `<` guard);
 Shape      column-wise scale_ is (n_features,), otherwise scalar; transform on
            new data of any row count.
Not decided: replication equivalence for integer weights and equality with
sklearn's StandardScaler numerically (consequences of R-WEIGHTS + ddof = 0).
"""
from fractions import Fraction

from .. import protocols
from ..apitable import shape_of
from ..harness import arr, scalar
from .. import tq
from ..interp import State
from ..terms import Dim, T, vconst

FLOOR = 60
CLS = "skmatter.preprocessing.StandardFlexibleScaler"


def _assume(term, node, interp):
    return None


def check(ctx):
    # positional parameters keep their documented positions (a reordering survives every keyword call)
    from ..sigrules import signatures as _signatures

    _signatures(ctx, "R-SIG", classes=('skmatter.preprocessing.StandardFlexibleScaler',))
    # readers (transform / predict / score ...) leave the fitted state untouched and keep no result buffer on the estimator
    protocols.reader_state_obligations(ctx, "R-STATE", "StandardFlexibleScaler", ctx.P.cls("skmatter.preprocessing.StandardFlexibleScaler"))
    P = ctx.P
    N = ctx.normalizer()
    cls = P.cls(CLS)
    site = ctx.site(P.method(cls, "fit"))
    # flags given as numpy booleans (the result of a numpy comparison) are honoured by their truth value
    from ..terms import V as _V, T as _T

    for flag in ("with_mean", "with_std", "column_wise"):
        npt = _V("bool", _T("const", True), shape=(), has_const=True, const_=True, labels=frozenset(["numpy-scalar"]))
        I = ctx.interp(assume=_assume_noraise)
        st = State()
        o = ctx.construct(I, st, cls, **dict({"with_mean": True, "with_std": True, "column_wise": True, "rtol": scalar("rtol", 0, None, False), "atol": scalar("atol", 0, None, False)}, **{flag: npt}))
        X = arr("X", "N", "M")
        ctx.call_method(I, st, o, "fit", X)
        I2, s2 = ctx.interp(), State()
        ref = ctx.call_func(I2, s2, "ref.preprocessing_ref.scaler_fit", X, arr("w", "N"), True, True, True, False)
        cfgn = f"{flag}=numpy.True_"
        ctx.compare("R-FLAGS", f"mean_ [{cfgn}]", N, ctx.attr(st, o, "mean_"), ref.items[0], site, cfgn)
        ctx.compare("R-FLAGS", f"scale_ [{cfgn}]", N, ctx.attr(st, o, "scale_"), ref.items[1], site, cfgn)
    for wm in (True, False):
        for ws in (True, False):
            for cw in (True, False):
                for weighted in (False, True):
                    cfg = f"mean={wm},std={ws},colwise={cw},weights={weighted}"
                    I = ctx.interp(assume=_assume_noraise)
                    st = State()
                    o = ctx.construct(I, st, cls, with_mean=wm, with_std=ws, column_wise=cw, rtol=scalar("rtol", 0, None, False), atol=scalar("atol", 0, None, False))
                    X, w = arr("X", "N", "M"), arr("w", "N")
                    lo = len(I.events)
                    r = ctx.call_method(I, st, o, "fit", X, **({"sample_weight": w} if weighted else {}))
                    I2, s2 = ctx.interp(), State()
                    ref = ctx.call_func(I2, s2, "ref.preprocessing_ref.scaler_fit", X, w, wm, ws, cw, weighted)
                    ctx.compare("R-WEIGHTS", f"mean_ [{cfg}]", N, ctx.attr(st, o, "mean_"), ref.items[0], site, cfg)
                    ctx.compare("R-WEIGHTS", f"scale_ [{cfg}]", N, ctx.attr(st, o, "scale_"), ref.items[1], site, cfg)
                    ctx.no_shape_conflicts("Shape", f"fit [{cfg}]", I, lo, site, cfg)
                    ctx.shape_is("Shape", f"mean_ is (n_features,) [{cfg}]", ctx.attr(st, o, "mean_"), ("M",), site, cfg)
                    sc = ctx.attr(st, o, "scale_")
                    ctx.ob("Shape", f"scale_ is {'(n_features,)' if (ws and cw) else 'a scalar'} [{cfg}]", shape_of(sc) == ((__import__('sa.terms', fromlist=['Dim']).Dim.of('M'),) if (ws and cw) else ()), f"{shape_of(sc)}", site, cfg)
                    if not ws:
                        ctx.ob("R-FLAGS", f"with_std=False leaves scale_ = 1 [{cfg}]", sc.has_const and sc.const == 1.0, f"{sc!r}", site, cfg)
                    ctx.ob("R-SELF", f"fit returns self [{cfg}]", r.kind == "obj" and r.obj is o.obj, f"{r!r}", site, cfg, nontrivial=False)
                    # R-ZEROVAR: the guard precedes the square root on this configuration
                    if ws:
                        ev = I.events[lo:]
                        guards = [i for i, e in enumerate(ev) if e["kind"] == "raise" and e.get("short", "").startswith("StandardFlexibleScaler.")]
                        sets = [i for i, e in enumerate(ev) if e["kind"] == "setattr" and e["attr"] == "scale_" and e["value"].term.op != "const"]
                        ok = bool(guards) and bool(sets) and max(guards) < min(sets)
                        conds = [repr(c) for e in ev if e["kind"] == "raise" for c, pol in e["pc"][-1:]]
                        okc = any(tq.cmp_parts(c_) is not None and tq.has_sym(c_, "atol") and tq.has_sym(c_, "rtol") or (tq.has_sym(c_, "atol") and tq.has_sym(c_, "rtol") and tq.has_op(c_, "lt", "gt", "le", "ge")) for e in ev if e["kind"] == "raise" for c_, pol in e["pc"][-1:])
                        ctx.ob("R-ZEROVAR", f"variance compared with atol + |mean| rtol and rejected before the square root [{cfg}]", ok and okc, f"raise at {guards}, scale_ set at {sets}, guard {conds[:1]}", site, cfg)
                        # the guard itself, against the reference condition
                        gconds = [c_ for e in ev if e["kind"] == "raise" and e.get("short", "").startswith("StandardFlexibleScaler.") for c_, pol in e["pc"][-1:] if pol]
                        # a guard tested column by column in a loop rejects the same inputs as the vectorised test
                        from .. import loops as _loops
                        from ..apitable import dim_term as _dim_term

                        def _columnwise(g):
                            lvs = {x for x in tq.walk_all(g) if x.op == "lv"}
                            if len(lvs) != 1:
                                return g
                            vt_ = _loops.vectorise(g, next(iter(lvs)), Dim.of("M"), I.term_shape, _dim_term)
                            return T("any", vt_) if vt_ is not None else g

                        gconds = [_columnwise(g) for g in gconds]
                        if ctx.ob("R-ZEROVAR", f"guard condition located [{cfg}]", bool(gconds), f"{len(gconds)} guard(s)", site, cfg):
                            I3, s3 = ctx.interp(), State()
                            h = st.heap[o.obj.id]
                            refc = ctx.call_func(I3, s3, "ref.preprocessing_ref.zero_variance_guard", X, w if weighted else vconst(None), cw, weighted, h["atol"], h["rtol"])
                            ctx.ob("R-ZEROVAR", f"the only input rejected by fit is `variance < atol + |mean| rtol` (of the statistic that is used) [{cfg}]", all(N.nf(g) == N.nf(refc.term) for g in gconds), f"guard(s) {[repr(g)[:160] for g in gconds if N.nf(g) != N.nf(refc.term)][:2] or [repr(g)[:160] for g in gconds[:1]]} vs reference {repr(refc.term)[:160]}", site, cfg)
                            # 0/0: a statistic that divides by a quantity of the data which vanishes for admissible data (all-zero
                            # columns: max|X|, a norm, a sum of X) is NaN there, and NaN passes every `<` guard
                            dens = [d_ for g in gconds for d_ in tq.denominators(g) if tq.has_sym(d_, "X") and not tq.has_op(d_, "phi", "where3", "emax", "clip")]
                            ctx.ob("R-ZEROVAR", f"the guarded statistic is not divided by a quantity of the data that can vanish (0/0 is NaN and passes the guard) [{cfg}]", not dens, f"divided by {[repr(d_)[:100] for d_ in dens[:2]]}" if dens else "no data-dependent denominator", site, cfg)
                    # transform / inverse on the fitted state
                    Xt = arr("Xt", "V", "M")
                    lo = len(I.events)
                    t = ctx.call_method(I, st, o, "transform", Xt)
                    mean, scale = ctx.attr(st, o, "mean_"), ctx.attr(st, o, "scale_")
                    I2, s2 = ctx.interp(), State()
                    ref = ctx.call_func(I2, s2, "ref.preprocessing_ref.scaler_transform", Xt, mean, scale)
                    ctx.compare("NF-AFFINE", f"transform = (X - mean_) / scale_ [{cfg}]", N, t, ref, ctx.site(P.method(cls, "transform")), cfg)
                    ctx.no_shape_conflicts("Shape", f"transform on new data [{cfg}]", I, lo, ctx.site(P.method(cls, "transform")), cfg)
                    # the copy mode does not change the result (and copy=True leaves the caller's array alone)
                    for cp in (True, False):
                        Xc = arr("Xt", "V", "M")
                        loc_ = len(I.events)
                        tc = ctx.call_method(I, st, o, "transform", Xc, copy=cp)
                        ctx.compare("NF-AFFINE", f"transform(copy={cp}) = (X - mean_) / scale_ [{cfg}]", N, tc, ref, ctx.site(P.method(cls, "transform")), cfg)
                        if cp:
                            hits_ = [e for e in I.events[loc_:] if e["kind"] == "mutate" and ("in", "Xt") in e["target"].orig]
                            ctx.ob("NF-AFFINE", f"transform(copy=True) does not write into the caller's array [{cfg}]", not hits_, f"in-place write: `{hits_[0].get('src')}`" if hits_ else "no write", ctx.site(P.method(cls, "transform")), cfg, nontrivial=False)
                    inv = ctx.call_method(I, st, o, "inverse_transform", t)
                    if ws and cw:
                        # column-wise scale: (X - m) dg(1/s) dg(s) + m
                        ok, sa, sb = ctx.same(N, inv, Xt)
                    else:
                        ok, sa, sb = ctx.same(N, inv, Xt)
                    ctx.ob("NF-AFFINE", f"inverse_transform(transform(X)) normalises to X [{cfg}]", ok, f"{sa[:300]} vs {sb}", ctx.site(P.method(cls, "inverse_transform")), cfg)
    # weights sink rule, stated directly: no unweighted reduction over the sample axis on a weighted path
    I = ctx.interp(assume=_assume_noraise)
    st = State()
    o = ctx.construct(I, st, cls, column_wise=True)
    ctx.call_method(I, st, o, "fit", arr("X", "N", "M"), sample_weight=arr("w", "N", labels=("weights",)))
    for a in ("mean_", "scale_"):
        v = ctx.attr(st, o, a)
        reds = [t for t in v.term.walk() if t.op in ("mean", "average", "sum", "var", "std") and any(isinstance(x, tuple) and x[0] == "axis" and x[1] == T("const", Fraction(0)) for x in t.args[1:])]
        # weighted: through the `weights=` argument or because the reduced expression itself carries the weights
        # (that the weights are normalised and enter linearly is decided by the reference comparison above)
        bad = [repr(t)[:100] for t in reds if not any(isinstance(x, tuple) and x[0] == "weights" for x in t.args[1:]) and not tq.has_sym(t.args[0], "w")]
        ctx.ob("R-WEIGHTS", f"every reduction over the sample axis feeding {a} is weighted", not bad and (bool(reds) or tq.has_sym(v.term, "w")), f"unweighted reductions: {bad}" if bad else f"{len(reds)} reductions over the sample axis, all carrying the weights", site)
        ctx.ob("R-WEIGHTS", f"no ddof / n-1 correction in {a}", not any(isinstance(a_, tuple) and a_ and a_[0] == "ddof" for x in tq.walk_all(v.term) for a_ in x.args), repr(v.term)[:200], site, nontrivial=False)


def _assume_noraise(term, node, interp):
    return None
