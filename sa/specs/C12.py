"""C12 (static conformance): kernel centring and normalisation equal centring /
scaling in feature space.

Decided from the source against ref/preprocessing_ref.py with rigid sizes N
(train), V (test), A (active set), all flag combinations x weights:
 NF-CENTER  KernelNormalizer.fit stores r = weighted column means of the training
            kernel, a = weighted mean of r, the normalised weights, and
            scale_ = trace(K - 1 r^T - c 1^T + a)/n; transform(K) =
            (K - 1 r^T - c 1^T + a)/scale_ with c the weighted row means of K over
            the training axis, using the stored weights; SparseKernelCenterer:
            (Knm - r)/scale_, scale_ = sqrt(trace(Knm_c pinv(Kmm) Knm_c^T)/n);
 R-WEIGHTS  all averages over a training axis use the normalised weights, in fit
            and in transform;
 R-FLAGS    with_center=False sets r = 0, a = 0, c = 0 and nothing else;
            with_trace=False sets scale_ = 1;
 Shape      K_fit_rows_ (N,) is subtracted along the training axis of a (V, N)
            kernel, row means are (V, 1): no N/V conflict;
 R-SELF     fit_transform = fit then transform, on a fresh estimator and on one used
            before with the other setting of with_center / with_trace; fit copies
            its input.
Not decided: equality with explicit feature-space centring numerically.
"""
from .. import protocols
from ..apitable import shape_of
from ..harness import arr, scalar
from ..interp import State
from ..terms import Dim, T, vconst

FLOOR = 60
KN = "skmatter.preprocessing.KernelNormalizer"
SK = "skmatter.preprocessing.SparseKernelCenterer"


def check(ctx):
    # positional parameters keep their documented positions (a reordering survives every keyword call)
    from ..sigrules import signatures as _signatures

    _signatures(ctx, "R-SIG", classes=('skmatter.preprocessing.KernelNormalizer', 'skmatter.preprocessing.SparseKernelCenterer'))
    # readers (transform / predict / score ...) leave the fitted state untouched and keep no result buffer on the estimator
    protocols.reader_state_obligations(ctx, "R-STATE", "KernelNormalizer", ctx.P.cls("skmatter.preprocessing.KernelNormalizer"))
    protocols.reader_state_obligations(ctx, "R-STATE", "SparseKernelCenterer", ctx.P.cls("skmatter.preprocessing.SparseKernelCenterer"))
    P = ctx.P
    N = ctx.normalizer(vector_syms=("w",))
    cls = P.cls(KN)
    for wc in (True, False):
        for wt in (True, False):
            for weighted in (False, True):
                cfg = f"center={wc},trace={wt},weights={weighted}"
                I, st = ctx.interp(), State()
                o = ctx.construct(I, st, cls, with_center=wc, with_trace=wt)
                K, w = arr("K", "N", "N"), arr("w", "N")
                lo = len(I.events)
                r = ctx.call_method(I, st, o, "fit", K, **({"sample_weight": w} if weighted else {}))
                site = ctx.site(P.method(cls, "fit"))
                I2, s2 = ctx.interp(), State()
                ref = ctx.call_func(I2, s2, "ref.preprocessing_ref.kernel_normalizer_fit", K, w, wc, wt, weighted)
                for a, rv in zip(("sample_weight_", "K_fit_rows_", "K_fit_all_", "scale_"), ref.items):
                    ctx.compare("NF-CENTER" if a != "sample_weight_" else "R-WEIGHTS", f"KernelNormalizer.fit {a} [{cfg}]", N, ctx.attr(st, o, a), rv, site, cfg)
                ctx.no_shape_conflicts("Shape", f"KernelNormalizer.fit [{cfg}]", I, lo, site, cfg)
                ctx.shape_is("Shape", f"K_fit_rows_ is (n_train,) [{cfg}]", ctx.attr(st, o, "K_fit_rows_"), ("N",), site, cfg)
                bad = [e for e in I.events[lo:] if e["kind"] == "mutate" and any(o_[0] == "in" for o_ in e["target"].orig)]
                ctx.ob("R-SELF", f"KernelNormalizer.fit works on a copy of K [{cfg}]", not bad, f"{[e['src'] for e in bad]}", site, cfg)
                ctx.ob("R-SELF", f"KernelNormalizer.fit returns self [{cfg}]", r.kind == "obj" and r.obj is o.obj, f"{r!r}", site, cfg, nontrivial=False)
                if not wt:
                    sc = ctx.attr(st, o, "scale_")
                    ctx.ob("R-FLAGS", f"with_trace=False leaves scale_ = 1 [{cfg}]", sc.has_const and sc.const == 1.0, f"{sc!r}", site, cfg)
                # transform of a test-train kernel
                Kt = arr("Kt", "V", "N")
                h = st.heap[o.obj.id]
                lo = len(I.events)
                t = ctx.call_method(I, st, o, "transform", Kt)
                site_t = ctx.site(P.method(cls, "transform"))
                I2, s2 = ctx.interp(), State()
                ref = ctx.call_func(I2, s2, "ref.preprocessing_ref.kernel_normalizer_transform", Kt, h["sample_weight_"], h["K_fit_rows_"], h["K_fit_all_"], h["scale_"], wc)
                ctx.compare("NF-CENTER", f"KernelNormalizer.transform(test-train kernel) [{cfg}]", N, t, ref, site_t, cfg)
                ctx.no_shape_conflicts("Shape", f"KernelNormalizer.transform on a (V, N) kernel [{cfg}]", I, lo, site_t, cfg)
                ctx.shape_is("Shape", f"transformed kernel keeps its (V, N) shape [{cfg}]", t, ("V", "N"), site_t, cfg)
                bad = [e for e in I.events[lo:] if e["kind"] == "mutate" and any(o_[0] == "in" for o_ in e["target"].orig)]
                ctx.ob("R-SELF", f"KernelNormalizer.transform(copy=True) leaves the caller's kernel untouched [{cfg}]", not bad, f"{[e['src'] for e in bad]}", site_t, cfg)
                if weighted and wc:
                    avgs = [x for x in t.term.walk() if x.op in ("average", "mean") ]
                    okw = avgs and all(any(isinstance(a_, tuple) and a_[0] == "weights" for a_ in x.args[1:]) for x in avgs if any(s.op == "sym" and s.args[0] == "Kt" for s in x.walk()))
                    ctx.ob("R-WEIGHTS", f"row means of the test kernel use the stored training weights [{cfg}]", bool(okw), f"{[repr(x)[:80] for x in avgs[:3]]}", site_t, cfg)
    # flags given as numpy booleans act by their truth value, in fit and in the readers alike
    from ..flagrules import class_flag_equivalence

    for flag in ("with_center", "with_trace"):
        class_flag_equivalence(ctx, N, "R-FLAGS", P.cls(KN), flag, lambda: {"with_center": True, "with_trace": True}, [("fit", lambda: (arr("K", "N", "N"),), lambda: {"sample_weight": arr("w", "N")}), ("transform", lambda: (arr("Kt", "V", "N"),), lambda: {})], ctx.site(P.method(P.cls(KN), "fit")))
        class_flag_equivalence(ctx, N, "R-FLAGS", P.cls(SK), flag, lambda: {"with_center": True, "with_trace": True}, [("fit", lambda: (arr("Knm", "N", "A"), arr("Kmm", "A", "A")), lambda: {"sample_weight": arr("w", "N")}), ("transform", lambda: (arr("Kt", "V", "A"),), lambda: {})], ctx.site(P.method(P.cls(SK), "fit")))
    # ---- SparseKernelCenterer ------------------------------------------------------------------------
    cls = P.cls(SK)
    for wc in (True, False):
        for wt in (True, False):
            for weighted in (False, True):
                cfg = f"center={wc},trace={wt},weights={weighted}"
                I, st = ctx.interp(assume=protocols.assume_default), State()
                rc = scalar("rcond", 0, None)
                o = ctx.construct(I, st, cls, with_center=wc, with_trace=wt, rcond=rc)
                Knm, Kmm, w = arr("Knm", "N", "A"), arr("Kmm", "A", "A"), arr("w", "N")
                lo = len(I.events)
                ctx.call_method(I, st, o, "fit", Knm, Kmm, **({"sample_weight": w} if weighted else {}))
                site = ctx.site(P.method(cls, "fit"))
                I2, s2 = ctx.interp(), State()
                ref = ctx.call_func(I2, s2, "ref.preprocessing_ref.sparse_centerer_fit", Knm, Kmm, w, wc, wt, rc, weighted)
                ctx.compare("NF-CENTER", f"SparseKernelCenterer.fit K_fit_rows_ [{cfg}]", N, ctx.attr(st, o, "K_fit_rows_"), ref.items[0], site, cfg)
                ctx.compare("NF-CENTER", f"SparseKernelCenterer.fit scale_ [{cfg}]", N, ctx.attr(st, o, "scale_"), ref.items[1], site, cfg)
                ctx.no_shape_conflicts("Shape", f"SparseKernelCenterer.fit [{cfg}]", I, lo, site, cfg)
                ctx.shape_is("Shape", f"sparse K_fit_rows_ is (n_active,) [{cfg}]", ctx.attr(st, o, "K_fit_rows_"), ("A",), site, cfg)
                Kt = arr("Kt", "V", "A")
                h = st.heap[o.obj.id]
                lo = len(I.events)
                t = ctx.call_method(I, st, o, "transform", Kt)
                site_t = ctx.site(P.method(cls, "transform"))
                I2, s2 = ctx.interp(), State()
                ref = ctx.call_func(I2, s2, "ref.preprocessing_ref.sparse_centerer_transform", Kt, h["K_fit_rows_"], h["scale_"])
                ctx.compare("NF-CENTER", f"SparseKernelCenterer.transform [{cfg}]", N, t, ref, site_t, cfg)
                bad = [e for e in I.events if e["kind"] == "mutate" and any(o_[0] == "in" for o_ in e["target"].orig)]
                ctx.ob("R-SELF", f"SparseKernelCenterer.fit / transform leave the caller's kernels untouched [{cfg}]", not bad, f"{[(e['short'], e['src']) for e in bad]}", site_t, cfg)
                ctx.no_shape_conflicts("Shape", f"SparseKernelCenterer.transform on a (V, A) kernel [{cfg}]", I, lo, site_t, cfg)
    # ---- fit_transform = fit then transform ---------------------------------------------------------------
    for cq, mk in ((KN, lambda: (arr("K", "N", "N"),)), (SK, lambda: (arr("Knm", "N", "A"), arr("Kmm", "A", "A")))):
        for weighted in (False, True):
            args = mk()
            kw = {"sample_weight": arr("w", "N")} if weighted else {}
            I1, s1 = ctx.interp(assume=protocols.assume_default), State()
            o1 = ctx.construct(I1, s1, cq)
            r1 = ctx.call_method(I1, s1, o1, "fit_transform", *args, **kw)
            I2, s2 = ctx.interp(assume=protocols.assume_default), State()
            o2 = ctx.construct(I2, s2, cq)
            ctx.call_method(I2, s2, o2, "fit", *args, **kw)
            r2 = ctx.call_method(I2, s2, o2, "transform", args[0])
            c = P.cls(cq)
            ctx.compare("R-SELF", f"{c.name}.fit_transform == fit().transform() [weights={weighted}]", N, r1, r2, ctx.site(P.method(c, "fit_transform")))
        # ... also on an estimator that was used before with the other setting of a switch (nothing the earlier
        # call left on the object may answer for the new data)
        for flag in ("with_center", "with_trace"):
            for first in (True, False):
                from ..harness import pyval as _pyval

                args0 = tuple(arr(a_.term.args[0] + "0", *[repr(d_) for d_ in a_.shape]) for a_ in mk())
                args = mk()
                I1, s1 = ctx.interp(assume=protocols.assume_default), State()
                o1 = ctx.construct(I1, s1, cq, **{flag: first})
                ctx.call_method(I1, s1, o1, "fit_transform", *args0)
                s1.heap[o1.obj.id][flag] = _pyval(not first)
                r1 = ctx.call_method(I1, s1, o1, "fit_transform", *args)
                I2, s2 = ctx.interp(assume=protocols.assume_default), State()
                o2 = ctx.construct(I2, s2, cq, **{flag: not first})
                ctx.call_method(I2, s2, o2, "fit", *args)
                r2 = ctx.call_method(I2, s2, o2, "transform", args[0])
                ctx.compare("R-SELF", f"{c.name}.fit_transform == fit().transform() after an earlier use with {flag}={first} [{flag}={not first}]", N, r1, r2, ctx.site(P.method(c, "fit_transform")))
