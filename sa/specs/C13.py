"""C13 (static conformance): reconstruction measures.

Decided from the source against ref/reconstruction_ref.py:
 R-SPLITROLE / R-SCALED  with an opaque (user) scaler and estimator whose state is
            threaded through the call history, each pointwise measure equals the
            reference: train/test slices taken from the right index sets, the scaler
            refitted on the training part of each space before transforming it,
            the estimator fitted on the scaled training pair only, residual between
            scaled test targets and predictions on scaled test sources; GRD compares
            the (zero-padded) linear prediction with the orthogonal regression fitted
            on the estimator's training prediction; LRE takes the k nearest *training*
            neighbours from the (T, R) distance table, centres locally and re-offsets;
 NF-RMS     each global value is norm(p)/sqrt(len(p)) of its OWN pointwise function
            with every argument forwarded to the same-named parameter;
 R-NONNEG   every pointwise result is the output of a row-wise norm;
 Shape      with the default scaler / estimator inlined, in the regimes M<P, M=P,
            M>P, no dimension conflict (GRD's padding);
 R-DEFAULTS deterministic 50/50 split (fixed random_state, no overlap), complements
            for a missing index set, StandardFlexibleScaler(), Ridge2FoldCV(relative
            cut-off, fixed seed).
Not decided: the invariances numerically, GRE <= 1, the LRE/GRE link.
"""
from .. import protocols
from ..harness import arr, extobj, integer, scalar
from .. import tq
from ..interp import State
from ..terms import T, Term, V, vconst

FLOOR = 40
MOD = "skmatter.metrics"


def _mentions_outside(t, name, stop_ops):
    """symbol `name` occurs in the term other than inside sub-terms rooted at stop_ops
    (the neighbour *choice* may depend on the test point, the fitted data may not)"""
    from ..terms import Term

    stack = [t]
    seen = set()
    while stack:
        x = stack.pop()
        if not isinstance(x, Term):
            if isinstance(x, tuple):
                stack.extend(x)
            continue
        if id(x) in seen or x.op in stop_ops:
            continue
        seen.add(id(x))
        if x.op == "sym" and x.args[0] == name:
            return True
        stack.extend(x.args)
    return False


def check(ctx):
    # positional parameters keep their documented positions (a reordering survives every keyword call)
    from ..sigrules import signatures as _signatures

    _signatures(ctx, "R-SIG", functions=('skmatter.metrics.pointwise_global_reconstruction_error', 'skmatter.metrics.global_reconstruction_error', 'skmatter.metrics.pointwise_global_reconstruction_distortion', 'skmatter.metrics.global_reconstruction_distortion', 'skmatter.metrics.pointwise_local_reconstruction_error', 'skmatter.metrics.local_reconstruction_error'))
    P = ctx.P
    N = ctx.normalizer()
    # the default estimators are part of the measures' definition: GRE(X, XA) = 0 rests on the ridge
    # solve, GRD(X, XQ) = 0 on the Procrustes map (anchors linear_model/_ridge.py, _base.py)
    from . import C10 as _c10, C18 as _c18

    _c10.check(ctx)
    _c18.check(ctx)
    X, Y = arr("X", "N", "M"), arr("Y", "N", "P")
    tr, te = arr("train_idx", "R", dtype="int"), arr("test_idx", "T", dtype="int")
    cases = [
        ("pointwise_global_reconstruction_error", "pointwise_gre", ()),
        ("pointwise_global_reconstruction_distortion", "pointwise_grd", ()),
        ("pointwise_local_reconstruction_error", "pointwise_lre", (integer("k"),)),
    ]
    for fn, refn, extra in cases:
        f = P.func(f"{MOD}.{fn}")
        site = ctx.site(f)
        I, st = ctx.interp(order=[("M", ">", "P")], assume=protocols.assume_default), State()
        sc, est = extobj("scaler", "Scaler"), extobj("estimator", "Estimator")
        r = ctx.call_func(I, st, f, X, Y, *extra, train_idx=tr, test_idx=te, scaler=sc, estimator=est)
        I2, s2 = ctx.interp(order=[("M", ">", "P")], assume=protocols.assume_default), State()
        sc2, est2 = extobj("scaler", "Scaler"), extobj("estimator", "Estimator")
        ref = ctx.call_func(I2, s2, f"ref.reconstruction_ref.{refn}", X, Y, *extra, tr, te, sc2, est2)
        ctx.compare("R-SPLITROLE", f"{fn} == reference (roles of train/test, source/target, scaler and estimator history)", N, r, ref, site)
        t = r.term
        def is_norm(z):
            # a norm call, or the square root of a sum of squares (diagonal of a Gram matrix D D^T)
            if z.op == "norm":
                return True
            if z.op in ("sqrt", "pow") and isinstance(z.args[0], Term) and z.args[0].op == "diagof":
                g = z.args[0].args[0]
                return g.op == "matmul" and (g.args[1] == T("T", g.args[0]) or g.args[0] == T("T", g.args[1]))
            if z.op == "sqrt" and isinstance(z.args[0], Term):
                # sqrt(sum(v * v)) / sqrt(v . v): the 2-norm written out
                g = z.args[0]
                if g.op == "sum" and isinstance(g.args[0], Term) and ((g.args[0].op == "pow" and g.args[0].args[1] == T("const", __import__("fractions").Fraction(2))) or (g.args[0].op == "mul" and g.args[0].args[0] == g.args[0].args[1])):
                    return True
                if g.op in ("matmul", "dot") and len(g.args) == 2 and (g.args[0] == g.args[1] or g.args[1] == T("T", g.args[0]) or g.args[0] == T("T", g.args[1])):
                    return True
            return False

        root = is_norm(t) or (t.op == "comp" and is_norm(t.args[2]))
        ctx.ob("R-NONNEG", f"{fn} returns row-wise norms", root, repr(t)[:80], site)
        # scaler history: exactly two fits (X_train, Y_train), each before its transforms
        fits = [e for e in I.events if e["kind"] == "mutate-object" and e["method"] == "fit" and tq.has_sym(e["target"].term, "scaler")]
        ok = len(fits) == 2 and repr(fits[0]["args"][0].term) == "X[train_idx]" and repr(fits[1]["args"][0].term) == "Y[train_idx]"
        ctx.ob("R-SCALED", f"{fn}: the scaler is fitted on the training part of X, then refitted on the training part of Y", ok, f"{[repr(e['args'][0].term) for e in fits]}", site)
        efits = [e for e in I.events if e["kind"] == "mutate-object" and e["method"] == "fit" and tq.has_sym(e["target"].term, "estimator")]
        bad = [repr(a.term)[:80] for e in efits for a in e["args"] if _mentions_outside(a.term, "test_idx", ("argsort",))]
        ctx.ob("R-SPLITROLE", f"{fn}: the estimator is never fitted on test data", bool(efits) and not bad, f"{len(efits)} fit(s); arguments mentioning the test set: {bad}", site)
    # ---- global = rms of its own pointwise function, arguments forwarded by name -------------
    for g, pw, extra in (("global_reconstruction_error", "pointwise_global_reconstruction_error", ()), ("global_reconstruction_distortion", "pointwise_global_reconstruction_distortion", ()), ("local_reconstruction_error", "pointwise_local_reconstruction_error", (integer("k"),))):
        f = P.func(f"{MOD}.{g}")
        site = ctx.site(f)
        calls = []
        pwf = P.func(f"{MOD}.{pw}")

        def stub(name):
            def s(interp, clo, args, kw, st_, node):
                from ..api_numpy import bind

                b = bind(clo.fi.params(), args, kw)
                calls.append((name, b))
                return V("arr", T("PW", name), shape=(__import__("sa.terms", fromlist=["Dim"]).Dim.of("T"),), orig=frozenset([("fresh",)]), loc=0)

            return s

        stubs = {n: stub(n) for n in ("pointwise_global_reconstruction_error", "pointwise_global_reconstruction_distortion", "pointwise_local_reconstruction_error")}
        I, st = ctx.interp(stubs=stubs), State()
        sc, est = extobj("scaler", "Scaler"), extobj("estimator", "Estimator")
        kw = {"train_idx": tr, "test_idx": te, "scaler": sc, "estimator": est}
        if extra:
            kw["n_jobs"] = scalar("n_jobs")
        r = ctx.call_func(I, st, f, X, Y, *extra, **kw)
        ctx.ob("NF-RMS", f"{g} calls exactly its own pointwise function once", [c[0] for c in calls] == [pw], f"calls: {[c[0] for c in calls]}", site)
        if calls:
            b = calls[0][1]
            want = dict(X=X, Y=Y, train_idx=tr, test_idx=te, scaler=sc, estimator=est)
            if extra:
                want["n_local_points"] = extra[0]
                want["n_jobs"] = kw["n_jobs"]
            bad = [k for k, v in want.items() if b.get(k) is None or b[k].term != v.term]
            ctx.ob("NF-RMS", f"{g} forwards every argument to the same-named parameter", not bad, f"mismatched parameters: {bad}", site)
        I2, s2 = ctx.interp(), State()
        ref = ctx.call_func(I2, s2, "ref.reconstruction_ref.root_mean_square", V("arr", T("PW", pw), shape=(__import__("sa.terms", fromlist=["Dim"]).Dim.of("T"),), orig=frozenset([("fresh",)]), loc=0))
        ctx.compare("NF-RMS", f"{g} = norm(p) / sqrt(len(p))", N, r, ref, site)
    # ---- Shape with everything inlined (default scaler / estimator), three regimes ------------------
    for name, q, args, kw, order in protocols.function_protocols():
        if "reconstruction" not in name or "user" in name:
            continue
        I = ctx.interp(order=order, assume=protocols.assume_default, call_hook=protocols.fold_hook)
        st = State()
        r = ctx.call_func(I, st, q, *args, **kw)
        f = P.func(q)
        ctx.no_shape_conflicts("Shape", f"{name}: defaults inlined", I, 0, ctx.site(f), name)
        if "pointwise" in name and "idx=True" in name or "local" in name and "pointwise" in name:
            ctx.shape_is("Shape", f"{name}: one value per test sample", r, ("T",), ctx.site(f), name)
    # ---- defaults --------------------------------------------------------------------------------------------
    f = P.func(f"{MOD}._reconstruction_measures.check_global_reconstruction_measures_input")
    site = ctx.site(f)
    I, st = ctx.interp(), State()
    r = ctx.call_func(I, st, f, X, Y, vconst(None), vconst(None), vconst(None), vconst(None))
    if ctx.ob("R-DEFAULTS", "input check returns (train_idx, test_idx, scaler, estimator)", r.items is not None and len(r.items) == 4, f"{r!r}", site):
        t0, t1 = repr(r.items[0].term), repr(r.items[1].term)
        ok = "split('train'" in t0 and "split('test'" in t1 and "random_state" in t0 and "arange(dim(N))" in t0 and "train_test_overlap" not in t0.replace("train_test_overlap', False", "")
        ctx.ob("R-DEFAULTS", "default split: train_test_split(arange(n), 0.5/0.5, fixed random_state, shuffle, no overlap)", ok and "1597463007" in t0, t0[:220], site)
        sc, est = r.items[2], r.items[3]
        ctx.ob("R-DEFAULTS", "default scaler is StandardFlexibleScaler()", sc.kind == "obj" and sc.obj.cls.name == "StandardFlexibleScaler", f"{sc!r}", site)
        okE = est.kind == "obj" and est.obj.cls.name == "Ridge2FoldCV"
        if okE:
            h = st.heap[est.obj.id]
            okE = h["alpha_type"].const == "relative" and h["regularization_method"].const == "cutoff" and h["random_state"].has_const and h["random_state"].const is not None and h["shuffle"].const is True
        ctx.ob("R-DEFAULTS", "default estimator is Ridge2FoldCV(relative cut-off, fixed seed)", okE, f"{est!r}", site)
        if okE:
            # the documented default grid: 20 relative cut-offs from 1e-9 (numerically exact fits are reachable) to 0.9
            al = h["alphas"]
            I3, s3 = ctx.interp(), State()
            want = ctx.call_func(I3, s3, "ref.reconstruction_ref.default_alphas")
            ctx.ob("R-DEFAULTS", "default regularisation grid is geomspace(1e-9, 0.9, 20)", N.nf(al.term) == N.nf(want.term), f"alphas = {al.term!r}", site)
            sco = h.get("scoring")
            ctx.ob("R-DEFAULTS", "default estimator selects by root-mean-squared error", sco is not None and sco.has_const and sco.const == "neg_root_mean_squared_error", f"scoring = {sco!r}", site)
    # the default model selection of the estimator class used here is rotation invariant
    Ir = ctx.interp(assume=protocols.assume_default, call_hook=protocols.fold_hook)
    sr = State()
    orr = ctx.construct(Ir, sr, "skmatter.linear_model.Ridge2FoldCV", alphas=arr("alphas", "G"))
    ctx.call_method(Ir, sr, orr, "fit", arr("Xr", "N", "M"), arr("yr", "N", "P"))
    calls = [e for e in Ir.events if e["kind"] == "scorer-call"]
    okr = bool(calls) and all(e["scorer"].extra is not None and e["scorer"].extra.has_const and e["scorer"].extra.const == "neg_mean_squared_error" for e in calls)
    ctx.ob("R-DEFAULTS", "Ridge2FoldCV without an explicit scoring selects by mean squared error (invariant under target rotations)", okr, f"{[repr(e['scorer'].term) for e in calls[:1]]}", ctx.site(P.method(P.cls("skmatter.linear_model.Ridge2FoldCV"), "fit")))
    for missing in ("train", "test"):
        I, st = ctx.interp(), State()
        a = (vconst(None), te) if missing == "train" else (tr, vconst(None))
        r = ctx.call_func(I, st, f, X, Y, a[0], a[1], extobj("scaler"), extobj("estimator"))
        got = r.items[0 if missing == "train" else 1]
        other = te if missing == "train" else tr
        want = T("setdiff1d", T("arange", T("dim", __import__("sa.terms", fromlist=["Dim"]).Dim.of("N"))), other.term)
        ctx.ob("R-DEFAULTS", f"a missing {missing} index set is the complement of the other", N.nf(got.term) == N.nf(want), repr(got.term)[:160], site)
