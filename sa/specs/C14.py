"""C14 (static conformance): PCovR's projectors form a consistent, nested
decomposition.

Decided from the source against ref/pcovr_ref.py (on top of C03's route,
spectrum and shape obligations):
 NF-API      transform(X) = (X - mean_) @ pxt_ (through the _BasePCA stub with
             components_ = pxt_^T and mean_ set in fit); predict(X) = X @ pxy_ with
             pxy_ = pxt_ @ pty_; predict(T=.) = T @ pty_; inverse_transform(T) = T @ ptx_;
             score = -(|X - T ptx_|^2/|X|^2 + |Y - T pty_|^2/|Y|^2) with T = transform(X);
 NF-ROUNDTRIP in feature space ptx_ @ pxt_ reduces to the identity on the retained
             components given C^1/2 C^-1/2 = I on the range, V^T V = I and positive
             retained eigenvalues (symbolic: transform(inverse_transform(T)) = T);
 R-NESTED    with the full solver n_components_ enters only through the final prefix
             slice of a k-independent decomposition;
 R-1D        a one-dimensional y gives one-dimensional pty_/pxy_ (guarded reshapes); the
             fitted targets and regression weights reach the sample-space fit as
             matrices (one column for a vector target) - its kernel and projector are
             outer products only then;
 Shape       every projector / prediction in both spaces.
Not decided: orthogonality and eigenvalue norms of the latent coordinates, loss
monotonicity in k (consequences of exact eigendecomposition).
"""
from fractions import Fraction

from .. import protocols
from ..harness import arr, integer, scalar
from ..interp import State
from ..nf import A, P_atom
from ..terms import Dim, T, vconst
from . import pcovr_common as pc

FLOOR = 40


def check(ctx):
    # readers (transform / predict / score ...) leave the fitted state untouched and keep no result buffer on the estimator
    protocols.reader_state_obligations(ctx, "R-STATE", "PCovR", ctx.P.cls("skmatter.decomposition.PCovR"))
    P = ctx.P
    N = ctx.normalizer()
    cls = P.cls(pc.PCOVR)
    pxt, ptx, pty, mean = pc.farr(T("sym", "pxt"), "M", "K"), pc.farr(T("sym", "ptx"), "K", "M"), pc.farr(T("sym", "pty"), "K", "P"), pc.farr(T("sym", "mean"), "M")
    Xv, Yv, Tv = arr("Xv", "V", "M"), arr("Yv", "V", "P"), arr("Tv", "V", "K")

    def obj(I, st):
        pxy = ctx.call_func(I, st, "ref.pcovr_ref.pcovr_predict_X", arr("eyeM", "M", "M"), pxt, pty)
        return ctx.bare_object(I, st, cls, {"pxt_": pxt, "ptx_": ptx, "pty_": pty, "mean_": mean, "components_": pc.farr(T("T", pxt.term), "K", "M"), "pxy_": pc.farr(T("matmul", pxt.term, pty.term), "M", "P"), "tol": scalar("tol", 0, None), "whiten": False, "n_components_": integer("K")})

    for meth, args, kw, refname, refargs in (
        ("transform", (Xv,), {}, "pcovr_transform", (Xv, mean, pxt)),
        ("predict", (Xv,), {}, "pcovr_predict_X", (Xv, pxt, pty)),
        ("predict", (), {"T": Tv}, "pcovr_predict_T", (Tv, pty)),
        ("inverse_transform", (Tv,), {}, "pcovr_inverse_transform", (Tv, ptx)),
        ("score", (Xv, Yv), {"T": Tv}, "pcovr_score", (Xv, Yv, Tv, ptx, pty)),
    ):
        I, st = ctx.interp(assume=protocols.assume_default), State()
        o = obj(I, st)
        lo = len(I.events)
        r = ctx.call_method(I, st, o, meth, *args, **kw)
        I2, s2 = ctx.interp(), State()
        ref = ctx.call_func(I2, s2, f"ref.pcovr_ref.{refname}", *refargs)
        site = ctx.site(P.method(cls, meth))
        tag = f"{meth}({'T=' if 'T' in kw and meth == 'predict' else ''})"
        ctx.compare("NF-API", f"PCovR.{tag} == documented formula", N, r, ref, site)
        bad = [e for e in I.events[lo:] if e["kind"] == "shape-conflict"]
        ctx.ob("Shape", f"PCovR.{tag} on held-out data", not bad, f"{[(e['what'], e['a'], e['b']) for e in bad]}", site)
    # score without T: T = transform(X)
    I, st = ctx.interp(assume=protocols.assume_default), State()
    o = obj(I, st)
    r = ctx.call_method(I, st, o, "score", Xv, Yv)
    I2, s2 = ctx.interp(), State()
    Tt = ctx.call_func(I2, s2, "ref.pcovr_ref.pcovr_transform", Xv, mean, pxt)
    ref = ctx.call_func(I2, s2, "ref.pcovr_ref.pcovr_score", Xv, Yv, Tt, ptx, pty)
    ctx.compare("NF-API", "PCovR.score(X, Y) uses T = transform(X)", N, r, ref, ctx.site(P.method(cls, "score")))
    # ---- fit tail: pxy_, components_, 1-D reshapes ------------------------------------------------
    for oned in (False, True):
        def route(interp, clo, args, kw, st_, node, oned=oned):
            h = st_.heap[clo.self_v.obj.id]
            h["pxt_"] = pxt
            h["pty_"] = pc.farr(T("sym", "pty"), "K", 1) if oned else pty
            h["ptx_"] = ptx
            return vconst(None)

        I = ctx.interp(order=[("K", "<=", "N"), ("K", "<=", "M")], assume=protocols.assume_default, stubs={"PCovR._fit_feature_space": route, "PCovR._fit_sample_space": route})
        st = State()
        o = ctx.construct(I, st, cls, n_components=integer("K"), mixing=scalar("alpha", 0, 1), svd_solver="full", space="feature")
        X = arr("X", "N", "M")
        Y = arr("Y", "N") if oned else arr("Y", "N", "P")
        ctx.call_method(I, st, o, "fit", X, Y)
        site = ctx.site(P.method(cls, "fit"))
        tag = "1-D y" if oned else "2-D y"
        pxt_t, pty_t = pxt.term, T("sym", "pty")
        if ctx.attr(st, o, "pxy_") is None or ctx.attr(st, o, "pxy_").kind == "undef":
            # the tail is not in fit itself (it may have moved into the space-specific fits, which the run above
            # replaces by their documented effect): read it off an un-stubbed fit, against the projectors that fit stored
            I = ctx.interp(order=[("K", "<=", "N"), ("K", "<=", "M")], assume=protocols.assume_default)
            st = State()
            o = ctx.construct(I, st, cls, n_components=integer("K"), mixing=scalar("alpha", 0, 1), svd_solver="full", space="feature")
            ctx.call_method(I, st, o, "fit", X, Y)
            if ctx.attr(st, o, "pxt_") is not None and ctx.attr(st, o, "pty_") is not None:
                pxt_t, pty_t = ctx.attr(st, o, "pxt_").term, ctx.attr(st, o, "pty_").term
        ctx.compare("NF-API", f"fit: pxy_ = pxt_ @ pty_ [{tag}]", N, ctx.attr(st, o, "pxy_"), T("matmul", pxt_t, pty_t), site, tag)
        ctx.compare("NF-API", f"fit: components_ = pxt_^T [{tag}]", N, ctx.attr(st, o, "components_"), T("T", pxt_t), site, tag)
        ctx.compare("NF-API", f"fit: mean_ = column means of X [{tag}]", N, ctx.attr(st, o, "mean_"), T("mean", X.term, ("axis", T("const", Fraction(0))), ("n", T("dim", Dim.of("N")))), site, tag)
        ctx.shape_is("R-1D", f"fit: pty_ shape [{tag}]", ctx.attr(st, o, "pty_"), ("K",) if oned else ("K", "P"), site, tag)
        ctx.shape_is("R-1D", f"fit: pxy_ shape [{tag}]", ctx.attr(st, o, "pxy_"), ("M",) if oned else ("M", "P"), site, tag)
        nc = ctx.attr(st, o, "n_components_")
        ctx.ob("NF-API", f"fit: n_components_ is the requested number [{tag}]", nc is not None and nc.dim is not None and repr(nc.dim) == "K", f"{nc!r}", site, tag, nontrivial=False)
        # the contract between fit and the space-specific fits: targets, fitted targets and regression weights arrive
        # as matrices (a vector target as one column) - the two callees and the kernel / covariance helpers build
        # Y Y^T and W Yhat^T from them, which are an inner product for vectors
        for space in ("feature", "sample"):
            got = []

            def route2(interp, clo, args, kw, st_, node, got=got):
                got.append(list(args))
                return route(interp, clo, args, kw, st_, node)

            I = ctx.interp(order=[("K", "<=", "N"), ("K", "<=", "M")], assume=protocols.assume_default, stubs={"PCovR._fit_feature_space": route2, "PCovR._fit_sample_space": route2})
            st = State()
            o = ctx.construct(I, st, cls, n_components=integer("K"), mixing=scalar("alpha", 0, 1), svd_solver="full", space=space)
            ctx.call_method(I, st, o, "fit", arr("X", "N", "M"), arr("Y", "N") if oned else arr("Y", "N", "P"))
            tag2 = f"{tag}, space={space}"
            a_ = got[0] if got else []
            a_ = [x for x in a_ if getattr(x, "kind", None) == "arr"]
            want = [("N", "M"), ("N", 1 if oned else "P"), ("N", 1 if oned else "P")] + ([("M", 1 if oned else "P")] if space == "sample" else [])
            if ctx.ob("R-1D", f"fit: the space-specific fit is reached with (X, Y, Yhat{', W' if space == 'sample' else ''}) [{tag2}]", len(a_) == len(want), f"{len(got)} call(s), {len(a_)} array argument(s)", site, tag2):
                for nm_, v_, w_ in zip(("X", "Y", "Yhat", "W"), a_, want):
                    if space == "sample" and nm_ in ("Yhat", "W"):  # (the covariance helper of the feature route reshapes a vector itself)
                        ctx.shape_is("R-1D", f"fit: {nm_} reaches the space-specific fit as a matrix [{tag2}]", v_, w_, site, tag2)
    # 1-D target with the default number of components (n_components=None -> min(n, m), arpack: one less):
    # the flattening must use the fitted count, the hyper-parameter is None
    for solver in ("full", "arpack"):
        seen = {}

        def route_n(interp, clo, args, kw, st_, node):
            h = st_.heap[clo.self_v.obj.id]
            kd = h["n_components_"].dim
            seen["k"] = kd
            h["pxt_"] = pc.farr(T("sym", "pxt"), "M", kd)
            h["pty_"] = pc.farr(T("sym", "pty"), kd, 1)
            h["ptx_"] = pc.farr(T("sym", "ptx"), kd, "M")
            return vconst(None)

        I = ctx.interp(assume=protocols.assume_default, stubs={"PCovR._fit_feature_space": route_n, "PCovR._fit_sample_space": route_n})
        st = State()
        o = ctx.construct(I, st, cls, mixing=scalar("alpha", 0, 1), svd_solver=solver, space="feature")
        ctx.call_method(I, st, o, "fit", arr("X", "N", "M"), arr("Y", "N"))
        site = ctx.site(P.method(cls, "fit"))
        tag = f"1-D y, n_components=None, {solver}"
        kd = seen.get("k")
        if kd is not None and (ctx.attr(st, o, "pxy_") is None or ctx.attr(st, o, "pxy_").kind == "undef"):
            # (the tail moved into the space-specific fits: un-stubbed run, as above)
            I = ctx.interp(assume=protocols.assume_default)
            st = State()
            o = ctx.construct(I, st, cls, mixing=scalar("alpha", 0, 1), svd_solver=solver, space="feature")
            ctx.call_method(I, st, o, "fit", arr("X", "N", "M"), arr("Y", "N"))
        if ctx.ob("R-1D", f"fit: default component count resolved before the projectors are built [{tag}]", kd is not None and kd.known(), f"n_components_ = {kd!r}", site, tag):
            ctx.shape_is("R-1D", f"fit: pty_ is flattened to the fitted number of components [{tag}]", ctx.attr(st, o, "pty_"), (kd,), site, tag)
            ctx.shape_is("R-1D", f"fit: pxy_ is a coefficient vector [{tag}]", ctx.attr(st, o, "pxy_"), ("M",), site, tag)
    # ---- construction of pxt_, ptx_, pty_ in both spaces (shared with C03) ---------------------------------
    pc.projectors(ctx, N, "NF-API")
    # ---- R-NESTED + spectrum (shared) ----------------------------------------------------------------------
    pc.spectrum(ctx, N)
    pc.solver_policy(ctx, "R-SPECTRUM")  # which decomposition svd_solver='auto' resolves to (exactness of the spectrum clause)
    # ---- NF-ROUNDTRIP (feature space) -------------------------------------------------------------------------
    roundtrip(ctx)
    # ---- shapes of the public API over the protocols -------------------------------------------------------------
    for p in protocols.decomposition_protocols():
        if not p.name.startswith("PCovR["):
            continue
        I, st, o, res = protocols.run(ctx, p)
        ctx.no_shape_conflicts("Shape", f"{p.name}: public API on held-out data", I, 0, ctx.site(P.method(cls, "fit")), p.name)


def roundtrip(ctx):
    """ptx_ @ pxt_ = L^-1/2 V^T C^1/2 C^-1/2 V L^1/2 -> I_K with declared inverse pairs"""
    P = ctx.P
    cls = P.cls(pc.PCOVR)
    rec = []
    I, st = ctx.interp(stubs=pc.decomposition_stubs(rec), assume=protocols.assume_default), State()
    tol = scalar("tol", 0, None)
    o = ctx.bare_object(I, st, cls, {"mixing": scalar("alpha", 0, 1), "tol": tol, "fit_svd_solver_": "full", "n_components_": integer("K")})
    X, Y, Yhat = arr("X", "N", "M"), arr("Y", "N", "P"), pc.farr(T("sym", "Yhat"), "N", "P")
    ctx.call_method(I, st, o, "_fit_feature_space", X, Y, Yhat)
    ptx, pxt = ctx.attr(st, o, "ptx_"), ctx.attr(st, o, "pxt_")
    site = ctx.site(P.method(cls, "_fit_feature_space"))
    N = ctx.normalizer()
    prod = N.nf(T("matmul", ptx.term, pxt.term))
    # structural reduction with the declared axioms
    ok, detail = _reduce_roundtrip(prod)
    ctx.ob("NF-ROUNDTRIP", "feature space: ptx_ @ pxt_ reduces to the identity on the retained components", ok, detail, site)


def _reduce_roundtrip(poly):
    from ..nf import show_poly

    if len(poly) != 1:
        return False, f"product is not a single chain: {show_poly(poly)[:300]}"
    ((s, chain), k), = poly
    names = [x.op if x.op not in ("t",) else "t:" + x.kids[0].op for x in chain]
    # expected chain:  dg(L^-1/2) Vt  lstsq(iC, I)  iC  Vt^T  dg(L^1/2)
    if k != 1 or s:
        return False, f"unexpected scalar factor in {show_poly(poly)[:300]}"
    if len(chain) != 6:
        return False, f"chain of length {len(chain)}: {names}"
    d1, vt, csq, icsq, vtt, d2 = chain
    checks = [
        d1.op == "dg" and d2.op == "dg",
        vt.op == "DEC_Vt" and vtt.op == "t" and vtt.kids[0] is vt,
        csq.op in ("lstsq", "pinv") and csq.kids[0] is icsq and icsq.op == "ICSQRT",
    ]
    if not all(checks):
        return False, f"chain does not have the shape L^-1/2 V^T C^1/2 C^-1/2 V L^1/2: {names}"
    # the two diagonal factors must be elementwise inverse on the retained range: same guard, s^-1/2 vs s^1/2
    t1, t2 = repr(d1.kids[0]), repr(d2.kids[0])
    inv = ("^-1/2" in t1 or "^1/2)^-1" in t1) and "^1/2" in t2
    return inv, f"chain {names}; left diagonal {t1[:120]} right diagonal {t2[:120]}"
