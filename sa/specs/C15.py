"""C15 (static conformance): periodic and Mahalanobis distances under minimum image.

Decided from the source against ref/pairwise_ref.py:
 R-WRAP       with a cell every displacement passes the nearest-image map
              d - round(d/c) c (rint / around / floor(.+1/2) are normalised to the same
              map; floor, ceil, trunc or mismatched divisor/multiplier are not)
              before the norm / quadratic form; the Euclidean and the Mahalanobis
              path apply the identical map, each guarded by `cell is not None`;
 NF-DIST      Euclidean: row norm of the wrapped displacement reshaped (nX, nY) in
              construction order, squared iff squared=True; without a cell the
              sklearn distance with squared forwarded and, for Y=None, ONE array
              object for both operands (exact zero self-distances); Mahalanobis: d^T S d per
              precision of the stack, square root iff not squared;
 Shape        cell (D,) broadcasts along the last axis; results (nX, nY) resp.
              (C, nX, nY); a 2-D precision is promoted to a stack of one;
 R-DIMCHECK   both public functions raise on any mismatch between the extent of the
              cell and the dimension of the points before anything else.
Not decided: metric axioms numerically (triangle inequality of the minimum-image
distance for rectangular cells is a theorem, cited not checked).
"""
from .. import protocols
from ..harness import arr, scalar
from ..interp import State
from ..terms import T, V, vconst

FLOOR = 24


def _pair_order(t):
    """order of the table of pairwise displacements inside a value: 'X-major' (row i * nY + j holds X[i] - Y[j]),
    'Y-major', or None when no pair table is found.  Read off the unit axes that broadcasting gave the two operands
    (the normal form forgets them on purpose, so this is a separate, structural obligation)."""
    from .. import tq as _tq
    from ..terms import const as _c

    found = set()
    for x in _tq.walk_all(t):
        if x.op == "reshape1" and len(x.args) == 4:
            hasx, hasy = _tq.has_sym(x.args[0], "X"), _tq.has_sym(x.args[0], "Y")
            if hasx == hasy:
                continue
            lead_unit, second_unit = x.args[1] == _c(1), x.args[2] == _c(1)
            if lead_unit == second_unit:
                continue
            # the operand that varies along the leading axis is the major one
            major = ("X" if hasx else "Y") if second_unit else ("Y" if hasx else "X")
            found.add(major + "-major")
    if len(found) == 1:
        return next(iter(found))
    return None if not found else "mixed"


def _none_test(c):
    """`x is None` / `x is not None` (possibly negated): asking whether a cell was given is not a use of it"""
    while getattr(c, "op", None) in ("not", "truthy") and c.args:
        c = c.args[0]
    return getattr(c, "op", None) in ("is", "isnot", "const")


def check(ctx):
    # positional parameters keep their documented positions (a reordering survives every keyword call)
    from ..sigrules import signatures as _signatures

    _signatures(ctx, "R-SIG", functions=('skmatter.metrics.periodic_pairwise_euclidean_distances', 'skmatter.metrics.pairwise_mahalanobis_distances'))
    # boolean arguments act by their truth value (squared=np.True_, e.g. the outcome of `p == 2`)
    from ..flagrules import function_flag_equivalence as _ffe
    from ..harness import arr as _arr

    for cell_on in (False, True):
        _f = ctx.P.func("skmatter.metrics.periodic_pairwise_euclidean_distances")
        _ffe(ctx, ctx.normalizer(), "R-FLAG", _f, "squared", lambda: (_arr("X", "nX", "D"), _arr("Y", "nY", "D")), lambda: ({"cell_length": _arr("cell", "D")} if cell_on else {}), ctx.site(_f), f"squared=numpy.True_,cell={cell_on}")
        _f = ctx.P.func("skmatter.metrics.pairwise_mahalanobis_distances")
        _ffe(ctx, ctx.normalizer(), "R-FLAG", _f, "squared", lambda: (_arr("X", "nX", "D"), _arr("Y", "nY", "D"), _arr("cov_inv", "D", "D")), lambda: ({"cell_length": _arr("cell", "D")} if cell_on else {}), ctx.site(_f), f"squared=numpy.True_,cell={cell_on}")
    P = ctx.P
    N = ctx.normalizer()
    fe = P.func("skmatter.metrics.periodic_pairwise_euclidean_distances")
    fm = P.func("skmatter.metrics.pairwise_mahalanobis_distances")
    # self-distances without a cell: sklearn returns exact zeros on the diagonal only when it is handed ONE array
    # object for both operands (it tests `X is Y`); copies of the same data give rounding noise of the size of
    # the cancellation |x|^2 + |x|^2 - 2 x.x instead
    seen = []

    def hook(interp, qual, args, kw, st_, node):
        if qual.endswith("euclidean_distances"):
            seen.append((args, kw))
        return None

    I, st = ctx.interp(call_hook=hook), State()
    ctx.call_func(I, st, fe, arr("X", "nX", "D"))
    ok = len(seen) == 1 and len(seen[0][0]) >= 2 and seen[0][0][0].loc is not None and seen[0][0][0].loc == seen[0][0][1].loc
    ctx.ob("NF-DIST", "Y=None without a cell: sklearn receives one array object for both operands (exact zero self-distances)", ok, f"{len(seen)} call(s); operands {[(repr(a_.term)[:40], a_.loc) for a_ in (seen[0][0][:2] if seen else [])]}", ctx.site(fe), "Y=None,cell=None")
    # Y omitted with a cell: the distances of X to itself, computed like any other pair of sets
    for squared in (False, True):
        cfg = f"Y=None,cell=True,squared={squared}"
        X1, cell1 = arr("X", "nX", "D"), arr("cell", "D")
        I, st = ctx.interp(), State()
        r = ctx.call_func(I, st, fe, X1, squared=squared, cell_length=cell1)
        I2, s2 = ctx.interp(), State()
        ref = ctx.call_func(I2, s2, "ref.pairwise_ref.periodic_euclidean", X1, X1, cell1, squared)
        ctx.compare("R-WRAP", f"periodic_pairwise_euclidean_distances(X) == reference for (X, X) [{cfg}]", N, r, ref, ctx.site(fe), cfg)
        ctx.no_shape_conflicts("Shape", f"periodic_pairwise_euclidean_distances(X) [{cfg}]", I, 0, ctx.site(fe), cfg)
    for cell_on in (False, True):
        for squared in (False, True):
            cfg = f"cell={cell_on},squared={squared}"
            X, Y, cell = arr("X", "nX", "D"), arr("Y", "nY", "D"), arr("cell", "D")
            cv = cell if cell_on else vconst(None)
            I, st = ctx.interp(), State()
            r = ctx.call_func(I, st, fe, X, Y, squared=squared, cell_length=cv)
            I2, s2 = ctx.interp(), State()
            ref = ctx.call_func(I2, s2, "ref.pairwise_ref.periodic_euclidean", X, Y, cv, squared)
            site = ctx.site(fe)
            ctx.compare("NF-DIST" if not cell_on else "R-WRAP", f"periodic_pairwise_euclidean_distances == reference [{cfg}]", N, r, ref, site, cfg)
            ctx.no_shape_conflicts("Shape", f"periodic_pairwise_euclidean_distances [{cfg}]", I, 0, site, cfg)
            ctx.shape_is("Shape", f"euclidean result is (nX, nY) [{cfg}]", r, ("nX", "nY"), site, cfg)
            if cell_on:
                ctx.ob("NF-DIST", f"the table of displacements is X-major, as the final reshape to (nX, nY) assumes [{cfg}]", _pair_order(r.term) == "X-major", f"pair table: {_pair_order(r.term)}", site, cfg)
            muts = [e for e in I.events if e["kind"] == "mutate" and any(o_[0] == "in" for o_ in e["target"].orig)]
            ctx.ob("R-PURE", f"euclidean leaves X, Y, cell untouched [{cfg}]", not muts, f"{[e['src'] for e in muts]}", site, cfg, nontrivial=False)
            for stack in (False, True):
                cfg2 = cfg + f",stack={stack}"
                ci = arr("cov_inv", "C", "D", "D") if stack else arr("cov_inv", "D", "D")
                I, st = ctx.interp(), State()
                r = ctx.call_func(I, st, fm, X, Y, ci, cv, squared)
                I2, s2 = ctx.interp(), State()
                ref = ctx.call_func(I2, s2, "ref.pairwise_ref.mahalanobis", X, Y, ci, cv, squared)
                site = ctx.site(fm)
                ctx.compare("NF-DIST" if not cell_on else "R-WRAP", f"pairwise_mahalanobis_distances == reference [{cfg2}]", N, r, ref, site, cfg2)
                ctx.no_shape_conflicts("Shape", f"pairwise_mahalanobis_distances [{cfg2}]", I, 0, site, cfg2)
                ctx.shape_is("Shape", f"mahalanobis result is ({'C' if stack else '1'}, nX, nY) [{cfg2}]", r, ("C" if stack else 1, "nX", "nY"), site, cfg2)
                ctx.ob("NF-DIST", f"the table of displacements is X-major, as the final reshape to (., nX, nY) assumes [{cfg2}]", _pair_order(r.term) == "X-major", f"pair table: {_pair_order(r.term)}", site, cfg2)
    # sibling agreement of the wrap (same map, same guard), read off the two functions directly
    X, Y, cell = arr("X", "nX", "D"), arr("Y", "nY", "D"), arr("cell", "D")
    I, st = ctx.interp(), State()
    r1 = ctx.call_func(I, st, fe, X, Y, squared=True, cell_length=cell)
    I2, s2 = ctx.interp(), State()
    r2 = ctx.call_func(I2, s2, fm, X, Y, arr("cov_inv", "D", "D"), cell, True)
    w1 = {repr(N.nf(t)) for t in r1.term.walk() if t.op == "round"}
    w2 = {repr(N.nf(t)) for t in r2.term.walk() if t.op == "round"}
    ctx.ob("R-WRAP", "Euclidean and Mahalanobis paths apply the identical nearest-image map", bool(w1) and w1 == w2, f"euclidean {sorted(w1)[:1]} mahalanobis {sorted(w2)[:1]}", ctx.site(fm))
    # positive/negative controls of the wrap normalisation
    I3, s3 = ctx.interp(), State()
    a = ctx.call_func(I3, s3, "ref.controls.wrap_floor_half", arr("d", "K", "D"), cell)
    b = ctx.call_func(I3, s3, "ref.pairwise_ref.minimum_image", arr("d", "K", "D"), cell)
    c = ctx.call_func(I3, s3, "ref.controls.wrap_floor", arr("d", "K", "D"), cell)
    ctx.ob("R-WRAP", "control: floor(d/c + 1/2) is accepted as the nearest-image map", N.nf(a.term) == N.nf(b.term), "normal forms equal", "ref/controls.py", nontrivial=False)
    ctx.ob("R-WRAP", "control: plain floor(d/c) is not", N.nf(c.term) != N.nf(b.term), "normal forms differ", "ref/controls.py", nontrivial=False)
    # controls for the order of the pair table (construction order is part of NF-DIST)
    Xc, Yc = arr("X", "nX", "D"), arr("Y", "nY", "D")
    vals = {}
    for fn_ in ("pair_differences_rows", "pair_differences_stacked", "pair_differences_other_order"):
        Ic, sc = ctx.interp(), State()
        vals[fn_] = ctx.call_func(Ic, sc, "ref.controls." + fn_, Xc, Yc)
    ctx.ob("NF-DIST", "control: the pair table stacked along axis 1 and flattened is the X-major table", N.nf(vals["pair_differences_rows"].term) == N.nf(vals["pair_differences_stacked"].term), "normal forms equal", "ref/controls.py", nontrivial=False)
    ctx.ob("NF-DIST", "control: the order of a pair table is read off its operands (X-major / stacked: X-major / the other order: Y-major)", [_pair_order(vals[k_].term) for k_ in ("pair_differences_rows", "pair_differences_stacked", "pair_differences_other_order")] == ["X-major", "X-major", "Y-major"], f"{[_pair_order(v_.term) for v_ in vals.values()]}", "ref/controls.py", nontrivial=False)
    # R-DIMCHECK
    for f, args in ((fe, lambda X, Y, c: ((X, Y), {"cell_length": c})), (fm, lambda X, Y, c: ((X, Y, arr("cov_inv", "D", "D"), c), {}))):
        X, Y, cell = arr("X", "nX", "D"), arr("Y", "nY", "D"), arr("cell", "D2")
        I, st = ctx.interp(), State()
        a, kw = args(X, Y, cell)
        ctx.call_func(I, st, f, *a, **kw)
        ev = I.events
        from .. import tq as _tq

        # the check is whatever raises under a condition on the extent of the cell (wherever it lives, whatever it is called)
        chk = [i for i, e in enumerate(ev) if e["kind"] == "raise" and any(_tq.has_size(c_, "D2") for c_, _p in e["pc"])]
        checkers = {ev[i].get("short") for i in chk}
        first_use = [i for i, e in enumerate(ev) if e["kind"] in ("validate", "mutate") or (e["kind"] == "branch" and e.get("short") not in checkers and not _none_test(e.get("cond")))]
        ok = bool(chk) and (not first_use or min(chk) < min(first_use))
        condt = [c for i in chk for c, pol in ev[i]["pc"]]
        conds = [repr(c) for c in condt]
        from .. import tq

        is_ne = any(tq.has_op(c, "ne") or (tq.has_op(c, "eq") and tq.has_op(c, "not")) for c in condt) and not any(tq.has_op(c, "lt", "gt", "le", "ge") for c in condt)
        ctx.ob("R-DIMCHECK", f"{f.name}: cell dimension is checked (and rejected on ANY mismatch) before any use", ok and is_ne and any(tq.has_size(c, "D2") for c in condt), f"raise at {chk[:1]}, first use at {first_use[:1]}, guard {conds[:2]}", ctx.site(f))
