"""C16 (static conformance, side clauses only): QuickShift.

The core statement (every point reaches a fixed point of the ascent map, path
compression attaches the final root, order independence) is a loop invariant over
runtime index values plus an acyclicity argument; it is NOT decided.  Decided,
each a necessary condition:
 NF-GABRIEL  _get_gabriel_graph removes edge (i,j) iff some k has
             d2(i,k) + d2(j,k) < d2(i,j) (strict, squared distances), symmetrically,
             with the diagonal excluded; fit fills the diagonal of the distance
             matrix with inf before the graph is built;
 R-POINTCONSISTENT _qs_next / _gs_next equal the reference step (strictly higher
             weight than the *current* point, distance from the current point,
             nearest wins against a running minimum, cut-off bounds it); in fit the
             point, its nearest neighbour and its cut-off are looked up with the
             same point value;
 R-GUARD-IMPL the branch that consumes the Gabriel graph is taken only where it was
             built (no possibly-unbound read in any of the three configurations);
 R-METRIC    the distance matrix is metric(X, X) with squared=True and the stored
             cell; the constructor multiplies the squared cut-offs by scale^2 on a copy;
 R-ASCENT    the labelling loop equals the transcription of the documented ascent with
             path compression (unlabelled points only, stop at a fixed point or at a
             labelled point, the whole path receives that point's root) modulo the
             normal form; this is a structural agreement, not a proof of the basin
             partition;
 R-LABELS    labels_ is the root array; centres are its fixed points;
             cluster_centers_ = X[centres].
"""
from .. import protocols
from ..harness import arr, index, integer, scalar
from .. import tq
from ..interp import State
from ..terms import T, Term, V, vconst

FLOOR = 14
CLS = "skmatter.clustering.QuickShift"


def _alts(ctx, names, *args, assume=None):
    """the equivalent spellings of a reference algorithm (ref/quickshift_ref.py), interpreted on the same inputs"""
    out = []
    for nm in names:
        try:
            I2, s2 = (ctx.interp(assume=assume) if assume is not None else ctx.interp()), State()
            out.append(ctx.call_func(I2, s2, "ref.quickshift_ref." + nm, *args))
        except Exception:
            out.append(None)
    return out


def check(ctx):
    # positional parameters keep their documented positions (a reordering survives every keyword call)
    from ..sigrules import signatures as _signatures

    _signatures(ctx, "R-SIG", classes=('skmatter.clustering.QuickShift',))
    P = ctx.P
    N = ctx.normalizer()
    cls = P.cls(CLS)
    d2 = arr("d2", "n", "n", inp=False)
    probs = arr("probs", "n", inp=False)
    # ---- Gabriel graph -------------------------------------------------------------
    f = P.func("skmatter.clustering._quick_shift._get_gabriel_graph")
    I, st = ctx.interp(), State()
    r = ctx.call_func(I, st, f, d2)
    I2, s2 = ctx.interp(), State()
    ref = ctx.call_func(I2, s2, "ref.quickshift_ref.gabriel_graph", d2)
    ctx.compare("NF-GABRIEL", "_get_gabriel_graph == brute-force definition (strict, symmetric, no self loops)", N, r, ref, ctx.site(f), alternatives=_alts(ctx, ("gabriel_graph_diag_first", "gabriel_graph_assigned", "gabriel_graph_rowwise", "gabriel_graph_by_witness"), d2))
    ctx.no_shape_conflicts("Shape", "_get_gabriel_graph", I, 0, ctx.site(f))
    # ---- steps ------------------------------------------------------------------------------
    i, nn, cut = index("i", "n"), index("nn", "n"), scalar("cutoff", 0, None)
    I, st = ctx.interp(), State()
    o = ctx.bare_object(I, st, cls, {"gabriel_shell": integer("shell")})
    r = ctx.call_method(I, st, o, "_qs_next", i, nn, probs, d2, cut)
    I2, s2 = ctx.interp(), State()
    ref = ctx.call_func(I2, s2, "ref.quickshift_ref.qs_next", i, nn, probs, d2, cut)
    ctx.compare("R-POINTCONSISTENT", "_qs_next == reference step", N, r, ref, ctx.site(P.method(cls, "_qs_next")), alternatives=_alts(ctx, ("qs_next_sorted_scan", "qs_next_vectorised"), i, nn, probs, d2, cut))
    gab = arr("gabriel", "n", "n", inp=False, dtype="bool")
    I, st = ctx.interp(), State()
    o = ctx.bare_object(I, st, cls, {"gabriel_shell": integer("shell")})
    r = ctx.call_method(I, st, o, "_gs_next", i, probs, d2, gab)
    I2, s2 = ctx.interp(), State()
    ref = ctx.call_func(I2, s2, "ref.quickshift_ref.gs_next", i, probs, d2, gab, integer("shell"))
    ctx.compare("R-POINTCONSISTENT", "_gs_next == reference step", N, r, ref, ctx.site(P.method(cls, "_gs_next")), alternatives=_alts(ctx, ("gs_next_frontier",), i, probs, d2, gab, integer("shell")))
    # ---- fit in the three configurations ------------------------------------------------------
    site = ctx.site(P.method(cls, "fit"))
    for mode in ("cutoff", "gabriel", "both"):
        for cell in (False, True):
            cfg = f"{mode},cell={cell}"
            calls = {"qs": [], "gs": [], "gab": []}

            def _positional(clo, args, kw):
                # arguments in the order of the parameters, however they were passed
                ps = clo.fi.params()[1:]
                out = list(args)
                for p_ in ps[len(out):]:
                    if p_ in kw:
                        out.append(kw[p_])
                return out

            def qs(interp, clo, args, kw, st_, node):
                args = _positional(clo, args, kw)
                calls["qs"].append(args)
                return V("int", T("QS", *[a.term for a in args]), shape=())

            def gs(interp, clo, args, kw, st_, node):
                args = _positional(clo, args, kw)
                calls["gs"].append(args)
                return V("int", T("GS", *[a.term for a in args]), shape=())

            def gg(interp, clo, args, kw, st_, node):
                calls["gab"].append(args)
                return V("arr", T("GABRIEL", args[0].term), shape=args[0].shape, orig=frozenset([("fresh",)]), loc=0, extra="bool")

            I = ctx.interp(assume=protocols.assume_default, stubs={"QuickShift._qs_next": qs, "QuickShift._gs_next": gs, "_get_gabriel_graph": gg})
            st = State()
            ctor = {"scale": scalar("scale", 0, None)}
            cuts = arr("cutoffs", "N")
            if mode in ("cutoff", "both"):
                ctor["dist_cutoff_sq"] = cuts
            if mode in ("gabriel", "both"):
                ctor["gabriel_shell"] = integer("shell")
            cellv = arr("cell", "F")
            if cell:
                ctor["metric_params"] = {"cell_length": cellv}
            lo0 = len(I.events)
            o = ctx.construct(I, st, cls, **ctor)
            if mode in ("cutoff", "both"):
                dc = ctx.attr(st, o, "dist_cutoff_sq")
                ctx.compare("R-METRIC", f"squared cut-offs are multiplied by scale^2 [{cfg}]", N, dc, T("smul", T("pow", T("sym", "scale"), T("const", __import__("fractions").Fraction(2))), cuts.term), ctx.site(P.method(cls, "__init__")), cfg)
                bad = [e for e in I.events[lo0:] if e["kind"] == "mutate" and any(o_[0] == "in" for o_ in e["target"].orig)]
                ctx.ob("R-METRIC", f"the caller's cut-off array is not scaled in place [{cfg}]", not bad, f"{[e['src'] for e in bad]}", ctx.site(P.method(cls, "__init__")), cfg)
            X, w = arr("X", "N", "F"), arr("w", "N")
            lo = len(I.events)
            r = ctx.call_method(I, st, o, "fit", X, samples_weight=w)
            ctx.no_shape_conflicts("Shape", f"construction and fit [{cfg}]", I, lo0, site, cfg)
            unb = [e for e in I.events[lo:] if e["kind"] == "maybe-unbound" or (e["kind"] == "unresolved-name")]
            ctx.ob("R-GUARD-IMPL", f"no possibly-unbound read (Gabriel graph consumed only where built) [{cfg}]", not unb, f"{[(e.get('name'), e.get('src')) for e in unb]}", site, cfg)
            want_gs = mode == "gabriel"
            ctx.ob("R-GUARD-IMPL", f"the {'Gabriel' if want_gs else 'cut-off'} step is the one used [{cfg}]", bool(calls["gs"]) == want_gs and bool(calls["qs"]) == (not want_gs) and bool(calls["gab"]) == want_gs, f"qs calls {len(calls['qs'])}, gs calls {len(calls['gs'])}, graphs built {len(calls['gab'])}", site, cfg)
            # distance matrix
            dm = None
            for a in (calls["qs"] or calls["gs"]):
                dm = a[3] if calls["qs"] else a[2]
                break
            if ctx.ob("R-METRIC", f"distance matrix located [{cfg}]", dm is not None, "", site, cfg):
                t = dm.term
                ok_fill = (t.op == "fill_diagonal" and repr(t.args[1]) == "'inf'") or (t.op == "store" and len(t.args) == 3 and getattr(t.args[1], "op", None) == "diagidx" and repr(t.args[2]) == "'inf'")
                ctx.ob("NF-GABRIEL", f"diagonal of the distance matrix set to inf before any use [{cfg}]", ok_fill, repr(t)[:80], site, cfg)
                inner = t.args[0] if ok_fill else t
                I2, s2 = ctx.interp(), State()
                ref = ctx.call_func(I2, s2, "skmatter.metrics.periodic_pairwise_euclidean_distances", X, X, squared=True, cell_length=cellv if cell else vconst(None))
                ctx.compare("R-METRIC", f"distance matrix = squared (periodic) distances of X with the stored cell [{cfg}]", N, inner, ref, site, cfg)
                if calls["gab"]:
                    ctx.ob("NF-GABRIEL", f"Gabriel graph built from the inf-diagonal squared distance matrix [{cfg}]", calls["gab"][0][0].term == t, repr(calls["gab"][0][0].term)[:80], site, cfg)
            # point consistency of the call
            for a in calls["qs"]:
                cur, nearest, wts, dmat, cutv = a
                okc = nearest.term.op == "getitem" and nearest.term.args[1] == cur.term and nearest.term.args[0].op == "argmin" and cutv.term.op == "getitem" and cutv.term.args[1] == cur.term and wts.term == w.term
                ctx.ob("R-POINTCONSISTENT", f"_qs_next is called with the nearest neighbour and cut-off of the current point and the sample weights [{cfg}]", okc, f"current={cur.term!r}; nearest={repr(nearest.term)[:80]}; cutoff={repr(cutv.term)[:80]}", site, cfg)
                okd = nearest.term.op == "getitem" and nearest.term.args[0].op == "argmin" and nearest.term.args[0].args[0] == dmat.term and dmat.term.op == "fill_diagonal"
                if not okd and nearest.term.op == "getitem":
                    # the same value in another spelling (the diagonal set through its index arrays, the minimum taken
                    # along the other axis of the transposed matrix): compare normal forms
                    from fractions import Fraction as _F

                    want_nn = T("getitem", T("argmin", dmat.term, ("axis", T("const", _F(1)))), nearest.term.args[1])
                    okd = N.nf(nearest.term) == N.nf(want_nn) and N.nf(dmat.term) == N.nf(T("fill_diagonal", dmat.term.args[0], T("const", "inf"))) if dmat.term.op in ("fill_diagonal", "store") and dmat.term.args else False
                ctx.ob("R-POINTCONSISTENT", f"nearest neighbours are computed on the distance matrix whose diagonal is already inf (a point is not its own neighbour) [{cfg}]", okd, repr(nearest.term)[:140], site, cfg)
                okn = nearest.term.op == "getitem" and any(isinstance(a_, tuple) and a_[0] == "axis" and a_[1] == T("const", __import__("fractions").Fraction(1)) for a_ in nearest.term.args[0].args)
                ctx.ob("R-POINTCONSISTENT", f"nearest neighbours are the row-wise argmin of the distance matrix [{cfg}]", okn, repr(nearest.term)[:120], site, cfg, nontrivial=False)
            for a in calls["gs"]:
                cur, wts, dmat, g = a
                ctx.ob("R-POINTCONSISTENT", f"_gs_next is called with the sample weights, the distance matrix and the Gabriel graph [{cfg}]", wts.term == w.term and g.term.op == "GABRIEL", f"{repr(g.term)[:60]}", site, cfg)
            # the ascent loop with path compression, against the transcription of the documented algorithm
            lab = ctx.attr(st, o, "labels_")
            if not cell:
                def step(interp, args_, kw_, st_, node_, mode=mode):
                    cur = args_[0]
                    a0 = (calls["qs"] or calls["gs"])[0]
                    if calls["qs"]:
                        nearest = T("getitem", a0[1].term.args[0], cur.term) if a0[1].term.op == "getitem" else a0[1].term
                        cutv = T("getitem", a0[4].term.args[0], cur.term) if a0[4].term.op == "getitem" else a0[4].term
                        return V("int", T("QS", cur.term, nearest, a0[2].term, a0[3].term, cutv), shape=())
                    return V("int", T("GS", cur.term, a0[1].term, a0[2].term, a0[3].term), shape=())

                I2, s2 = ctx.interp(assume=protocols.assume_default), State()
                ref = ctx.call_func(I2, s2, "ref.quickshift_ref.ascent_labels", integer("N"), V("func", T("step"), func=("builtin", step, "step")))
                stepv = V("func", T("step"), func=("builtin", step, "step"))
                ctx.compare("R-ASCENT", f"labels_: every point of a path receives the root of the point the path ran into [{cfg}]", N, lab, ref, site, cfg, alternatives=_alts(ctx, ("ascent_labels_carried", "ascent_labels_pointer_jumping", "ascent_labels_until_labelled"), integer("N"), stepv, assume=protocols.assume_default))
            # labels / centres
            I2, s2 = ctx.interp(), State()
            ref = ctx.call_func(I2, s2, "ref.quickshift_ref.centres", X, lab)
            ctx.compare("R-LABELS", f"cluster_centers_idx_ = fixed points of the root array [{cfg}]", N, ctx.attr(st, o, "cluster_centers_idx_"), ref.items[0], site, cfg)
            ctx.compare("R-LABELS", f"cluster_centers_ = X[centres] [{cfg}]", N, ctx.attr(st, o, "cluster_centers_"), ref.items[1], site, cfg)
            ctx.shape_is("Shape", f"labels_ has one entry per point [{cfg}]", lab, ("N",), site, cfg)
            ctx.ob("R-SELF", f"fit returns self [{cfg}]", r.kind == "obj" and r.obj is o.obj, f"{r!r}", site, cfg, nontrivial=False)
