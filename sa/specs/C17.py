"""C17 (static conformance): SparseKDE is a well-formed mixture consistent with its
Voronoi assignment.

Decided from the source against ref/sparsekde_ref.py:
 R-ASSIGN    every descriptor goes to argmin of the metric to the grid; the same
             label updates the count, the weight (weight of that descriptor) and
             the member list; fit passes the descriptors with the normalised
             descriptor weights; grid weights are read from that accumulator; the
             metric the estimator stores is called with squared=True and the configured
             cell whether it is the default (== the periodic Euclidean reference) or
             passed explicitly;
 NF-COV      _covariance (free space) = weighted covariance about the weighted mean
             with normalised weights and the 1 - sum p^2 correction;
             _local_population = exp(-d^2/(2 sigma^2)) * weight with minimum-image
             displacements on a cell;
 DEGREE-PERIODIC on a cell the circular mean takes sin/cos of the dimensionless angle
             x 2pi/cell and converts the mean direction back to a length before it is
             subtracted from coordinates (reported: known finding D11);
 R-SIBLING   the three call sites of _local_population (main loop, fpoints tuner,
             fspread tuner) pass (cell, grid, grid[i], grid weights, sigma2[i]);
 NF-BANDWIDTH bandwidth = Silverman-type factor (4/n/(d+2))^(2/(d+4)) times the
             OAS-shrunk local covariance, with n = flocal * nsamples, d = effdim;
             effdim and oas equal their formulas;
 NF-MIXTURE  score_samples = log mixture: far cells (squared Mahalanobis distance >
             kdecut^2) contribute the grid-level Gaussian with the grid weight, near
             cells the descriptor-level Gaussians of that cell's bandwidth with the
             descriptor weights; log-sum-exp accumulation; normalisation by the
             total grid weight; normkernel = D log 2pi + logdet H; score = sum;
 Shape       every call in the four configurations; caches reset by fit.
Not decided: positive definiteness / finiteness of bandwidths, convergence of the
bisection, the invariances numerically.
"""
from fractions import Fraction

from .. import protocols
from ..harness import arr, index, integer, scalar
from .. import tq
from ..interp import State
from ..terms import Dim, T, Term, V, vconst

FLOOR = 60
CLS = "skmatter.neighbors.SparseKDE"
MOD = "skmatter.neighbors._sparsekde"


def _metric():
    def metric(interp, args, kw, st_, node):
        a, b = args
        return V("arr", T("METRIC", a.term, b.term), shape=(a.shape[0], b.shape[0]) if a.shape and b.shape else None, orig=frozenset([("fresh",)]), loc=0)

    return V("func", T("metric"), func=("builtin", metric, "metric"))


def check(ctx):
    # positional parameters keep their documented positions (a reordering survives every keyword call)
    from ..sigrules import signatures as _signatures

    _signatures(ctx, "R-SIG", classes=('skmatter.neighbors.SparseKDE',))
    P = ctx.P
    N = ctx.normalizer()
    cls = P.cls(CLS)
    # ---- _local_population / _covariance ------------------------------------------------
    f_lp, f_cov = P.func(f"{MOD}._local_population"), P.func(f"{MOD}._covariance")
    for cell_on in (False, True):
        G, gi, w, s2, cell = arr("grid", "G", "F", inp=False), arr("grid_i", "F", inp=False), arr("gw", "G", inp=False), scalar("sigma2", 0, None), arr("cell", "F", inp=False)
        cv = cell if cell_on else vconst(None)
        I, st = ctx.interp(), State()
        r = ctx.call_func(I, st, f_lp, cv, G, gi, w, s2)
        I2, s2_ = ctx.interp(), State()
        ref = ctx.call_func(I2, s2_, "ref.sparsekde_ref.local_population", cv, G, gi, w, s2)
        ctx.compare("NF-COV", f"_local_population: localisation weights [cell={cell_on}]", N, r.items[0], ref.items[0], ctx.site(f_lp), f"cell={cell_on}")
        ctx.compare("NF-COV", f"_local_population: local population = sum of the weights [cell={cell_on}]", N, r.items[1], ref.items[1], ctx.site(f_lp), f"cell={cell_on}")
        ctx.no_shape_conflicts("Shape", f"_local_population [cell={cell_on}]", I, 0, ctx.site(f_lp))
        I, st = ctx.interp(), State()
        r = ctx.call_func(I, st, f_cov, G, w, cv)
        I2, s2_ = ctx.interp(), State()
        ref = ctx.call_func(I2, s2_, "ref.sparsekde_ref.covariance", G, w, cv)
        if cell_on:
            ctx.compare("DEGREE-PERIODIC", "_covariance periodic circular mean", N, r, ref, ctx.site(f_cov), "cell=True")
        else:
            ctx.compare("NF-COV", "_covariance (free space) = weighted covariance with the 1 - sum p^2 correction", N, r, ref, ctx.site(f_cov), "cell=False")
        ctx.no_shape_conflicts("Shape", f"_covariance [cell={cell_on}]", I, 0, ctx.site(f_cov))
        ctx.shape_is("Shape", f"_covariance is (F, F) [cell={cell_on}]", r, ("F", "F"), ctx.site(f_cov))
    # ---- effdim / oas --------------------------------------------------------------------------
    for fn in ("effdim", "oas"):
        f = P.func(f"skmatter.utils.{fn}")
        cov = arr("cov", "F", "F", inp=False)
        args = (cov,) if fn == "effdim" else (cov, scalar("n", 0, None), integer("F"))
        I, st = ctx.interp(assume=_no_raise), State()
        r = ctx.call_func(I, st, f, *args)
        I2, s2_ = ctx.interp(), State()
        ref = ctx.call_func(I2, s2_, f"ref.sparsekde_ref.{fn}", *args)
        ctx.compare("NF-BANDWIDTH", f"{fn} == its formula", N, r, ref, ctx.site(f))
    # ---- the distance the estimator uses: squared, and periodic whenever a cell is configured ----------------
    # (whether the metric is the default or passed explicitly - the assignment, the bandwidths and the scores
    #  must see the same geometry)
    kcls = P.cls(f"{MOD}.SparseKDE")
    for explicit in (False, True):
        for cell_on in (False, True):
            cfg_m = f"metric={'explicit' if explicit else 'default'},cell={cell_on}"
            seen_kw = []

            def user_metric(interp, args, kw, st_, node, seen_kw=seen_kw):
                seen_kw.append((list(args), dict(kw)))
                a, b = args[:2]
                return V("arr", T("METRIC", a.term, b.term), shape=(a.shape[0], b.shape[0]) if a.shape and b.shape else None, orig=frozenset([("fresh",)]), loc=0)

            Im, sm = ctx.interp(assume=protocols.assume_default), State()
            cellm = arr("cell", "F")
            ctor_m = {"descriptors": arr("descriptors", "D", "F"), "weights": arr("weights", "D")}
            if cell_on:
                ctor_m["metric_params"] = {"cell_length": cellm}
            if explicit:
                ctor_m["metric"] = V("func", T("metric"), func=("builtin", user_metric, "metric"))
            om = ctx.construct(Im, sm, kcls, **ctor_m)
            Am, Bm = arr("A", "nA", "F"), arr("B", "nB", "F")
            rm = ctx._run(Im, sm, lambda: Im.call_value(Im.getattr_obj(om, "metric", sm), [Am, Bm], {}, sm, None))
            site_m = ctx.site(P.method(kcls, "__init__"))
            if explicit:
                kw_ = seen_kw[0][1] if seen_kw else {}
                sq_ = kw_.get("squared")
                ok_ = len(seen_kw) == 1 and sq_ is not None and sq_.has_const and sq_.const is True and (("cell_length" in kw_ and kw_["cell_length"].term == cellm.term) if cell_on else ("cell_length" not in kw_ or kw_["cell_length"].kind == "none"))
                ctx.ob("R-ASSIGN", f"a metric passed explicitly is called with squared=True and the configured cell [{cfg_m}]", ok_, f"{len(seen_kw)} call(s), keywords {sorted(kw_)}", site_m, cfg_m)
            else:
                I2m, s2m = ctx.interp(), State()
                refm = ctx.call_func(I2m, s2m, "ref.pairwise_ref.periodic_euclidean", Am, Bm, cellm if cell_on else vconst(None), True)
                ctx.compare("R-ASSIGN", f"the default metric is the squared (periodic) Euclidean distance [{cfg_m}]", N, rm, refm, site_m, cfg_m)
    # ---- assignment ----------------------------------------------------------------------------------
    acls = P.cls(f"{MOD}._NearestGridAssigner")
    mv = _metric()
    I, st = ctx.interp(), State()
    o = ctx.construct(I, st, acls, metric=mv, metric_params=None)
    grid, desc, w = arr("grid", "G", "F"), arr("desc", "D", "F"), arr("w", "D")
    ctx.call_method(I, st, o, "fit", grid)
    lab = ctx.call_method(I, st, o, "predict", desc, sample_weight=w)
    I2, s2_ = ctx.interp(), State()
    ref = ctx.call_func(I2, s2_, "ref.sparsekde_ref.assign", mv, grid, desc, w)
    site = ctx.site(P.method(acls, "predict"))
    ctx.compare("R-ASSIGN", "labels: argmin of the metric between each descriptor and the grid", N, lab, ref.items[0], site)
    ctx.compare("R-ASSIGN", "grid_npoints: count incremented under the descriptor's own label", N, ctx.attr(st, o, "grid_npoints"), ref.items[1], site)
    ctx.compare("R-ASSIGN", "grid_weight: += weight of the same descriptor under the same label", N, ctx.attr(st, o, "grid_weight"), ref.items[2], site)
    gn = ctx.attr(st, o, "grid_neighbour")
    inner = gn.term
    # the final conversion loop wraps the accumulation loop; the accumulation is its init
    # (a final conversion of the member lists to arrays wraps the accumulation: the obligation is on
    # the loop over the descriptors, wherever the conversion puts it)
    from ..apitable import dim_term as _dt

    over_desc = T("range", _dt(Dim(0)), _dt(Dim.of("D")))
    accum = next((x for x in inner.walk() if x.op == "loop" and isinstance(x.args[1], type(inner)) and (x.args[1].op == "enumerate" or x.args[1] == over_desc)), inner)
    ctx.compare("R-ASSIGN", "grid_neighbour: the descriptor index is appended under the same label", N, accum, ref.items[3], site)
    ctx.no_shape_conflicts("Shape", "_NearestGridAssigner.predict", I, 0, site)
    # ---- SparseKDE level -------------------------------------------------------------------------------
    for cell_on in (False, True):
        for mode in ("fpoints", "fspread"):
            cfg = f"cell={cell_on},{mode}"
            calls = []

            def lp_stub(interp, clo, args, kw, st_, node):
                # the calling method (a local helper closure wrapping the call belongs to the method that defines it)
                where_ = next((f_.fi.short for f_ in reversed(interp.framestack) if "." in f_.fi.short), interp.framestack[-1].fi.short if interp.framestack else "?")
                calls.append((where_, args))
                g = args[1]
                n = g.shape[0] if g.shape else Dim.unknown("g")
                return interp.mk_tuple([V("arr", T("WL", *[a.term for a in args]), shape=(n,), orig=frozenset([("fresh",)]), loc=0), V("float", T("FL", *[a.term for a in args]), shape=())])

            I = ctx.interp(assume=protocols.assume_default, stubs={"_local_population": lp_stub})
            st = State()
            D_, W_ = arr("descriptors", "D", "F"), arr("weights", "D")
            ctor = {"descriptors": D_, "weights": W_}
            cellv = arr("cell", "F")
            if cell_on:
                ctor["metric_params"] = {"cell_length": cellv}
            if mode == "fspread":
                ctor["fspread"] = scalar("fspread", 0, None)
                ctor["fpoints"] = -1.0
            o = ctx.construct(I, st, cls, **ctor)
            site_i = ctx.site(P.method(cls, "__init__"))
            ctx.compare("R-ASSIGN", f"descriptor weights are normalised to one [{cfg}]", N, ctx.attr(st, o, "weights"), T("sdiv", W_.term, T("sum", W_.term)), site_i, cfg)
            Gd = arr("grid", "G", "F")
            # caches of an earlier fit (filled lazily by score_samples) must not survive a refit
            st.heap[o.obj.id]["_bandwidth_inv_"] = arr("stale_binv", "G0", "F", "F", inp=False)
            st.heap[o.obj.id]["_normkernels_"] = arr("stale_normk", "G0", inp=False)
            lo = len(I.events)
            r = ctx.call_method(I, st, o, "fit", Gd)
            site = ctx.site(P.method(cls, "fit"))
            ctx.no_shape_conflicts("Shape", f"fit [{cfg}]", I, lo, site, cfg)
            h = st.heap[o.obj.id]
            ctx.ob("R-RESET", f"density caches are reset by fit [{cfg}]", h["_bandwidth_inv_"].kind == "none" and h["_normkernels_"].kind == "none", f"{h['_bandwidth_inv_']!r} {h['_normkernels_']!r}", site, cfg, nontrivial=False)
            ctx.shape_is("Shape", f"bandwidth_ is (grid, F, F) [{cfg}]", h["bandwidth_"], ("G", "F", "F"), site, cfg)
            # R-SIBLING: all call sites of _local_population
            sites = {}
            for where, a in calls:
                sites.setdefault(where, []).append(a)
            want_sites = {"SparseKDE._computes_localized_bandwidth"} | ({"SparseKDE._tune_localization_factor_based_on_fraction_of_points"} if mode == "fpoints" else {"SparseKDE._tune_localization_factor_based_on_fraction_of_spread"})
            ctx.ob("R-SIBLING", f"call sites of _local_population analysed [{cfg}]", want_sites <= set(sites), f"{sorted(sites)}", site, cfg)
            gw = h["_sample_weights"]
            for where, lst in sorted(sites.items()):
                bad = []
                for a in lst:
                    cellt, gj, gi_, wj = a[0], a[1], a[2], a[3]
                    ok = (cellt.term == (cellv.term if cell_on else T("const", None))) and gj.term == Gd.term and gi_.term.op == "getitem" and gi_.term.args[0] == Gd.term and wj.term == gw.term
                    if not ok:
                        bad.append((repr(gj.term)[:40], repr(gi_.term)[:40], repr(wj.term)[:40]))
                    sh_ok = gj.shape is not None and gi_.shape is not None and len(gi_.shape) == 1
                    if not sh_ok:
                        bad.append(("shape", gj.shape, gi_.shape))
                ctx.ob("R-SIBLING", f"{where.split('.')[-1]} passes (cell, grid, grid[i], grid weights) to _local_population [{cfg}]", not bad, f"{bad[:2]}", site, cfg)
            # grid weights come from the assignment accumulator with the normalised descriptor weights
            t = repr(gw.term)
            ctx.ob("R-ASSIGN", f"grid weights = assignment accumulator over the descriptors with their normalised weights [{cfg}]", gw.term.op == "loop" and tq.has_sym(gw.term, "descriptors") and tq.has_sym(gw.term, "weights"), t[:160], site, cfg)
            ctx.ob("R-SELF", f"fit returns self [{cfg}]", r.kind == "obj" and r.obj is o.obj, f"{r!r}", site, cfg, nontrivial=False)
    # ---- localisation tuners, nearest-grid distance, normalisation constants ------------------------------
    for cell_on in (False, True):
        cfg = f"cell={cell_on}"
        cellv = arr("cell", "F", inp=False) if cell_on else vconst(None)

        def pop_stub(interp, clo, args, kw, st_, node):
            g = args[1]
            n = g.shape[0] if g.shape else Dim.unknown("g")
            return interp.mk_tuple([V("arr", T("WL", *[a_.term for a_ in args]), shape=(n,), orig=frozenset([("fresh",)]), loc=0), V("float", T("FL", *[a_.term for a_ in args]), shape=())])

        stubs = {"_local_population": pop_stub, "population": pop_stub}
        mk_in = lambda: (arr("grid", "G", "F", inp=False), arr("gw", "G", inp=False), arr("sigma2", "G", inp=False), arr("flocal", "G", inp=False), index("i", "G"))
        # fraction-of-spread tuner
        X, gw, s2v, fl, i = mk_in()
        md = arr("mindist", "G", inp=False)
        I, st = ctx.interp(stubs=stubs, assume=protocols.assume_default), State()
        o = ctx.bare_object(I, st, cls, {"cell": cellv})
        r = ctx.call_method(I, st, o, "_tune_localization_factor_based_on_fraction_of_spread", X, gw, s2v, fl, i, md)
        X2, gw2, s22, fl2, i2 = mk_in()
        I2, s2_ = ctx.interp(stubs=stubs, assume=protocols.assume_default), State()
        ref = ctx.call_func(I2, s2_, "ref.sparsekde_ref.tune_by_spread", cellv, X2, gw2, s22, fl2, i2, md)
        site = ctx.site(P.method(cls, "_tune_localization_factor_based_on_fraction_of_spread"))
        for nm, k in (("sigma2", 0), ("flocal", 1), ("wlocal", 2)):
            ctx.compare("NF-LOCAL", f"spread tuner: {nm} [{cfg}]", N, r.items[k], ref.items[k], site, cfg)
        # fraction-of-points tuner
        X, gw, s2v, fl, i = mk_in()
        delta, tune, fp = scalar("delta", 0, None), scalar("tune", 0, None), scalar("fpoints", 0, 1)
        I, st = ctx.interp(stubs=stubs, assume=protocols.assume_default), State()
        o = ctx.bare_object(I, st, cls, {"cell": cellv, "fpoints": fp})
        r = ctx.call_method(I, st, o, "_tune_localization_factor_based_on_fraction_of_points", X, gw, s2v, fl, i, delta, tune)
        X2, gw2, s22, fl2, i2 = mk_in()
        I2, s2_ = ctx.interp(stubs=stubs, assume=protocols.assume_default), State()
        ref = ctx.call_func(I2, s2_, "ref.sparsekde_ref.tune_by_points", cellv, X2, gw2, s22, fl2, i2, delta, tune, fp)
        site = ctx.site(P.method(cls, "_tune_localization_factor_based_on_fraction_of_points"))
        try:
            X3, gw3, s23, fl3, i3 = mk_in()
            I3, s3_ = ctx.interp(stubs=stubs, assume=protocols.assume_default), State()
            alt = ctx.call_func(I3, s3_, "ref.sparsekde_ref.tune_by_points_halving", cellv, X3, gw3, s23, fl3, i3, delta, tune, fp)
            alts = [[alt.items[k]] for k in range(3)]
        except Exception:
            alts = [[], [], []]
        for nm, k in (("sigma2", 0), ("flocal", 1), ("wlocal", 2)):
            ctx.compare("NF-LOCAL", f"points tuner (widen, then bisect to within delta): {nm} [{cfg}]", N, r.items[k], ref.items[k], site, cfg, alternatives=alts[k])
    # ---- what fit hands to the tuners: tune, delta, initial localisation, nearest-grid distance ------------
    for cell_on in (False, True):
        for mode in ("fpoints", "fspread"):
            cfg = f"cell={cell_on},{mode}"
            got = {}

            def pop2(interp, clo, args, kw, st_, node):
                g = args[1]
                n = g.shape[0] if g.shape else Dim.unknown("g")
                got.setdefault("pop", []).append(args)
                return interp.mk_tuple([V("arr", T("WL", *[a_.term for a_ in args]), shape=(n,), orig=frozenset([("fresh",)]), loc=0), V("float", T("FL", *[a_.term for a_ in args]), shape=())])

            def tuner(name):
                def f(interp, clo, args, kw, st_, node):
                    got.setdefault(name, []).append(args)
                    return interp.mk_tuple([args[2], args[3], V("arr", T("WLT", args[4].term), shape=(Dim.of("G"),), orig=frozenset([("fresh",)]), loc=0)])

                return f

            def bw_stub(interp, clo, args, kw, st_, node):
                F = Dim.of("F")
                return interp.mk_tuple([V("arr", T("BW", *[a_.term for a_ in args]), shape=(F, F), orig=frozenset([("fresh",)]), loc=0), V("arr", T("BC", *[a_.term for a_ in args]), shape=(F, F), orig=frozenset([("fresh",)]), loc=0)])

            def cov2(interp, clo, args, kw, st_, node):
                return V("arr", T("COV", *[a_.term for a_ in args]), shape=(Dim.of("F"), Dim.of("F")), orig=frozenset([("fresh",)]), loc=0)

            stubs = {"_local_population": pop2, "_covariance": cov2, "SparseKDE._tune_localization_factor_based_on_fraction_of_points": tuner("points"), "SparseKDE._tune_localization_factor_based_on_fraction_of_spread": tuner("spread"), "SparseKDE._bandwidth_estimation_from_localization": bw_stub}
            I = ctx.interp(assume=protocols.assume_default, stubs=stubs)
            st = State()
            Gd, gw, md = arr("grid", "G", "F", inp=False), arr("gw", "G", inp=False), arr("mindist", "G", inp=False)
            cellv = arr("cell", "F", inp=False) if cell_on else vconst(None)
            fs = scalar("fspread", 0, None) if mode == "fspread" else vconst(-1.0)
            fp = vconst(-1.0) if mode == "fspread" else scalar("fpoints", 0, 1)
            o = ctx.bare_object(I, st, cls, {"cell": cellv, "fspread": fs, "fpoints": fp, "nsamples": integer("D"), "verbose": False})
            ctx.call_method(I, st, o, "_computes_localized_bandwidth", Gd, gw, md)
            site = ctx.site(P.method(cls, "_computes_localized_bandwidth"))
            tune_want = T("sum", T("pow", cellv.term, T("const", Fraction(2)))) if cell_on else T("trace", T("COV", Gd.term, gw.term, cellv.term))
            s_init = T("smul", tune_want, T("smul", T("pow", fs.term, T("const", Fraction(2))), T("const", Fraction(1)))) if mode == "fspread" else tune_want  # (a product of two scalars)
            pops = got.get("pop", [])
            ok = bool(pops) and all(len(a_) == 5 for a_ in pops)
            if ctx.ob("NF-LOCAL", f"main loop measures the local population of every grid point [{cfg}]", ok, f"{len(pops)} calls", site, cfg):
                first = pops[0][4]
                # sigma2[i] of the initial localisation: full(tune) (times fspread^2 when the spread mode is on)
                want_first = T("getitem", T("full", s_init, T("dim", Dim.of("G"))), T("lv", "L1"))
                okv = N.nf(first.term) == N.nf(want_first) or N.nf(first.term) == N.nf(T("getitem", T("smul", T("pow", fs.term, T("const", Fraction(2))), T("full", tune_want, T("dim", Dim.of("G")))), T("lv", "L1")))
                ctx.ob("NF-LOCAL", f"initial localisation sigma2 = {'fspread^2 * ' if mode == 'fspread' else ''}{'sum(cell^2)' if cell_on else 'trace of the weighted covariance'} [{cfg}]", okv, f"sigma2[i] passed first = {first.term!r}"[:300], site, cfg)
            if mode == "fpoints":
                calls = got.get("points", [])
                if ctx.ob("NF-LOCAL", f"the fraction-of-points tuner is used when fpoints > 0 [{cfg}]", len(calls) >= 1 and not got.get("spread"), f"points calls {len(calls)}, spread calls {len(got.get('spread', []))}", site, cfg):
                    a_ = calls[0]
                    ctx.ob("NF-LOCAL", f"tuner tolerance delta = 1 / nsamples [{cfg}]", N.nf(a_[5].term) == N.nf(T("div", T("const", Fraction(1)), T("dim", Dim.of("D")))), f"delta = {a_[5].term!r}", site, cfg)
                    ctx.ob("NF-LOCAL", f"tuner step = the global scale `tune` [{cfg}]", N.nf(a_[6].term) == N.nf(tune_want), f"tune = {a_[6].term!r}"[:200], site, cfg)
            else:
                calls = got.get("spread", [])
                if ctx.ob("NF-LOCAL", f"the fraction-of-spread tuner is the only tuner when fpoints <= 0 [{cfg}]", len(calls) >= 1 and not got.get("points"), f"spread calls {len(calls)}, points calls {len(got.get('points', []))}", site, cfg):
                    ctx.ob("NF-LOCAL", f"spread tuner receives the nearest-other-grid distances [{cfg}]", calls[0][5].term == md.term, f"mindist argument = {calls[0][5].term!r}", site, cfg)
    # nearest other grid point: diagonal masked before the row minimum; normalisation constants
    I, st = ctx.interp(assume=protocols.assume_default, stubs={"SparseKDE._assign_descriptors_to_grids": (lambda i_, c_, a_, k_, s_, n_: i_.mk_tuple([vconst(None), V("dict", T("sym", "members")), arr("labels", "D", inp=False), arr("gw", "G", inp=False)])), "SparseKDE._computes_localized_bandwidth": (lambda i_, c_, a_, k_, s_, n_: (mdgot.append(a_[2]), vconst(None))[1])}), State()
    mdgot = []
    Dm = arr("GD", "G", "G", inp=False)
    o = ctx.bare_object(I, st, cls, {"metric": V("func", T("metric"), func=("builtin", (lambda i_, a_, k_, s_, n_: Dm), "metric")), "cell": vconst(None), "verbose": False, "descriptors": arr("descriptors", "D", "F", inp=False), "weights": arr("weights", "D", inp=False)})
    ctx.call_method(I, st, o, "fit", arr("grid", "G", "F"))
    I2, s2_ = ctx.interp(), State()
    Dm2 = arr("GD", "G", "G", inp=False)
    ref = ctx.call_func(I2, s2_, "ref.sparsekde_ref.nearest_other_grid_distance", Dm2)
    if ctx.ob("NF-LOCAL", "fit passes a nearest-grid distance to the bandwidth estimation", len(mdgot) == 1, f"{len(mdgot)} calls", ctx.site(P.method(cls, "fit"))):
        ctx.compare("NF-LOCAL", "mindist = row minimum of the grid distance matrix with the diagonal excluded", N, mdgot[0], ref, ctx.site(P.method(cls, "fit")))
    I, st = ctx.interp(assume=protocols.assume_default), State()
    bwv = arr("bandwidth", "G", "F", "F", inp=False)
    o = ctx.bare_object(I, st, cls, {"descriptors": arr("descriptors", "D", "F", inp=False), "bandwidth_": bwv, "fitted_": True, "_normkernels_": vconst(None)})
    nkv = ctx._run(I, st, lambda: I.getattr_obj(o, "_normkernels", st))
    I2, s2_ = ctx.interp(), State()
    ref = ctx.call_func(I2, s2_, "ref.sparsekde_ref.norm_kernels", bwv, integer("F"))
    ctx.compare("NF-MIXTURE", "normkernel_j = D log(2 pi) + log det H_j (exact)", N, nkv, ref, ctx.site(cls.methods["_normkernels"]))
    # ---- bandwidth formula -------------------------------------------------------------------------------
    def cov_stub(interp, clo, args, kw, st_, node):
        return V("arr", T("COV", *[a.term for a in args]), shape=(Dim.of("F"), Dim.of("F")), orig=frozenset([("fresh",)]), loc=0)

    def eff_stub(interp, clo, args, kw, st_, node):
        return V("float", T("EFFDIM", args[0].term), shape=())

    def oas_stub(interp, clo, args, kw, st_, node):
        return V("arr", T("OAS", *[a.term for a in args]), shape=(Dim.of("F"), Dim.of("F")), orig=frozenset([("fresh",)]), loc=0)

    stubs = {"_covariance": cov_stub, "effdim": eff_stub, "oas": oas_stub}
    I, st = ctx.interp(stubs=stubs), State()
    desc = arr("descriptors", "D", "F", inp=False)
    o = ctx.bare_object(I, st, cls, {"descriptors": desc, "cell": vconst(None)})
    X, wl, fl, i = arr("grid", "G", "F", inp=False), arr("wlocal", "G", inp=False), arr("flocal", "G", inp=False), index("i", "G")
    r = ctx.call_method(I, st, o, "_bandwidth_estimation_from_localization", X, wl, fl, i)
    I2, s2_ = ctx.interp(), State()
    mk = lambda fn: V("func", T(fn.__name__), func=("builtin", lambda i_, a, k, s, n, fn=fn: fn(i_, None, a, k, s, n), fn.__name__))
    ref = ctx.call_func(I2, s2_, "ref.sparsekde_ref.bandwidth_from_localization", X, wl, V("arr", T("getitem", fl.term, i.term), shape=(), orig=frozenset([("fresh",)]), loc=0), integer("D"), vconst(None), mk(cov_stub), mk(eff_stub), mk(oas_stub))
    site = ctx.site(P.method(cls, "_bandwidth_estimation_from_localization"))
    ctx.compare("NF-BANDWIDTH", "bandwidth = (4/n/(d+2))^(2/(d+4)) * OAS(local covariance)", N, r.items[0], ref.items[0], site)
    ctx.compare("NF-BANDWIDTH", "stored covariance = OAS-shrunk local covariance", N, r.items[1], ref.items[1], site)
    # ---- density ------------------------------------------------------------------------------------------------
    for cell_on in (False, True):
        I, st = ctx.interp(assume=protocols.assume_default), State()
        desc, wts = arr("descriptors", "D", "F", inp=False), arr("weights", "D", inp=False)
        grids, gws = arr("grids", "G", "F", inp=False), arr("gweights", "G", inp=False)
        binv, nk = arr("binv", "G", "F", "F", inp=False), arr("normk", "G", inp=False)
        # the members of a grid cell: a vector of descriptor indices (one per cell, of unrelated lengths)
        members = V("dict", T("sym", "members"), extra=("values", arr("member_idx", Dim.unknown("cellsize"), inp=False, dtype="int")))
        cellv = arr("cell", "F", inp=False) if cell_on else vconst(None)
        o = ctx.bare_object(I, st, cls, {"descriptors": desc, "weights": wts, "_grids": grids, "_sample_weights": gws, "_grid_neighbour": members, "_bandwidth_inv_": binv, "_normkernels_": nk, "fitted_": True, "cell": cellv, "verbose": False})
        Q = arr("Q", "Qn", "F")
        lo = len(I.events)
        r = ctx.call_method(I, st, o, "score_samples", Q)
        kd = ctx.call_method(I, st, o, "_computes_kernel_density_estimation", Q) if False else None
        I2, s2_ = ctx.interp(assume=protocols.assume_default), State()
        k2 = T("pow", T("smul", T("const", Fraction(3)), T("add", T("sqrt", T("dim", Dim.of("F"))), T("const", Fraction(1)))), T("const", Fraction(2)))
        ref = ctx.call_func(I2, s2_, "ref.sparsekde_ref.log_density", Q, grids, gws, desc, wts, members, binv, nk, cellv, V("float", k2, shape=()))
        site = ctx.site(P.method(cls, "_computes_kernel_density_estimation"))
        ctx.compare("NF-MIXTURE", f"score_samples = log of the documented mixture [cell={cell_on}]", N, r, ref, site, f"cell={cell_on}")
        ctx.no_shape_conflicts("Shape", f"score_samples [cell={cell_on}]", I, lo, site, f"cell={cell_on}")
        sc = ctx.call_method(I, st, o, "score", Q)
        ctx.compare("NF-MIXTURE", f"score = sum(score_samples) [cell={cell_on}]", N, sc, T("sum", r.term), ctx.site(P.method(cls, "score")), f"cell={cell_on}")
    # normkernels / bandwidth_inv properties
    I, st = ctx.interp(assume=protocols.assume_default), State()
    bw = arr("bandwidth", "G", "F", "F", inp=False)
    o = ctx.bare_object(I, st, cls, {"descriptors": arr("descriptors", "D", "F", inp=False), "bandwidth_": bw, "fitted_": True, "_bandwidth_inv_": vconst(None), "_normkernels_": vconst(None)})
    nkv = I.getattr_obj(o, "_normkernels", st) if False else ctx._run(I, st, lambda: I.getattr_obj(o, "_normkernels", st))
    t = repr(nkv.term)
    ok = tq.has_op(nkv.term, "logdet") and tq.has_op(nkv.term, "log") and tq.has_sym(nkv.term, "pi") and tq.has_size(nkv.term, "F")
    ctx.ob("NF-MIXTURE", "normkernel_j = D log(2 pi) + logdet(H_j)", ok, t[:200], ctx.site(cls.methods["_normkernels"]))
    biv = ctx._run(I, st, lambda: I.getattr_obj(o, "_bandwidth_inv", st))
    ctx.ob("NF-MIXTURE", "precision_j = inverse of bandwidth_j, paired by index", tq.has_op(biv.term, "inv") and tq.has_sym(biv.term, "bandwidth"), repr(biv.term)[:160], ctx.site(cls.methods["_bandwidth_inv"]))
    # the fitted mixture (grid weights, grid points, bandwidths) is what every later score refers to: drawing samples
    # or scoring leaves it as fit produced it
    for p_ in protocols.all_class_protocols():
        if not p_.name.startswith("SparseKDE"):
            continue
        Ip, sp_, op_, _res = protocols.run(ctx, p_)
        for meth_, changed_ in getattr(Ip, "_reader_changes", []):
            ctx.ob("R-STATE", f"{p_.name}.{meth_} leaves the fitted mixture untouched", not changed_, f"attributes rewritten: {changed_}" if changed_ else "no fitted attribute changed", ctx.site(P.method(cls, meth_)), p_.name)


def _no_raise(term, node, interp):
    r = repr(term)
    if "le" in term.op or term.op in ("lt", "le"):
        return False
    return None
