"""C18 (static conformance): OrthogonalRegression yields a Procrustes map.

Decided from the source against ref/ridge_ref.py in the regimes M<P, M=P, M>P:
 NF-PROCRUSTES projector mode: coef_ = (U Omega Vt)^T with (U, Vt) the economy SVD
            of the underlying linear fit's coefficients and
            Omega = orthogonal_procrustes(X U, y Vt^T)[0] (source first, target
            second); padded mode: coef_ = orthogonal_procrustes(pad(X), pad(y))[0]^T
            with both padded to max(n_features, n_targets) on the feature axis and
            predict padding new X to the same width (reader/writer agreement of
            max_components_);
 TYPE-ORTH  coef_ is built only from orthogonal factors (Procrustes output, U, Vt of
            an economy SVD): the linear estimator's coefficients enter only
            through that SVD;
 Shape      coef_ (P, M) resp. (max, max); predict (n, P) resp. (n, max); no
            dimension conflict in any regime.
Not decided: optimality against competitor maps (scipy's SVD-based solver is the
trusted base), norm non-expansion numerically.
"""
from .. import protocols
from ..harness import arr, extobj, scalar
from .. import tq
from ..interp import State
from ..terms import T, vconst

FLOOR = 30
CLS = "skmatter.linear_model.OrthogonalRegression"


def check(ctx):
    # positional parameters keep their documented positions (a reordering survives every keyword call)
    from ..sigrules import signatures as _signatures

    _signatures(ctx, "R-SIG", classes=('skmatter.linear_model.OrthogonalRegression',))
    # readers (transform / predict / score ...) leave the fitted state untouched and keep no result buffer on the estimator
    protocols.reader_state_obligations(ctx, "R-STATE", "OrthogonalRegression", ctx.P.cls("skmatter.linear_model.OrthogonalRegression"))
    from ..flagrules import class_flag_equivalence as _cfe
    from ..harness import arr as _arr

    _c = ctx.P.cls("skmatter.linear_model.OrthogonalRegression")
    _cfe(ctx, ctx.normalizer(), "R-FLAG", _c, "use_orthogonal_projector", lambda: {}, [("fit", lambda: (_arr("X", "N", "M"), _arr("y", "N", "P")), lambda: {}), ("predict", lambda: (_arr("Xv", "V", "M"),), lambda: {})], ctx.site(_c.methods["fit"]), interp_kw={"order": [("M", "<", "P")], "assume": protocols.assume_default})
    P = ctx.P
    N = ctx.normalizer()
    cls = P.cls(CLS)
    for regime, order, mx, PP in (("M<P", [("M", "<", "P")], "P", "P"), ("M==P", [], "M", "M"), ("M>P", [("M", ">", "P")], "M", "P")):
        for proj in (True, False):
            cfg = f"projector={proj} {regime}"
            I = ctx.interp(order=order, assume=protocols.assume_default)
            st = State()
            o = ctx.construct(I, st, cls, use_orthogonal_projector=proj)
            X, y = arr("X", "N", "M"), arr("y", "N", PP)
            lo = len(I.events)
            r = ctx.call_method(I, st, o, "fit", X, y)
            site = ctx.site(P.method(cls, "fit"))
            ctx.no_shape_conflicts("Shape", f"fit [{cfg}]", I, lo, site, cfg)
            coef = ctx.attr(st, o, "coef_")
            I2, s2 = ctx.interp(order=order), State()
            if proj:
                fits = [e for e in I.events[lo:] if e["kind"] == "mutate-object" and e["method"] == "fit"]
                ok = len(fits) == 1 and fits[0]["args"][0].term == X.term and fits[0]["args"][1].term == y.term
                ctx.ob("NF-PROCRUSTES", f"the underlying linear estimator is fitted on (X, y) [{cfg}]", ok, f"{[[repr(a.term) for a in e['args']] for e in fits]}", site, cfg)
                lin = [t for t in coef.term.walk() if t.op == "attr" and t.args[1] == "coef_"]
                if ctx.ob("NF-PROCRUSTES", f"linear coefficients located [{cfg}]", len(set(lin)) == 1, f"{len(set(lin))} distinct coef_ reads", site, cfg):
                    from .pcovr_common import farr

                    lc = farr(T("T", lin[0]), "M", PP)
                    ref = ctx.call_func(I2, s2, "ref.ridge_ref.orthogonal_projector_coef", X, y, lc)
                    ctx.compare("NF-PROCRUSTES", f"coef_ = (U procrustes(X U, y Vt^T) Vt)^T [{cfg}]", N, coef, ref, site, cfg)
                    # TYPE-ORTH: the linear coefficients appear only under svd_U / svd_Vt
                    bad = _outside_svd(coef.term, lin[0])
                    ctx.ob("TYPE-ORTH", f"linear coefficients enter coef_ only through the economy SVD factors [{cfg}]", not bad, f"occurrences outside svd_U/svd_Vt: {bad}", site, cfg)
                ctx.shape_is("Shape", f"coef_ is (n_targets, n_features) [{cfg}]", coef, (PP, "M"), site, cfg)
            else:
                from ..harness import integer

                ref = ctx.call_func(I2, s2, "ref.ridge_ref.padded_coef", X, y, integer(mx))
                ctx.compare("NF-PROCRUSTES", f"coef_ = procrustes(pad(X), pad(y))^T, padded to max(M, P) [{cfg}]", N, coef, ref, site, cfg)
                ctx.shape_is("Shape", f"coef_ is (max, max) [{cfg}]", coef, (mx, mx), site, cfg)
                mc = ctx.attr(st, o, "max_components_")
                ctx.ob("Shape", f"max_components_ = max(n_features, n_targets) [{cfg}]", mc is not None and mc.dim is not None and repr(mc.dim) == mx, f"{mc!r}", site, cfg)
            ctx.ob("R-SELF", f"fit returns self [{cfg}]", r.kind == "obj" and r.obj is o.obj, f"{r!r}", site, cfg, nontrivial=False)
            Xv = arr("Xv", "V", "M")
            lo = len(I.events)
            p = ctx.call_method(I, st, o, "predict", Xv)
            site_p = ctx.site(P.method(cls, "predict"))
            ctx.no_shape_conflicts("Shape", f"predict [{cfg}]", I, lo, site_p, cfg)
            if proj:
                ctx.compare("NF-PROCRUSTES", f"predict = X @ coef_^T [{cfg}]", N, p, T("matmul", Xv.term, T("T", coef.term)), site_p, cfg)
                ctx.shape_is("Shape", f"predict is (n, n_targets) [{cfg}]", p, ("V", PP), site_p, cfg)
            else:
                from ..harness import integer

                I3, s3 = ctx.interp(order=order), State()
                ref = ctx.call_func(I3, s3, "ref.ridge_ref.padded_predict", Xv, coef, integer(mx))
                ctx.compare("NF-PROCRUSTES", f"predict pads new X to the fitted width [{cfg}]", N, p, ref, site_p, cfg)
                ctx.shape_is("Shape", f"predict is (n, max) [{cfg}]", p, ("V", mx), site_p, cfg)
    # the mode switched on the same object between two fits: predictions are those of the mode of the last fit
    for first in (False, True):
        for regime, order in (("M<P", [("M", "<", "P")]), ("M>P", [("M", ">", "P")])):
            cfg = f"projector={first} then {not first} {regime}"
            Ih, sh_ = ctx.interp(order=order, assume=protocols.assume_default), State()
            oh = ctx.construct(Ih, sh_, cls, use_orthogonal_projector=first)
            ctx.call_method(Ih, sh_, oh, "fit", arr("X1", "N1", "M"), arr("y1", "N1", "P"))
            sh_.heap[oh.obj.id]["use_orthogonal_projector"] = vconst(not first)
            ctx.call_method(Ih, sh_, oh, "fit", arr("X", "N", "M"), arr("y", "N", "P"))
            lo = len(Ih.events)
            ph = ctx.call_method(Ih, sh_, oh, "predict", arr("Xv", "V", "M"))
            If, sf = ctx.interp(order=order, assume=protocols.assume_default), State()
            of = ctx.construct(If, sf, cls, use_orthogonal_projector=not first)
            ctx.call_method(If, sf, of, "fit", arr("X", "N", "M"), arr("y", "N", "P"))
            pf = ctx.call_method(If, sf, of, "predict", arr("Xv", "V", "M"))
            site_p = ctx.site(P.method(cls, "predict"))
            ctx.no_shape_conflicts("Shape", f"predict after the mode was switched and the object refitted [{cfg}]", Ih, lo, site_p, cfg)
            ctx.compare("NF-PROCRUSTES", f"predict after a refit in the other mode == predict of a fresh object [{cfg}]", N, ph, pf, site_p, cfg)
    # user supplied linear estimator is the one that is fitted and read
    I = ctx.interp(order=[("M", "<", "P")], assume=protocols.assume_default)
    st = State()
    est = extobj("user_linear", "sklearn.linear_model.Ridge")
    o = ctx.construct(I, st, cls, use_orthogonal_projector=True, linear_estimator=est)
    ctx.call_method(I, st, o, "fit", arr("X", "N", "M"), arr("y", "N", "P"))
    fits = [e for e in I.events if e["kind"] == "mutate-object" and e["method"] == "fit" and tq.has_sym(e["target"].term, "user_linear")]
    okf = len(fits) == 1 and not fits[0]["pc"] and fits[0]["args"][0].term.op == "sym" and fits[0]["args"][0].term.args[0] == "X"
    ctx.ob("NF-PROCRUSTES", "a user-supplied linear estimator is (re)fitted on the data of this fit on every path", okf, f"{[(len(e['pc']), [repr(c)[:60] for c, _ in e['pc']]) for e in fits]}", ctx.site(P.method(cls, "fit")))
    coef = ctx.attr(st, o, "coef_")
    ctx.ob("NF-PROCRUSTES", "a user-supplied linear estimator is the one whose coefficients are used", tq.has_sym(coef.term, "user_linear") and not any(x.op == "new" and x.args[0] == "LinearRegression" for x in tq.walk_all(coef.term)), repr(coef.term)[:160], ctx.site(P.method(cls, "fit")))


def _outside_svd(t, leaf):
    """paths from the root to `leaf` that do not pass through an svd_U / svd_Vt node"""
    from ..terms import Term

    bad = []
    stack = [(t, False)]
    seen = set()
    while stack:
        x, under = stack.pop()
        if not isinstance(x, Term):
            if isinstance(x, tuple):
                stack.extend((y, under) for y in x)
            continue
        if (id(x), under) in seen:
            continue
        seen.add((id(x), under))
        if x == leaf and not under:
            bad.append(repr(x)[:60])
            continue
        u = under or x.op in ("svd_U", "svd_Vt")
        stack.extend((a, u) for a in x.args)
    return bad
