"""C19 (static conformance): DirectionalConvexHull selects the lower-hull
vertices and reports signed vertical distances.

Decided from the source against ref/dch_ref.py:
 R-LAYOUT   writer/reader agreement of the hull-space layout: the target occupies
            column 0 at fit, the orientation test reads equations[:, 0], the distance
            divides by equations[:, :1] and uses [:, :-1] / [:, -1:] as normal /
            offset, score_samples stacks (y, X[:, low_dim_idx]) in the same order;
 R-LOWER    retained facets are those with negative target-normal; selected_idx_ =
            unique vertices of the retained facets; the interpolator is built from
            the selected points' low-dimensional coordinates and high-dimensional
            features under one index set;
 NF-VERTICAL _directional_distance = (p.n + b)/n_y (sign included);
 R-SIGNED   a point is below iff some facet offset < -tolerance; otherwise the
            result is the minimum over the facets, below it is the maximum over the
            non-positive offsets; score_feature_matrix = high - interpolated(low);
 Shape      facet axis reduced, one value per sample.
Not decided: hull geometry (scipy/Qhull trusted), general position, the
metamorphic invariances numerically.
"""
import os

from .. import protocols
from ..harness import arr, scalar
from ..interp import State
from ..terms import Dim, T, V, vconst

FLOOR = 40
CLS = "skmatter.sample_selection.DirectionalConvexHull"


def _alts(ctx, names, *args):
    """equivalent spellings of a reference function (ref/dch_ref.py), each confirmed by hand"""
    out = []
    for nm in names:
        try:
            Ia, sa_ = ctx.interp(), State()
            out.append(ctx.call_func(Ia, sa_, f"ref.dch_ref.{nm}", *args))
        except Exception:
            pass
    return out


def check(ctx):
    # positional parameters keep their documented positions (a reordering survives every keyword call)
    from ..sigrules import signatures as _signatures

    _signatures(ctx, "R-SIG", classes=('skmatter.sample_selection.DirectionalConvexHull',))
    # scoring leaves the fitted hull as it is and hands out fresh arrays (no result buffer kept on the estimator)
    protocols.reader_state_obligations(ctx, "R-STATE", "sample.DirectionalConvexHull", ctx.P.cls("skmatter.sample_selection.DirectionalConvexHull"))
    P = ctx.P
    N = ctx.normalizer()
    cls = P.cls(CLS)
    # ---- _directional_distance ------------------------------------------------------
    f = P.func("skmatter.sample_selection._base._directional_distance")
    eq, pts = arr("eq", "F", Dim.of("d") + 1, inp=False), arr("pts", "V", "d", inp=False)
    I, st = ctx.interp(), State()
    r = ctx.call_func(I, st, f, eq, pts)
    I2, s2 = ctx.interp(), State()
    ref = ctx.call_func(I2, s2, "ref.dch_ref.vertical_distance", eq, pts)
    ctx.compare("NF-VERTICAL", "_directional_distance = (p.n + b) / n_y", N, r, ref, ctx.site(f), alternatives=_alts(ctx, ("vertical_distance_plane_value", "vertical_distance_homogeneous"), eq, pts))
    ctx.shape_is("Shape", "_directional_distance is (points, facets)", r, ("V", "F"), ctx.site(f))
    # ---- hull distance ----------------------------------------------------------------------
    I, st = ctx.interp(), State()
    tol = scalar("tol", 0, None)
    o = ctx.bare_object(I, st, cls, {"_directional_equations_": eq, "tolerance": tol})
    r = ctx.call_method(I, st, o, "_directional_convex_hull_distance", pts)
    I2, s2 = ctx.interp(), State()
    ref = ctx.call_func(I2, s2, "ref.dch_ref.hull_distance", eq, pts, tol)
    site = ctx.site(P.method(cls, "_directional_convex_hull_distance"))
    ctx.compare("R-SIGNED", "hull distance: min over facets on/above, max of the non-positive offsets below", N, r, ref, site, alternatives=_alts(ctx, ("hull_distance_plane_value", "hull_distance_homogeneous", "hull_distance_pointwise"), eq, pts, tol))
    ctx.no_shape_conflicts("Shape", "_directional_convex_hull_distance", I, 0, site)
    ctx.shape_is("Shape", "one distance per point", r, ("V",), site)
    # ---- fit --------------------------------------------------------------------------------------------
    # widths: any number of columns, and exactly one high-dimensional column besides the hull columns
    for low, refit, width in (([0, 1], False, "M"), ([2], False, "M"), ([0, 1], True, "M"), ([2], True, "M"), ([0, 1], False, 3), ([0], False, 2)):
        I, st = ctx.interp(assume=protocols.assume_default), State()
        o = ctx.construct(I, st, cls, low_dim_idx=low)
        X, y = arr("X", "N", width), arr("y", "N")
        if refit:
            # the same object fitted before on other data (other numbers of samples and columns):
            # everything a fit defines is rebuilt from the new data
            ctx.call_method(I, st, o, "fit", arr("X0", "N0", "M0"), arr("y0", "N0"))
        lo = len(I.events)
        r = ctx.call_method(I, st, o, "fit", X, y)
        site = ctx.site(P.method(cls, "fit"))
        cfg = f"low_dim_idx={low}" + (",refit" if refit else "") + (f",{width} columns" if width != "M" else "")
        I2, s2 = ctx.interp(assume=protocols.assume_default), State()
        lowv = I2.mk_list([vconst(i) for i in low])
        ref = ctx.call_func(I2, s2, "ref.dch_ref.dch_fit", X, arr("y", "N", 1), lowv)
        names = ("high_dim_idx_", "_directional_equations_", "selected_idx_", "_directional_points_")
        rules = ("R-LAYOUT", "R-LOWER", "R-LOWER", "R-LAYOUT")
        for a, rv, rule in zip(names, ref.items[:4], rules):
            ctx.compare(rule, f"fit: {a} [{cfg}]", N, ctx.attr(st, o, a), rv, site, cfg)
        news = [e for e in I.events[lo:] if e["kind"] == "ext-new" and (e["cls"].endswith("interp1d") or e["cls"].endswith("LinearNDInterpolator"))]
        if ctx.ob("R-LOWER", f"fit builds one interpolator [{cfg}]", len(news) == 1, f"{[e['cls'] for e in news]}", site, cfg):
            want_cls = "interp1d" if len(low) == 1 else "LinearNDInterpolator"
            ctx.ob("R-LOWER", f"a {'one' if len(low) == 1 else 'multi'}-dimensional hull is interpolated with {want_cls} [{cfg}]", news[0]["cls"].endswith(want_cls), f"built {news[0]['cls']}", site, cfg)
            if len(low) == 1:
                kwv = news[0]["kwargs"]
                axv, knd = kwv.get("axis"), kwv.get("kind")
                ctx.ob("R-LOWER", f"1-D interpolation is linear along the sample axis [{cfg}]", (axv is None or (axv.has_const and axv.const == 0)) and (knd is None or (knd.has_const and knd.const == "linear")), f"axis={None if axv is None else axv.term!r} kind={None if knd is None else knd.term!r}", site, cfg)
            a_ = news[0]["args"]
            kw = news[0]["kwargs"]
            ptsv = kw.get("points") or (a_[0] if a_ else None)
            valv = kw.get("values") or (a_[1] if len(a_) > 1 else None)
            def contains(big, small):
                nfs = N.nf(small)
                return any(x.op in (small.op, "getitem", "reshape1", "reshape") and N.nf(x) == nfs for x in big.walk())

            # 1-D hulls: the same argsort permutation is applied to coordinates and values
            okp = ptsv is not None and contains(ptsv.term, ref.items[4].term)
            okv = valv is not None and contains(valv.term, ref.items[5].term)
            if okp and okv and N.nf(ptsv.term) != N.nf(ref.items[4].term):
                perm_p = [x for x in ptsv.term.walk() if x.op == "argsort"]
                perm_v = [x for x in valv.term.walk() if x.op == "argsort"]
                okv = bool(perm_p) and set(perm_p) == set(perm_v)
            if os.environ.get("VERIF_DEBUG_TERMS") and not (okp and okv):
                from ..nf import show_poly as _sp

                print("DEBUG C19 points:", _sp(N.nf(ptsv.term))[:500], "\n  ref:", _sp(N.nf(ref.items[4].term))[:500], "\n values:", _sp(N.nf(valv.term))[:400], "\n  ref:", _sp(N.nf(ref.items[5].term))[:400])
            ctx.ob("R-LOWER", f"interpolator: low-dim coordinates and high-dim features of the selected points, one index set [{cfg}]", okp and okv, f"points {None if ptsv is None else repr(ptsv.term)[:120]}; values {None if valv is None else repr(valv.term)[:120]}", site, cfg)
        ctx.no_shape_conflicts("Shape", f"fit [{cfg}]", I, lo, site, cfg)
        ctx.ob("R-SELF", f"fit returns self [{cfg}]", r.kind == "obj" and r.obj is o.obj, f"{r!r}", site, cfg, nontrivial=False)
        # ---- score_samples ------------------------------------------------------------------------------
        Xq, yq = arr("Xq", "V", width), arr("yq", "V")
        eqs = ctx.attr(st, o, "_directional_equations_")
        tolv = ctx.attr(st, o, "tolerance")
        lo = len(I.events)
        r = ctx.call_method(I, st, o, "score_samples", Xq, yq)
        I2, s2 = ctx.interp(), State()
        ref = ctx.call_func(I2, s2, "ref.dch_ref.dch_score_samples", Xq, yq, I2.mk_list([vconst(i) for i in low]), eqs, tolv)
        site_s = ctx.site(P.method(cls, "score_samples"))
        ctx.compare("R-LAYOUT", f"score_samples stacks (y, low-dim features) in the fitted order and returns the hull distance [{cfg}]", N, r, ref, site_s, cfg, alternatives=_alts(ctx, ("dch_score_samples_plane_value", "dch_score_samples_homogeneous", "dch_score_samples_pointwise"), Xq, yq, I2.mk_list([vconst(i) for i in low]), eqs, tolv))
        ctx.no_shape_conflicts("Shape", f"score_samples [{cfg}]", I, lo, site_s, cfg)
        ctx.shape_is("Shape", f"score_samples: one value per sample [{cfg}]", r, ("V",), site_s, cfg)
        # ---- score_feature_matrix -------------------------------------------------------------------------
        lo = len(I.events)
        r = ctx.call_method(I, st, o, "score_feature_matrix", arr("Xq2", "V", width))
        site_f = ctx.site(P.method(cls, "score_feature_matrix"))
        t = r.term
        hd = ctx.attr(st, o, "high_dim_idx_")
        ok = t.op == "sub" and N.nf(t.args[0]) == N.nf(T("getitem", T("sym", "Xq2"), T("tuple", T("slice", T("const", None), T("const", None), T("const", None)), hd.term))) and t.args[1].op == "apply" and "Xq2" in repr(t.args[1])
        ctx.ob("R-SIGNED", f"score_feature_matrix = high-dim features - interpolated(low-dim features) [{cfg}]", ok, repr(t)[:200], site_f, cfg)
        ctx.no_shape_conflicts("Shape", f"score_feature_matrix [{cfg}]", I, lo, site_f, cfg)
        ctx.shape_is("Shape", f"score_feature_matrix: one residual per sample and high-dimensional column [{cfg}]", r, ("V", Dim.of(width) - len(low)), site_f, cfg)
