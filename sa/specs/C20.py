"""C20 (static conformance): prediction rigidities follow their closed form.

Decided from the source against ref/rigidity_ref.py (loops summarised as terms):
 NF-PR     sfactor = sqrt(sum_f mean_atoms(x_f^2)); structure rows = mean over the
           atoms of X_i / sfactor; A = X_struc^T X_struc + alpha I; LPR = 1/(x A^+ x^T)
           with x = X_test[a]/sfactor; LCPR with x masked to one component block;
           CPR with the structure-mean row masked; rank_diff = dim - rank(A); both
           functions share the preamble (sibling agreement through the reference);
 R-SPLIT   outputs are cut at consecutive entries of cumsum([0] + lens) in input
           order; component masks are the half-open intervals of
           cumsum([0] + comp_dims) (>= lo, < hi), one per component;
 R-SCALEONCE every test row and every row entering A is divided by sfactor exactly
           once (degree 0 under a common rescaling of all features);
 Shape     LCPR (atoms, components), CPR (structures, components).
Not decided: positivity / monotonicity in alpha numerically (follow from A > 0).
"""
from ..harness import arr, scalar
from .. import tq
from ..interp import State
from ..terms import Dim, T, V

FLOOR = 10


def _lists():
    from ..apitable import ragged

    from .. import terms as _terms

    _terms.INPUT_SYMS.update({"X_train", "X_test"})
    # ragged structure lists: every structure has its own number of environments
    Xtr = V("list", T("sym", "X_train"), orig=frozenset([("in", "X_train")]), extra=("comp", None, (Dim.of("St"), ragged("a"), Dim.of("F"))))
    Xte = V("list", T("sym", "X_test"), orig=frozenset([("in", "X_test")]), extra=("comp", None, (Dim.of("Sv"), ragged("b"), Dim.of("F"))))
    return Xtr, Xte


def check(ctx):
    # positional parameters keep their documented positions (a reordering survives every keyword call)
    from ..sigrules import signatures as _signatures

    _signatures(ctx, "R-SIG", functions=('skmatter.metrics.local_prediction_rigidity', 'skmatter.metrics.componentwise_prediction_rigidity'))
    P = ctx.P
    N = ctx.normalizer()
    alpha = scalar("alpha", 0, None)
    # ---- LPR --------------------------------------------------------------------------
    f = P.func("skmatter.metrics.local_prediction_rigidity")
    Xtr, Xte = _lists()
    I, st = ctx.interp(), State()
    r = ctx.call_func(I, st, f, Xtr, Xte, alpha)
    I2, s2 = ctx.interp(), State()
    ref = ctx.call_func(I2, s2, "ref.rigidity_ref.lpr", Xtr, Xte, alpha)
    site = ctx.site(f)
    if ctx.ob("NF-PR", "local_prediction_rigidity returns (LPR, rank_diff)", r.items is not None and len(r.items) == 2, f"{r!r}"[:100], site):
        ctx.compare("NF-PR", "LPR = 1/(x A^+ x^T) per environment, split per test structure in input order", N, r.items[0], ref.items[0], site)
        ctx.compare("NF-PR", "LPR rank_diff = feature dimension - rank(A)", N, r.items[1], ref.items[1], site)
        _scale_once(ctx, r.items[0].term, "local_prediction_rigidity", site)
    ctx.no_shape_conflicts("Shape", "local_prediction_rigidity", I, 0, site)
    bad = [e for e in I.events if e["kind"] == "mutate" and any(o_[0] == "in" for o_ in e["target"].orig)]
    ctx.ob("R-PURE", "local_prediction_rigidity leaves the caller's lists untouched", not bad, f"{[e['src'] for e in bad]}", site, nontrivial=False)
    # ---- CPR / LCPR ------------------------------------------------------------------------
    f = P.func("skmatter.metrics.componentwise_prediction_rigidity")
    Xtr, Xte = _lists()
    cd = arr("comp_dims", "Cn", dtype="int")

    def dims_total(interp, qual, args, kw, st_, node):
        # documented precondition: the component dimensions partition the feature axis
        if qual == "numpy.sum" and len(args) == 1 and not kw and args[0].term == cd.term:
            from ..apitable import int_of_dim

            v = int_of_dim(Dim.of("F"))
            return v.replace(term=T("sum", cd.term))
        return None

    I, st = ctx.interp(call_hook=dims_total), State()
    r = ctx.call_func(I, st, f, Xtr, Xte, alpha, cd)
    I2, s2 = ctx.interp(call_hook=dims_total), State()
    ref = ctx.call_func(I2, s2, "ref.rigidity_ref.cpr", Xtr, Xte, alpha, cd)
    site = ctx.site(f)
    if ctx.ob("NF-PR", "componentwise_prediction_rigidity returns (CPR, LCPR, rank_diff)", r.items is not None and len(r.items) == 3, f"{r!r}"[:100], site):
        ctx.compare("NF-PR", "CPR = 1/(x_c A^+ x_c^T) with the structure-mean row masked to component c", N, r.items[0], ref.items[0], site)
        ctx.compare("NF-PR", "LCPR = 1/(x_c A^+ x_c^T) per environment and component, split per structure", N, r.items[1], ref.items[1], site)
        ctx.compare("NF-PR", "CPR rank_diff = feature dimension - rank(A)", N, r.items[2], ref.items[2], site)
        ctx.shape_is("Shape", "CPR is (structures, components)", r.items[0], ("Sv", "Cn"), site)
        _scale_once(ctx, r.items[0].term, "componentwise_prediction_rigidity (CPR)", site)
        _scale_once(ctx, r.items[1].term, "componentwise_prediction_rigidity (LCPR)", site)
        # R-SPLIT: mask comparisons
        ops = sorted({(c[0]) for x in tq.walk_all(r.items[0].term) for c in [tq.cmp_parts(x)] if c is not None and x.op in ("lt", "le", "gt", "ge") and any(y.op == "cumsum" for y in tq.walk_all(x))})
        lo_ok = any(c is not None and c[0] == "le" and tq.has_op(c[1], "cumsum") for x in tq.walk_all(r.items[0].term) for c in [tq.cmp_parts(x)])
        hi_ok = any(c is not None and c[0] == "lt" and tq.has_op(c[2], "cumsum") for x in tq.walk_all(r.items[0].term) for c in [tq.cmp_parts(x)])
        ctx.ob("R-SPLIT", "component masks are half-open intervals (>= lower cut, < upper cut)", lo_ok and hi_ok and ops == ["le", "lt"], f"comparison kinds against the cumulative cuts: {ops}", site)
    ctx.no_shape_conflicts("Shape", "componentwise_prediction_rigidity", I, 0, site)


def _scale_once(ctx, term, name, site):
    """degree under a common rescaling of all features: every data factor (X_train /
    X_test occurrence) entering the value is divided by sfactor exactly once"""
    from ..terms import Term

    def degree(t, memo):
        # returns the homogeneity degree in the features, or None if not homogeneous
        if not isinstance(t, Term):
            return 0
        if id(t) in memo:
            return memo[id(t)]
        memo[id(t)] = 0
        op, a = t.op, t.args
        d = None
        if op == "sym":
            d = 1 if a[0] in ("X_train", "X_test") else 0
        elif op in ("const", "dim", "lv", "range", "shape", "len"):
            d = 0
        elif op in ("add", "sub", "phi"):
            ds = [degree(x, memo) for x in (a if op != "phi" else a[1:])]
            ds = [x for x in ds if x is not None]
            d = ds[0] if ds and all(x == ds[0] for x in ds) else (None if ds else 0)
            if op in ("add", "sub") and ds and not all(x == ds[0] for x in ds):
                # alpha * I has degree 0 and is added to a degree-0 covariance: mismatch means not homogeneous
                d = None
        elif op in ("mul", "matmul", "smul"):
            x, y = degree(a[0], memo), degree(a[1], memo)
            d = None if x is None or y is None else x + y
        elif op in ("div", "sdiv"):
            x, y = degree(a[0], memo), degree(a[1], memo)
            d = None if x is None or y is None else x - y
        elif op == "pow":
            x = degree(a[0], memo)
            e = a[1].args[0] if isinstance(a[1], Term) and a[1].op == "const" else None
            d = None if x is None or e is None else x * e
        elif op == "sqrt":
            x = degree(a[0], memo)
            d = None if x is None else x / 2
        elif op == "pinv":
            x = degree(a[0], memo)
            d = None if x is None else -x
        elif op in ("T", "getitem", "reshape", "reshape1", "mean", "sum", "stack", "neg", "astype", "append", "head", "dg", "elem", "blocks", "diagof", "trace"):
            xs = [degree(x, memo) for x in a if isinstance(x, Term) and x.op not in ("const", "dim", "lv", "slice", "tuple", "range")]
            xs = [x for x in xs if x is not None]
            d = max(xs) if xs else 0
            if op == "append" and xs:
                d = xs[-1] if len(set(xs)) > 1 and xs[0] == 0 else max(xs)
        elif op == "loop":
            # (id, iter, init, body): degree of the body value
            d = degree(a[3], memo)
        elif op == "store":
            xs = [degree(a[0], memo), degree(a[2], memo)]
            xs = [x for x in xs if x is not None]
            d = max(xs, key=abs) if xs else 0
        else:
            xs = [degree(x, memo) for x in a if isinstance(x, Term)]
            d = 0 if all(x == 0 for x in xs) else None
        memo[id(t)] = d
        return d

    d = degree(term, {})
    ctx.ob("R-SCALEONCE", f"{name}: homogeneous of degree 0 under a common rescaling of all features", d == 0, f"degree = {d}", site)
