"""Shared obligations of the PCovR family (C03, C04, C14)."""
from fractions import Fraction

from .. import protocols
from ..harness import arr, extobj, index, integer, scalar
from ..interp import State
from ..terms import FRESH, Dim, T, Term, V, fresh_id, vconst

PCOVR = "skmatter.decomposition.PCovR"


def farr(term, *dims):
    return V("arr", term, shape=tuple(Dim.of(d) for d in dims), orig=frozenset([FRESH]), loc=fresh_id())


def mixings():
    return [("0<a<1", scalar("alpha", 0, 1, True, True)), ("a=0", vconst(0.0)), ("a=1", vconst(1.0))]


def gram_cov(ctx, N, rule):
    """pcovr_kernel / pcovr_covariance equal the documented modified Gram matrix /
    covariance for every mixing regime (the guards drop exactly the vanishing term)"""
    P = ctx.P
    X, Y = arr("X", "N", "M"), arr("Yhat", "N", "P")
    fk, fc = P.func("skmatter.utils.pcovr_kernel"), P.func("skmatter.utils.pcovr_covariance")
    for name, mix in mixings():
        I, st = ctx.interp(), State()
        r = ctx.call_func(I, st, fk, mix, X, Y)
        I2, s2 = ctx.interp(), State()
        ref = ctx.call_func(I2, s2, "ref.pcovr_ref.modified_gram", mix, X, Y)
        ctx.compare(rule, f"pcovr_kernel = a X X^T + (1-a) Y Y^T [{name}]", N, r, ref, ctx.site(fk), name)
        ctx.no_shape_conflicts("Shape", f"pcovr_kernel [{name}]", I, 0, ctx.site(fk), name)
        ctx.shape_is("Shape", f"pcovr_kernel is (n_samples, n_samples) [{name}]", r, ("N", "N"), ctx.site(fk), name)
        K = arr("K", "N", "N")
        I, st = ctx.interp(), State()
        r = ctx.call_func(I, st, fk, mix, K, Y, kernel="precomputed")
        I2, s2 = ctx.interp(), State()
        ref = ctx.call_func(I2, s2, "ref.pcovr_ref.modified_gram_precomputed", mix, K, Y)
        ctx.compare(rule, f"pcovr_kernel(precomputed) = a K + (1-a) Y Y^T [{name}]", N, r, ref, ctx.site(fk), name)
        rc = scalar("rcond")
        I, st = ctx.interp(), State()
        r = ctx.call_func(I, st, fc, mix, X, Y, rcond=rc)
        I2, s2 = ctx.interp(), State()
        ref = ctx.call_func(I2, s2, "ref.pcovr_ref.modified_covariance", mix, X, Y, rc)
        ctx.compare(rule, f"pcovr_covariance = a X^T X + (1-a) C^-1/2 X^T Y Y^T X C^-1/2 [{name}]", N, r, ref, ctx.site(fc), name)
        ctx.no_shape_conflicts("Shape", f"pcovr_covariance [{name}]", I, 0, ctx.site(fc), name)
        ctx.shape_is("Shape", f"pcovr_covariance is (n_features, n_features) [{name}]", r, ("M", "M"), ctx.site(fc), name)
        I, st = ctx.interp(), State()
        r = ctx.call_func(I, st, fc, mix, X, Y, rcond=rc, return_isqrt=True)
        I2, s2 = ctx.interp(), State()
        ref = ctx.call_func(I2, s2, "ref.pcovr_ref.inverse_sqrt_covariance", X, rc)
        ok = r.items is not None and len(r.items) == 2
        if ctx.ob(rule, f"pcovr_covariance(return_isqrt) returns (C~, C^-1/2) [{name}]", ok, f"{r!r}", ctx.site(fc), name):
            ctx.compare(rule, f"returned C^-1/2 is the eigen inverse square root of X^T X [{name}]", N, r.items[1], ref, ctx.site(fc), name)
        # low-rank route (rank < min(n, m)): randomized SVD of X, eigenvalue = s^2 compared with rcond
        rk, itp, rs = integer("R"), integer("IT"), scalar("seed")
        I, st = ctx.interp(order=[("R", "<", "N"), ("R", "<", "M")]), State()
        r = ctx.call_func(I, st, fc, mix, X, Y, rcond=rc, return_isqrt=True, rank=rk, iterated_power=itp, random_state=rs)
        I2, s2 = ctx.interp(order=[("R", "<", "N"), ("R", "<", "M")]), State()
        ref = ctx.call_func(I2, s2, "ref.pcovr_ref.inverse_sqrt_covariance_lowrank", X, rc, rk, itp, rs)
        if r.items is not None and len(r.items) == 2:
            ctx.compare(rule, f"low-rank C^-1/2 (rank < min(n, m)) from the randomized SVD of X [{name}]", N, r.items[1], ref, ctx.site(fc), name)
            ctx.no_shape_conflicts("Shape", f"pcovr_covariance low-rank [{name}]", I, 0, ctx.site(fc), name)


def decomposition_stubs(record, K="K"):
    """uninterpreted decomposition and modified-matrix builders; records their arguments"""

    def dec(kind):
        def f(interp, clo, args, kw, st, node):
            mat = args[0]
            record.append((kind, mat))
            n = mat.shape[0] if mat.shape else Dim.unknown("n")
            return interp.mk_tuple([farr(T("DEC_U", mat.term), n, K), farr(T("DEC_S", mat.term), K), farr(T("DEC_Vt", mat.term), K, n)])

        return f

    def cov(interp, clo, args, kw, st, node):
        from ..api_numpy import bind

        b = bind(["mixing", "X", "Y", "rcond", "return_isqrt"], args, kw)
        record.append(("pcovr_covariance", b))
        m = b["X"].shape[1]
        Ct = farr(T("CT", b["mixing"].term, b["X"].term, b["Y"].term), m, m)
        if b.get("return_isqrt") is not None and b["return_isqrt"].has_const and b["return_isqrt"].const:
            return interp.mk_tuple([Ct, farr(T("ICSQRT", b["X"].term), m, m)])
        return Ct

    def ker(interp, clo, args, kw, st, node):
        from ..api_numpy import bind

        b = bind(["mixing", "X", "Y"], args, kw)
        record.append(("pcovr_kernel", b))
        n = b["X"].shape[0]
        return farr(T("KT", b["mixing"].term, b["X"].term, b["Y"].term), n, n)

    return {"PCovR._decompose_full": dec("full"), "PCovR._decompose_truncated": dec("truncated"), "KernelPCovR._decompose_full": dec("full"), "KernelPCovR._decompose_truncated": dec("truncated"), "pcovr_covariance": cov, "pcovr_kernel": ker}


def projectors(ctx, N, rule):
    P = ctx.P
    cls = P.cls(PCOVR)
    X, Y, Yhat, W = arr("X", "N", "M"), arr("Y", "N", "P"), farr(T("sym", "Yhat"), "N", "P"), farr(T("sym", "W"), "M", "P")
    for solver in ("full", "arpack"):
        for name, mix in mixings():
            tol = scalar("tol", 0, None)
            # ---- feature space
            rec = []
            I, st = ctx.interp(stubs=decomposition_stubs(rec), assume=protocols.assume_default), State()
            o = ctx.bare_object(I, st, cls, {"mixing": mix, "tol": tol, "fit_svd_solver_": solver, "n_components_": integer("K"), "n_samples_in_": integer("N"), "n_features_in_": integer("M")})
            ctx.call_method(I, st, o, "_fit_feature_space", X, Y, Yhat)
            site = ctx.site(P.method(cls, "_fit_feature_space"))
            cfg = f"feature {solver} {name}"
            covs = [b for k, b in rec if k == "pcovr_covariance"]
            decs = [m for k, m in rec if k in ("full", "truncated")]
            ok = len(covs) == 1 and covs[0]["mixing"].term == mix.term and covs[0]["X"].term == X.term and covs[0]["Y"].term == Yhat.term and covs[0]["rcond"] is not None and covs[0]["rcond"].term == tol.term and (covs[0].get("rank") is None or covs[0]["rank"].kind == "none")
            ctx.ob(rule, f"feature space diagonalises pcovr_covariance(mixing, X, Yhat, rcond=tol) built from the full spectrum of X^T X (no rank truncation) [{solver},{name}]", ok, f"{[(k, {kk: repr(v.term) for kk, v in b.items() if v is not None}) for k, b in rec if k == 'pcovr_covariance']}", site, cfg)
            ctx.ob(rule, f"feature space decomposes exactly the modified covariance with the {solver} solver [{name}]", len(decs) == 1 and decs[0].term.op == "CT" and rec[-1][0] == ("full" if solver == "full" else "truncated"), f"{[(k, repr(m.term)[:80]) for k, m in rec if k in ('full', 'truncated')]}", site, cfg)
            if decs:
                mat = decs[0]
                S, Vt = farr(T("DEC_S", mat.term), "K"), farr(T("DEC_Vt", mat.term), "K", "M")
                iC = farr(T("ICSQRT", X.term), "M", "M")
                I2, s2 = ctx.interp(), State()
                ref = ctx.call_func(I2, s2, "ref.pcovr_ref.feature_space_projectors", X, Y, S, Vt, iC, tol)
                for a, rv in zip(("pxt_", "ptx_", "pty_"), ref.items):
                    ctx.compare(rule, f"feature space {a} [{solver},{name}]", N, ctx.attr(st, o, a), rv, site, cfg)
                I2, s2 = ctx.interp(), State()
                ref = ctx.call_func(I2, s2, "ref.pcovr_ref.spectrum_attributes", S, integer("N"))
                for a, rv in zip(("singular_values_", "explained_variance_", "explained_variance_ratio_"), ref.items):
                    ctx.compare("R-SPECTRUM", f"feature space {a} from the retained spectrum [{solver},{name}]", N, ctx.attr(st, o, a), rv, site, cfg)
            ctx.no_shape_conflicts("Shape", f"_fit_feature_space [{solver},{name}]", I, 0, site, cfg)
            _args_untouched(ctx, rule, I, (X, Y, Yhat), f"_fit_feature_space [{solver},{name}]", site, cfg)
            # ---- sample space
            rec = []
            I, st = ctx.interp(stubs=decomposition_stubs(rec), assume=protocols.assume_default), State()
            o = ctx.bare_object(I, st, cls, {"mixing": mix, "tol": tol, "fit_svd_solver_": solver, "n_components_": integer("K"), "n_samples_in_": integer("N"), "n_features_in_": integer("M")})
            ctx.call_method(I, st, o, "_fit_sample_space", X, Y, Yhat, W)
            site = ctx.site(P.method(cls, "_fit_sample_space"))
            cfg = f"sample {solver} {name}"
            kers = [b for k, b in rec if k == "pcovr_kernel"]
            decs = [m for k, m in rec if k in ("full", "truncated")]
            ok = len(kers) == 1 and kers[0]["mixing"].term == mix.term and kers[0]["X"].term == X.term and kers[0]["Y"].term == Yhat.term
            ctx.ob(rule, f"sample space diagonalises pcovr_kernel(mixing, X, Yhat) [{solver},{name}]", ok, f"{[{kk: repr(v.term) for kk, v in b.items() if v is not None} for b in kers]}", site, cfg)
            ctx.ob(rule, f"sample space decomposes exactly the modified Gram matrix with the {solver} solver [{name}]", len(decs) == 1 and decs[0].term.op == "KT" and rec[-1][0] == ("full" if solver == "full" else "truncated"), f"{[(k, repr(m.term)[:80]) for k, m in rec if k in ('full', 'truncated')]}", site, cfg)
            if decs:
                mat = decs[0]
                S, Vt = farr(T("DEC_S", mat.term), "K"), farr(T("DEC_Vt", mat.term), "K", "N")
                I2, s2 = ctx.interp(), State()
                ref = ctx.call_func(I2, s2, "ref.pcovr_ref.sample_space_projectors", X, Y, Yhat, W, S, Vt, mix, tol)
                for a, rv in zip(("pxt_", "ptx_", "pty_"), ref.items):
                    ctx.compare(rule, f"sample space {a} [{solver},{name}]", N, ctx.attr(st, o, a), rv, site, cfg)
                I2, s2 = ctx.interp(), State()
                ref = ctx.call_func(I2, s2, "ref.pcovr_ref.spectrum_attributes", S, integer("N"))
                for a, rv in zip(("singular_values_", "explained_variance_", "explained_variance_ratio_"), ref.items):
                    ctx.compare("R-SPECTRUM", f"sample space {a} from the retained spectrum [{solver},{name}]", N, ctx.attr(st, o, a), rv, site, cfg)
            ctx.no_shape_conflicts("Shape", f"_fit_sample_space [{solver},{name}]", I, 0, site, cfg)
            _args_untouched(ctx, rule, I, (X, Y, Yhat, W), f"_fit_sample_space [{solver},{name}]", site, cfg)


def _args_untouched(ctx, rule, I, args, what, site, cfg):
    """the arguments of a route are the caller's arrays (or views of them: a precomputed W, the regressor's coefficients):
    every later fit and the other route read them again, so the route may not write into them"""
    locs = {a.loc for a in args if getattr(a, "loc", None) is not None}
    terms = {a.term for a in args}
    bad = [e for e in I.events if e["kind"] == "mutate" and (getattr(e["target"], "loc", None) in locs or e["target"].term in terms)]
    ctx.ob(rule, f"{what} leaves its arguments unchanged", not bad, f"in-place writes: {[e.get('src') for e in bad][:3]}" if bad else "no in-place write on an argument", site, cfg, nontrivial=False)


def spectrum(ctx, N, cls_qual=PCOVR, label="PCovR"):
    """the retained triple is the leading k of one consistently ordered decomposition"""
    P = ctx.P
    cls = P.cls(cls_qual)
    mat = arr("mat", "n", "n", inp=False)
    base = {"n_samples_in_": integer("N"), "n_features_in_": integer("M"), "n_components_": integer("K"), "svd_solver": "full", "tol": scalar("tol", 0, None), "random_state": scalar("seed"), "iterated_power": "auto"}
    I, st = ctx.interp(order=[("K", "<=", "N"), ("K", "<=", "M"), ("K", ">=", 1), ("K", "<=", "n")], assume=_assume_int), State()
    o = ctx.bare_object(I, st, cls, dict(base))
    r = ctx.call_method(I, st, o, "_decompose_full", mat)
    site = ctx.site(P.method(cls, "_decompose_full"))
    if ctx.ob("R-SPECTRUM", f"{label}._decompose_full returns a triple", r.items is not None and len(r.items) == 3, f"{r!r}", site):
        if label == "PCovR":
            I2, s2 = ctx.interp(), State()
            ref = ctx.call_func(I2, s2, "ref.pcovr_ref.leading_components", mat, integer("K"))
            for nm, a, b in zip(("U", "S", "Vt"), r.items, ref.items):
                ctx.compare("R-SPECTRUM", f"{label}._decompose_full: {nm} = leading k of the sign-fixed economy SVD", N, a, b, site)
        else:
            I2, s2 = ctx.interp(), State()
            ref = ctx.call_func(I2, s2, "ref.pcovr_ref.kernel_leading_components", mat, integer("K"), base["tol"])
            for nm, a, b in zip(("U", "S", "Vt"), r.items, ref.items):
                ctx.compare("R-SPECTRUM", f"{label}._decompose_full: {nm} = leading k of the SVD with sub-tolerance triplets zeroed, signs fixed", N, a, b, site)
        for nm, a, dims in zip(("U", "S", "Vt"), r.items, (("n", "K"), ("K",), ("K", "n"))):
            ctx.shape_is("Shape", f"{label}._decompose_full: shape of {nm}", a, dims, site)
        # R-NESTED: the decomposed matrix and the SVD do not depend on k; k only slices
        # (syntactically, or by being equal to the reference triple, in which k only truncates)
        bad = [nm for nm, a, b in zip(("U", "S", "Vt"), r.items, ref.items) if not (_k_only_in_outer_slice(a.term) or (_k_only_in_outer_slice(b.term) and N.nf(a.term) == N.nf(b.term)))]
        ctx.ob("R-NESTED", f"{label}._decompose_full: n_components_ enters only through the final prefix slice", not bad, f"components whose value depends on k other than by truncation: {bad}", site)
    # a fractional request: the same rule in both classes (variance fraction of the eigenvalues)
    frac = scalar("fraction", 0, 1)
    I, st = ctx.interp(assume=_assume_int), State()
    o = ctx.bare_object(I, st, cls, dict(base, n_components_=frac))
    ctx.call_method(I, st, o, "_decompose_full", mat)
    I2, s2 = ctx.interp(), State()
    if label == "PCovR":
        ref = ctx.call_func(I2, s2, "ref.pcovr_ref.resolved_components", mat, frac)
    else:
        ref = ctx.call_func(I2, s2, "ref.pcovr_ref.kernel_resolved_components", mat, frac, base["tol"])
    ctx.compare("R-SPECTRUM", f"{label}._decompose_full: a fractional n_components keeps the leading eigenvalues carrying that fraction of their sum", N, ctx.attr(st, o, "n_components_"), ref, site)
    if label == "PCovR":
        # n_components='mle': Minka's estimate from the eigenvalues S / (n_samples - 1) and the number of SAMPLES
        seen = []

        def hook(interp, qual, args, kw, st_, node):
            if qual.endswith("_infer_dimension"):
                seen.append(list(args) + [kw.get(k_) for k_ in ("spectrum", "n_samples") if kw.get(k_) is not None])
            return None

        I, st = ctx.interp(assume=_assume_int, order=[("M", "<=", "N")], call_hook=hook), State()
        o = ctx.bare_object(I, st, cls, dict(base, n_components_="mle"))
        ctx.call_method(I, st, o, "_decompose_full", mat)
        from ..terms import T as _T

        want_ev = _T("sdiv", _T("svd_S", mat.term), _T("sub", base["n_samples_in_"].term, _T("const", __import__("fractions").Fraction(1))))
        ok = len(seen) == 1 and len(seen[0]) == 2 and N.nf(seen[0][1].term) == N.nf(base["n_samples_in_"].term) and N.nf(seen[0][0].term) == N.nf(want_ev)
        ctx.ob("R-SPECTRUM", f"{label}._decompose_full: 'mle' infers the dimension from the eigenvalues S/(n_samples-1) and the number of samples", ok, f"_infer_dimension called with {[[repr(a_.term)[:80] for a_ in c_] for c_ in seen]}", site, "n_components=mle")
    # truncated solvers
    for solver in ("arpack", "randomized"):
        I, st = ctx.interp(order=[("K", "<", "N"), ("K", "<", "M"), ("K", ">=", 1)], assume=_assume_int), State()
        b2 = dict(base)
        b2.update({"svd_solver": solver, "fit_svd_solver_": solver, "_fit_svd_solver": solver})
        o = ctx.bare_object(I, st, cls, b2)
        lo = len(I.events)
        r = ctx.call_method(I, st, o, "_decompose_truncated", mat)
        site = ctx.site(P.method(cls, "_decompose_truncated"))
        if not ctx.ob("R-SPECTRUM", f"{label}._decompose_truncated[{solver}] returns a triple", r.items is not None and len(r.items) == 3, f"{r!r}", site):
            continue
        for nm, a, dims in zip(("U", "S", "Vt"), r.items, (("n", "K"), ("K",), ("K", "n"))):
            ctx.shape_is("Shape", f"{label}._decompose_truncated[{solver}]: shape of {nm}", a, dims, site)
        if True:
            # exact agreement with the reference (ARPACK: ascending output, all three factors reversed together;
            # KernelPCovR additionally zeroes the sub-tolerance triplets)
            I2, s2 = ctx.interp(), State()
            kern = label != "PCovR"
            if solver == "arpack":
                v0s = [e.get("v0") for e in I.events[lo:] if e["kind"] == "rng-sink" and e.get("v0") is not None]
                if v0s:
                    ref = ctx.call_func(I2, s2, "ref.pcovr_ref.kernel_components_arpack" if kern else "ref.pcovr_ref.leading_components_arpack", mat, integer("K"), b2["tol"], v0s[0])
                else:
                    ref = None
            else:
                seeds = [e.get("seed") for e in I.events[lo:] if e["kind"] == "rng-sink" and e.get("seed") is not None]
                itp = b2["iterated_power"] if isinstance(b2["iterated_power"], V) else vconst(b2["iterated_power"])
                if not seeds:
                    ref = None
                elif kern:
                    ref = ctx.call_func(I2, s2, "ref.pcovr_ref.kernel_components_randomized", mat, integer("K"), itp, seeds[0], b2["tol"])
                else:
                    ref = ctx.call_func(I2, s2, "ref.pcovr_ref.leading_components_randomized", mat, integer("K"), itp, seeds[0])
            if ctx.ob("R-SPECTRUM", f"{label}._decompose_truncated[{solver}]: solver call located", ref is not None, "rng sink with start vector / seed", site):
                for nm, a_, b_ in zip(("U", "S", "Vt"), r.items, ref.items):
                    ctx.compare("R-SPECTRUM", f"{label}._decompose_truncated[{solver}]: {nm} == reference (consistent ordering of the triple)", N, a_, b_, site)
        if label != "PCovR" and solver == "arpack":
            # KernelPCovR zeroes small singular directions afterwards; check the reversal structurally too
            def reversed_arg(t, which):
                # the svds factor must occur only under a [::-1] (rows) / [:, ::-1] (columns) view
                from .. import tq as _tq

                hits = [x for x in _tq.walk_all(t) if x.op == which]
                wrapped = [x for x in _tq.walk_all(t) if x.op == "getitem" and x.args[0].op == which and any(y.op == "slice" and y.args[2] == T("const", Fraction(-1)) for y in _tq.walk_all(x.args[1]))]
                return bool(hits) and len(set(wrapped)) >= 1 and all(any(w.args[0] is h or w.args[0] == h for w in wrapped) for h in hits)

            okS = reversed_arg(r.items[1].term, "svds_S")
            okU = reversed_arg(r.items[0].term, "svds_U")
            okV = reversed_arg(r.items[2].term, "svds_Vt") and reversed_arg(r.items[0].term, "svds_Vt") if any(x.op == "svds_Vt" for x in __import__("sa.tq", fromlist=["x"]).walk_all(r.items[0].term)) else reversed_arg(r.items[2].term, "svds_Vt")
            ctx.ob("R-SPECTRUM", f"{label}: ARPACK output reversed consistently (S, columns of U, rows of Vt)", okS and okU and okV, f"S reversed={okS} U reversed={okU} Vt reversed={okV}", site)
        sinks = [e for e in I.events[lo:] if e["kind"] == "rng-sink"]
        from .. import tq

        seeds_ok = all((e["seed"] is not None and tq.has_sym(e["seed"].term, "seed")) or (e.get("v0") is not None and tq.has_sym(e["v0"].term, "seed")) for e in sinks)
        ctx.ob("R-SPECTRUM", f"{label}._decompose_truncated[{solver}] seeded from random_state", len(sinks) == 1 and seeds_ok, f"{[(e['fn'], None if e['seed'] is None else repr(e['seed'].term), None if e.get('v0') is None else repr(e['v0'].term)[:80]) for e in sinks]}", site)


def _assume_int(term, node, interp):
    if term.op == "raises":
        return False
    if term.op == "isinstance":
        return True
    return None


def _k_only_in_outer_slice(t):
    """value = something[: k] (prefix slices) where `something` does not mention K"""
    core = t
    if core.op != "getitem":
        return False
    core = core.args[0]
    for x in core.walk():
        if x.op == "dim" and __import__("sa.tq", fromlist=["x"])._dim_mentions(x.args[0], "K"):
            return False
    return True


def solver_policy(ctx, rule):
    """svd_solver='auto' resolves as documented (exact for small problems and 'mle', randomized only for
    1 <= k < 0.8 min(extent) on larger data): concrete sizes on both sides of every boundary"""
    P = ctx.P
    cls = P.cls(PCOVR)
    site = ctx.site(P.method(cls, "fit"))
    # solver policy of svd_solver="auto" (documented): the exact full decomposition for small problems
    # (max extent <= 500) and for 'mle'; the randomized one only for 1 <= k < 0.8 min(extent) on larger data
    def noop(interp, clo, args, kw, st_, node):
        h = st_.heap[clo.self_v.obj.id]
        h["pxt_"] = farr(__import__("sa.terms", fromlist=["T"]).T("sym", "pxt"), "M", "K")
        h["pty_"] = farr(__import__("sa.terms", fromlist=["T"]).T("sym", "pty"), "K", "P")
        return vconst(None)

    for (n_, m_, k_, want) in ((100, 20, 5, "full"), (500, 500, 5, "full"), (1000, 50, 5, "randomized"), (1000, 50, 39, "randomized"), (1000, 50, 40, "full"), (1000, 50, 45, "full"), (600, 700, "mle", "full"), (501, 30, 1, "randomized")):
        I = ctx.interp(assume=protocols.assume_default, stubs={"PCovR._fit_feature_space": noop, "PCovR._fit_sample_space": noop})
        st = State()
        o = ctx.construct(I, st, cls, n_components=k_, mixing=scalar("alpha", 0, 1), svd_solver="auto")
        ctx.call_method(I, st, o, "fit", arr("X", n_, m_), arr("Y", n_, "P"))
        fs = ctx.attr(st, o, "fit_svd_solver_")
        cfg = f"auto solver, X {n_}x{m_}, n_components={k_!r}"
        ctx.ob(rule, f"svd_solver='auto' resolves to {want} [{cfg}]", fs is not None and fs.has_const and fs.const == want, f"fit_svd_solver_ = {fs!r}", site, cfg)

