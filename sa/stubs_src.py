"""Facts about external base classes the analysis relies on, written as python
source that is parsed (never executed) into the pseudo module ``skstubs``.
Read once from sklearn 1.5.2 in /venv (trusted base)."""

STUBS = '''
import numpy as np
from sklearn.utils import check_array


class KernelCenterer:
    def __init__(self):
        pass

    def fit(self, K, y=None):
        K = self._validate_data(K)
        self.K_fit_rows_ = np.average(K, axis=0)
        self.K_fit_all_ = np.average(self.K_fit_rows_)
        return self


class _BasePCA:
    def transform(self, X):
        X = check_array(X)
        return (X - self.mean_) @ self.components_.T
'''
