"""Terms (symbolic values), symbolic dimensions and abstract values.

A Term is an immutable tree ``op(args...)``; leaves are python constants or
symbols.  Dims are linear forms over rigid size symbols.  V is the abstract
value the interpreter manipulates: a term plus the facts the domains need
(kind, symbolic shape, origin set, provenance labels, known python constant,
known items of a sequence, object reference).
"""
from __future__ import annotations

import itertools
from fractions import Fraction

_ids = itertools.count(1)


def fresh_id():
    return next(_ids)


_INTERN = {}


def _ikey(a):
    # python numbers of different types compare equal (True == 1 == Fraction(1)): keep them apart
    if isinstance(a, tuple):
        return tuple(_ikey(x) for x in a)
    if isinstance(a, (bool, int, float, Fraction)):
        return (type(a).__name__, a)
    return a


class Term:
    """hash-consed: structurally equal terms are one object, so equality and hashing are O(1)
    (deep structural comparison of DAGs with shared sub-terms is exponential)"""

    __slots__ = ("op", "args", "_h")

    def __new__(cls, op, *args):
        try:
            key = (op, tuple(_ikey(a) for a in args))
            t = _INTERN.get(key)
        except TypeError:
            key, t = None, None
        if t is None:
            t = object.__new__(cls)
            t.op = op
            t.args = args
            t._h = hash(key) if key is not None else id(t)
            if key is not None:
                _INTERN[key] = t
        return t

    def __init__(self, op, *args):
        pass

    def __hash__(self):
        return self._h

    def __eq__(self, other):
        return self is other

    def __reduce__(self):
        return (Term, (self.op,) + tuple(self.args))

    def __ne__(self, other):
        return not self.__eq__(other)

    def __repr__(self):
        return show(self)

    def walk(self):
        """every distinct sub-term once (terms are DAGs with heavy sharing)"""
        stack = [self]
        seen = set()
        while stack:
            t = stack.pop()
            if id(t) in seen:
                continue
            seen.add(id(t))
            yield t
            for a in t.args:
                if isinstance(a, Term):
                    stack.append(a)
                elif isinstance(a, tuple):
                    stack.extend(_flatten_terms(a))


def _flatten_terms(tp):
    for x in tp:
        if isinstance(x, Term):
            yield x
        elif isinstance(x, tuple):
            yield from _flatten_terms(x)


def T(op, *args):
    return Term(op, *args)


def sym(name):
    return Term("sym", name)


def const(v):
    if isinstance(v, bool) or v is None or isinstance(v, str):
        return Term("const", v)
    if isinstance(v, int):
        return Term("const", Fraction(v))
    if isinstance(v, float):
        if v != v or v in (float("inf"), float("-inf")):
            return Term("const", repr(v))
        f = Fraction(v).limit_denominator(10**15)
        return Term("const", f if float(f) == v else Fraction(v))
    if isinstance(v, Fraction):
        return Term("const", v)
    return Term("const", repr(v))


def unk(tag="?"):
    return Term("unk", tag, fresh_id())


def is_unknown(t):
    return any(x.op == "unk" for x in t.walk())


def show(t, depth=0):
    if not isinstance(t, Term):
        if isinstance(t, tuple):
            return "(" + ", ".join(show(x, depth) for x in t) + ")"
        if isinstance(t, Fraction):
            return str(t.numerator) if t.denominator == 1 else (str(float(t)) if t.denominator > 1000 else str(t))
        return repr(t)
    if depth > 14:
        return "…"
    d = depth + 1
    op, a = t.op, t.args
    if op == "sym":
        return str(a[0])
    if op == "const":
        return show(a[0], d)
    if op == "unk":
        return f"?{a[0]}#{a[1]}"
    binops = {"add": "+", "sub": "-", "mul": "*", "div": "/", "matmul": "@", "pow": "**", "lt": "<", "le": "<=", "gt": ">", "ge": ">=", "eq": "==", "ne": "!=", "floordiv": "//", "mod": "%", "and": "and", "or": "or", "is": "is", "isnot": "is not", "bitor": "|", "bitand": "&"}
    if op in binops and len(a) == 2:
        return f"({show(a[0], d)} {binops[op]} {show(a[1], d)})"
    if op == "neg":
        return f"-{show(a[0], d)}"
    if op == "T":
        return f"{show(a[0], d)}.T"
    if op == "getitem":
        return f"{show(a[0], d)}[{show(a[1], d)}]"
    if op == "attr":
        return f"{show(a[0], d)}.{a[1]}"
    if op == "call":
        args = [show(x, d) for x in a[1]] + [f"{k}={show(v, d)}" for k, v in a[2]]
        return f"{a[0]}({', '.join(args)})"
    if op == "mcall":
        args = [show(x, d) for x in a[2]] + [f"{k}={show(v, d)}" for k, v in a[3]]
        return f"{show(a[0], d)}.{a[1]}({', '.join(args)})"
    if op == "slice":
        return ":".join("" if (isinstance(x, Term) and x.op == "const" and x.args[0] is None) else show(x, d) for x in a)
    if op == "tuple":
        return "(" + ", ".join(show(x, d) for x in a) + ")"
    if op == "list":
        return "[" + ", ".join(show(x, d) for x in a) + "]"
    return f"{op}(" + ", ".join(show(x, d) for x in a) + ")"


# ---------------------------------------------------------------------------
# symbolic dimensions: linear forms over atoms with integer coefficients
# ---------------------------------------------------------------------------


class Dim:
    """c0 + sum(ci * atom_i).  Atoms are strings (rigid size symbols) or tuples
    for opaque sub-terms ('max',a,b) ('min',a,b) ('mul',a,b) ('fdiv',a,k)
    ('unk',id).  A Dim containing an 'unk' atom is *flexible*: it never causes a
    conflict."""

    __slots__ = ("c", "lin", "_h")

    def __init__(self, c=0, lin=None):
        self.c = c
        self.lin = tuple(sorted(((a, k) for a, k in (lin or {}).items() if k != 0), key=lambda x: repr(x[0])))
        self._h = None

    @staticmethod
    def of(x):
        if isinstance(x, Dim):
            return x
        if isinstance(x, bool):
            return Dim(int(x))
        if isinstance(x, int):
            return Dim(x)
        if isinstance(x, str):
            return Dim(0, {x: 1})
        if isinstance(x, Fraction) and x.denominator == 1:
            return Dim(int(x))
        raise TypeError(x)

    @staticmethod
    def unknown(tag="d"):
        return Dim(0, {("unk", tag, fresh_id()): 1})

    def __hash__(self):
        if self._h is None:
            self._h = hash((self.c, self.lin))
        return self._h

    def __eq__(self, o):
        return isinstance(o, Dim) and self.c == o.c and self.lin == o.lin

    def is_const(self):
        return not self.lin

    def known(self):
        return not any(_atom_unknown(a) for a, _ in self.lin)

    def d(self):
        return dict(self.lin)

    def __add__(self, o):
        o = Dim.of(o)
        d = self.d()
        for a, k in o.lin:
            d[a] = d.get(a, 0) + k
        return Dim(self.c + o.c, d)

    def __neg__(self):
        return Dim(-self.c, {a: -k for a, k in self.lin})

    def __sub__(self, o):
        return self + (-Dim.of(o))

    def scale(self, k):
        return Dim(self.c * k, {a: c * k for a, c in self.lin})

    def mul(self, o):
        o = Dim.of(o)
        if self.is_const():
            return o.scale(self.c)
        if o.is_const():
            return self.scale(o.c)
        a, b = sorted([self, o], key=repr)
        return Dim(0, {("mul", a, b): 1})

    def floordiv(self, k):
        o = Dim.of(k)
        if self.is_const() and o.is_const() and o.c != 0:
            return Dim(self.c // o.c)
        if o.is_const() and o.c == 1:
            return self
        # exact monomial division  (a*b)//a
        if len(self.lin) == 1 and self.c == 0:
            (a, k1), = self.lin
            if isinstance(a, tuple) and a[0] == "mul" and k1 == 1:
                if a[1] == o:
                    return a[2]
                if a[2] == o:
                    return a[1]
        if self == o:
            return Dim(1)
        return Dim(0, {("fdiv", self, o): 1})

    def __repr__(self):
        if not self.lin:
            return str(self.c)
        parts = []
        for a, k in self.lin:
            s = _atom_repr(a)
            if k == 1:
                parts.append(s)
            elif k == -1:
                parts.append("-" + s)
            else:
                parts.append(f"{k}*{s}")
        out = "+".join(parts).replace("+-", "-")
        if self.c:
            out += ("+" if self.c > 0 else "") + str(self.c)
        return out


def _atom_unknown(a):
    if isinstance(a, tuple):
        if a[0] == "unk":
            return True
        return any(isinstance(x, Dim) and not x.known() for x in a[1:])
    return False


def _atom_repr(a):
    if isinstance(a, str):
        return a
    if a[0] == "unk":
        return f"?{a[1]}{a[2]}"
    return f"{a[0]}(" + ",".join(repr(x) for x in a[1:]) + ")"


class Order:
    """Declared strict order facts between size symbols (regimes such as M<P)."""

    def __init__(self, facts=()):
        self.lt = set()  # (a, b) : a < b  (Dim reprs)
        self.le = set()
        for a, op, b in facts:
            a, b = Dim.of(a), Dim.of(b)
            if op == "<":
                self.lt.add((a, b))
            elif op == "<=":
                self.le.add((a, b))
            elif op == ">":
                self.lt.add((b, a))
            elif op == ">=":
                self.le.add((b, a))
            elif op == "==":
                self.le.add((a, b))
                self.le.add((b, a))

    def cmp(self, a, b):
        """-1 if a<b known, 0 if equal, 1 if a>b, 2 if a<=b, 3 if a>=b, None unknown"""
        a, b = Dim.of(a), Dim.of(b)
        if a == b:
            return 0
        diff = a - b
        if diff.is_const():
            return -1 if diff.c < 0 else 1
        # size symbols are >= 1: a linear form with one-signed coefficients has a sign
        if all(isinstance(at, str) for at, _ in diff.lin):
            if all(k > 0 for _, k in diff.lin):
                lo = sum(k for _, k in diff.lin) + diff.c
                if lo > 0:
                    return 1
                if lo == 0:
                    return 3
            if all(k < 0 for _, k in diff.lin):
                hi = sum(k for _, k in diff.lin) + diff.c
                if hi < 0:
                    return -1
                if hi == 0:
                    return 2
        # X - Y + c with a declared order fact between X and Y
        if len(diff.lin) == 2 and sorted(k for _, k in diff.lin) == [-1, 1] and not getattr(self, "_busy2", False):
            (p_, _), = [(at, k) for at, k in diff.lin if k == 1]
            (n_, _), = [(at, k) for at, k in diff.lin if k == -1]
            P_, N_ = Dim(0, {p_: 1}), Dim(0, {n_: 1})
            self._busy2 = True
            try:
                c0 = self.cmp(P_, N_)
            finally:
                self._busy2 = False
            if c0 == 1:  # P - N >= 1
                lo = 1 + diff.c
                if lo > 0:
                    return 1
                if lo == 0:
                    return 3
            elif c0 in (0, 3):  # P - N >= 0
                if diff.c > 0:
                    return 1
                if diff.c == 0:
                    return 3 if c0 == 3 else 0
            if c0 == -1:  # P - N <= -1
                hi = diff.c - 1
                if hi < 0:
                    return -1
                if hi == 0:
                    return 2
            elif c0 in (0, 2):
                if diff.c < 0:
                    return -1
                if diff.c == 0:
                    return 2 if c0 == 2 else 0
        # a single min / max atom: compare with both of its arguments
        for x, y, flip in ((a, b, False), (b, a, True)):
            if x.c == 0 and len(x.lin) == 1:
                (at, k), = x.lin
                if k == 1 and isinstance(at, tuple) and at[0] in ("min", "max") and len(at) == 3 and not getattr(self, "_busy", False):
                    self._busy = True
                    try:
                        c1, c2 = self.cmp(at[1], y), self.cmp(at[2], y)
                    finally:
                        self._busy = False
                    r = None
                    if at[0] == "min":
                        # min(p, q) vs y
                        if c1 in (1,) and c2 in (1,):
                            r = 1
                        elif c1 in (0, 1, 3) and c2 in (0, 1, 3):
                            r = 3
                        elif c1 == -1 or c2 == -1:
                            r = -1
                        elif c1 in (0, 2) or c2 in (0, 2):
                            r = 2
                    else:
                        if c1 == -1 and c2 == -1:
                            r = -1
                        elif c1 in (0, -1, 2) and c2 in (0, -1, 2):
                            r = 2
                        elif c1 == 1 or c2 == 1:
                            r = 1
                        elif c1 in (0, 3) or c2 in (0, 3):
                            r = 3
                    if r is not None:
                        if flip:
                            r = {1: -1, -1: 1, 2: 3, 3: 2, 0: 0}[r]
                        return r
        if (a, b) in self.lt:
            return -1
        if (b, a) in self.lt:
            return 1
        if (a, b) in self.le and (b, a) in self.le:
            return 0
        if (a, b) in self.le:
            return 2
        if (b, a) in self.le:
            return 3
        # a = b + positive const handled above; a - b with all coefficients of one sign
        # and symbols assumed >= 1:   N-1 vs N etc. handled by const diff.
        return None

    def dmax(self, a, b):
        c = self.cmp(a, b)
        if c in (0, 1, 3):
            return Dim.of(a)
        if c in (-1, 2):
            return Dim.of(b)
        a, b = sorted([Dim.of(a), Dim.of(b)], key=repr)
        return Dim(0, {("max", a, b): 1})

    def dmin(self, a, b):
        c = self.cmp(a, b)
        if c in (0, -1, 2):
            return Dim.of(a)
        if c in (1, 3):
            return Dim.of(b)
        a, b = sorted([Dim.of(a), Dim.of(b)], key=repr)
        return Dim(0, {("min", a, b): 1})


# ---------------------------------------------------------------------------
# abstract values
# ---------------------------------------------------------------------------

FRESH = ("fresh",)


class ObjRef:
    """identity of an abstract object with attributes stored in State.heap"""

    __slots__ = ("id", "cls", "ext", "label")

    def __init__(self, cls=None, ext=None, label=None):
        self.id = fresh_id()
        self.cls = cls
        self.ext = ext
        self.label = label

    def __repr__(self):
        n = self.cls.name if self.cls is not None else (self.ext or "obj")
        return f"<{n}#{self.id}>"


class V:
    """abstract value"""

    __slots__ = ("kind", "term", "shape", "const", "has_const", "items", "obj", "orig", "labels", "func", "loc", "dim", "extra", "view")

    def __init__(self, kind, term, shape=None, const_=None, has_const=False, items=None, obj=None, orig=frozenset(), labels=frozenset(), func=None, loc=None, dim=None, extra=None, view=None):
        self.kind = kind  # arr int float bool none str tuple list dict obj func slice unk mod cls scorer
        self.term = term
        self.shape = shape
        self.const = const_
        self.has_const = has_const
        self.items = items
        self.obj = obj
        self.orig = orig
        self.labels = labels
        self.func = func
        self.loc = loc
        self.dim = dim
        self.extra = extra
        self.view = view  # index term of the base array this value is a basic view of (set once it is written through)

    def replace(self, **kw):
        d = {k: getattr(self, k) for k in V.__slots__}
        if "const_" in kw:
            kw["const"] = kw.pop("const_")
        d.update(kw)
        v = V.__new__(V)
        for k, x in d.items():
            setattr(v, k, x)
        return v

    @property
    def rank(self):
        return None if self.shape is None else len(self.shape)

    def __repr__(self):
        s = f"V<{self.kind}"
        if self.shape is not None:
            s += f" {self.shape}"
        if self.has_const:
            s += f" ={self.const!r}"
        return s + f" {show(self.term)[:120]}>"


def vconst(x):
    if x is None:
        return V("none", const(None), const_=None, has_const=True)
    if isinstance(x, bool):
        return V("bool", const(x), shape=(), const_=x, has_const=True)
    if isinstance(x, int):
        return V("int", const(x), shape=(), const_=x, has_const=True, dim=Dim(x))
    if isinstance(x, float):
        return V("float", const(x), shape=(), const_=x, has_const=True)
    if isinstance(x, str):
        return V("str", const(x), const_=x, has_const=True)
    if isinstance(x, Fraction):
        return V("float", const(x), shape=(), const_=float(x), has_const=True)
    return V("unk", const(x))


def vunk(tag="?"):
    return V("unk", unk(tag))


def varr(term, shape=None, orig=frozenset([FRESH]), labels=frozenset(), loc=None):
    return V("arr", term, shape=shape, orig=orig, labels=labels, loc=loc if loc is not None else fresh_id())


def vint(term, dim=None, labels=frozenset()):
    return V("int", term, shape=(), dim=dim, labels=labels)


def vfloat(term, labels=frozenset()):
    return V("float", term, shape=(), labels=labels)


def vbool(term, labels=frozenset()):
    return V("bool", term, shape=(), labels=labels)


# names of the symbolic values that stand for caller-supplied data (filled by the harness)
INPUT_SYMS = set()
