"""term queries used by the specs (structural, never textual)"""
from .terms import Term


def walk_all(t):
    """every sub-term, also those nested in tuple arguments (kwargs)"""
    stack = [t]
    seen = set()
    while stack:
        x = stack.pop()
        if isinstance(x, tuple):
            stack.extend(x)
            continue
        if not isinstance(x, Term) or id(x) in seen:
            continue
        seen.add(id(x))
        yield x
        if x.op == "dim":
            stack.extend(_dim_terms(x.args[0]))
            continue
        stack.extend(x.args)


def _dim_terms(d):
    out = []
    for atom, _ in getattr(d, "lin", ()):
        if isinstance(atom, tuple):
            for y in atom[1:]:
                if isinstance(y, Term):
                    out.append(y)
                elif hasattr(y, "lin"):
                    out.extend(_dim_terms(y))
    return out


def has_sym(t, name):
    return any(x.op == "sym" and x.args[0] == name for x in walk_all(t))


def has_op(t, *ops):
    return any(x.op in ops for x in walk_all(t))


def has_size(t, name):
    """a size symbol occurs in a dim(...) sub-term"""
    for x in walk_all(t):
        if x.op == "dim":
            d = x.args[0]
            if _dim_mentions(d, name):
                return True
    return False


def _dim_mentions(d, name):
    for atom, _ in d.lin:
        if atom == name:
            return True
        if isinstance(atom, tuple):
            for y in atom[1:]:
                if hasattr(y, "lin") and _dim_mentions(y, name):
                    return True
                if isinstance(y, Term) and has_size(y, name):
                    return True
    return False


def has_attr(t, name):
    return any(x.op == "attr" and x.args[1] == name for x in walk_all(t))


def has_mcall(t, method):
    return any((x.op == "mcall" and x.args[1] == method) or (x.op == "after" and x.args[1] == method) for x in walk_all(t))


def contains(big, small):
    return any(x == small for x in walk_all(big))


def cmp_parts(t):
    """(op, a, b) of a comparison oriented as lt/le; None otherwise"""
    if not isinstance(t, Term):
        return None
    if t.op in ("lt", "le") and len(t.args) == 2:
        return t.op, t.args[0], t.args[1]
    if t.op in ("gt", "ge") and len(t.args) == 2:
        return ("lt" if t.op == "gt" else "le"), t.args[1], t.args[0]
    return None


def randint_range(x):
    """(low, high) terms of an `rng(state, 'randint', args, kwargs)` draw: randint(n) / randint(lo, hi) /
    randint(low=..., high=...); low defaults to 0 (None when it cannot be read off)"""
    from .terms import Term, const

    if not (isinstance(x, Term) and x.op == "rng" and len(x.args) >= 4 and x.args[1] == "randint"):
        return None
    pos = list(x.args[2]) if isinstance(x.args[2], tuple) else []
    kw = dict(x.args[3]) if isinstance(x.args[3], tuple) else {}
    lo = kw.get("low", pos[0] if pos else None)
    hi = kw.get("high", pos[1] if len(pos) > 1 else None)
    if hi is None:
        lo, hi = const(0), lo  # a single bound is the exclusive upper end
    return lo, hi


def denominators(t):
    """terms the value is divided by (a / b, scalar division, negative powers, reciprocal)"""
    from fractions import Fraction

    out = []
    for x in walk_all(t):
        if x.op in ("div", "sdiv", "floordiv", "mod") and len(x.args) == 2:
            out.append(x.args[1])
        elif x.op == "pow" and len(x.args) == 2 and isinstance(x.args[1], Term) and x.args[1].op == "const" and isinstance(x.args[1].args[0], (int, float, Fraction)) and x.args[1].args[0] < 0:
            out.append(x.args[0])
        elif x.op in ("reciprocal", "inv1"):
            out.append(x.args[0])
    return out
